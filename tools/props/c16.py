"""C16 -- indexing a fileset by a timestamp returns the covering or the nearest file.

Theorems: coq/theories/Props/C16.v about the model coq/theories/Model/C16_closest.v (exact-name short cut through
C02's `render` = get_filename, window t +- P, brute-force candidates, first covering file, else first argmin).
CORE: closest_ok fs q P t r = true <-> ClosestSpec fs q P t r (the relational checker decides the property), and
the algorithm meets the specification (model_meets_spec).

Tie, on every run: grammar-generated templates (flat, temporal / user / literal sub-directories, end fields, user
placeholders, time_coverage) x populations (gaps, overlaps, discrete files, ties, files exactly on the window
boundary t +- P) are created in a temporary directory with the harness's OWN renderer; the REAL
FileSet.find_closest / fileset[t] / fileset[t, filters] is run; the implementation's answer is judged INSIDE Coq by
the certified checker on the harness's own list of created files (never by a re-implementation in Python).  By
accepted_iff_spec a rejected answer on a case whose hypotheses hold (evaluated in Coq: coverages well formed, a file
named by get_filename(t) covers t) is a counter-example to the property: a failing input.

Extension (Model/C16_tree.v): every tree is also handed to the COMPOSED model -- the window computed from the directory
layout, the algorithmic model of FileSet.find of property C01 (directory walk with look-back and pruning) in walk
order, first covering / first nearest file.  Per tree Coq checks that layout_of(template) is the harness's own layout
and that C01's hypotheses hold; per query that the window stays inside datetime and that the flat listing describes
the tree; then composed_is_flat_model says the two models agree -- evaluated on every query (a difference is a `proof`
failure).  The implementation's choice among several allowed files is compared with the model's (first in find
order: search_first_in_order) and counted, not judged: the property allows any of them.  Directed trees
(edge_trees) put t on directory boundaries, on first / last instants, next to files of the neighbouring directory and
two directories away, and exactly on both edges of the window; fileset[...] is indexed with datetime,
pandas.Timestamp, str, (t, filters) tuples and [t, filters] lists, filters None or a dict (Model/C16_tree.getitem).

Extension 2 (several filter entries): a share of the trees carries TWO user placeholders, {sat} and {ver}, each as a
directory level or as part of the file name (gen_tree(two=True), a random stream of its own; filter_trees: directed,
seed-independent).  Their queries carry filters dicts with several entries -- two '!' keys in both orders, a '!' key
with a white-list key, lists of values, the same placeholder white- and black-listed.  The dict is handed to Coq entry
by entry in the order of the dict (dict_query / zsplit split it as FileSet.find does); the candidates are the files
passing ALL entries (all_filters_apply), whatever the order (dict_order_irrelevant); the numbered image handed to the
composed model gives every file the same verdict (encoded_filters_agree, pool_numbering_ok: the numbering is checked once
per run, `agrees` per query).

Extension 3 (histories and neighbours of the object under test; harness only, the models are unchanged):
 * re-configured time coverage: trees WITHOUT end fields may carry tree["recover"] = {"from": A}; the FileSet object is
   then constructed with the coverage A (None / timedelta / "N seconds"), looks at its files (find() over everything,
   find_closest, fileset[t]) and is told the coverage B of the tree by `fileset.time_coverage = B` before the query
   proper (make_fileset).  The checker judges with the coverages of B, i.e. the answer of a fresh object constructed
   with B.  recover_trees: directed, seed-independent (files at 00:00 / 08:00 / 16:00, steps None -> 6 h, 6 h -> 2 h,
   6 h -> None, 2 h -> 6 h, 24 h -> 6 h, 2 h -> None, timestamps whose covering / nearest file differs between A and B,
   each with the expected file); add_recover_histories: half of the random trees without end fields (own stream).
 * decoy FileSet objects: for every tree with a user placeholder two other FileSet objects with the SAME placeholder
   names and OTHER regexes (a literal value, "metop" + one word character, the default) are created on another directory AFTER the objects
   under test and stay alive during the query (make_decoys); every answer, in particular find_closest(t, filters) /
   fileset[t, filters] with a dict (also {}), is judged exactly as without them.
"""
import datetime as dt
import shutil
import tempfile
from pathlib import Path

from lib import core
from lib.core import zlit, zlist, coq_list, coq_string

PREAMBLE = ("From Typhon Require Import Base.Calendar Model.C02_template Model.C16_closest Model.C16_tree.\n"
            "From Typhon Require Model.C01_find.\n"
            "Open Scope string_scope.\n")
TRUSTED = [
    "correspondence harness tools/props/c16.py (template grammar, own file-name renderer, population and query "
    "generators, mapping of returned paths to indices, error enum)",
    "FileSet.find behaves as its model Model/C01_find.v (tied to the source by the check of property C01); that this "
    "model yields exactly the overlapping, filter-passing, non-excluded files of the window, in walk order, is no longer "
    "trusted: closest_end_to_end / composed_is_flat_model, hypotheses evaluated in Coq per tree and query",
    "pandas.to_datetime on the strings the harness writes (%Y-%m-%d %H:%M:%S) = the timestamp (the `parse` of the "
    "dispatch theorems)",
    "FileSet.get_info parses the coverage the harness wrote into the name (property C02; compared per file on every run)",
    "IntervalTree membership of exclude periods = closed-interval overlap (property C03)",
    "Python re / glob / str.format / datetime, numpy argmin on timedelta objects: exercised, not modelled",
]
MIN = dt.datetime.min
US = dt.timedelta(microseconds=1)
ROOT = "/R"                                  # the name of the temporary root inside Coq
CTOR = {"year": "FYear", "year2": "FYear2", "month": "FMonth", "day": "FDay", "doy": "FDoy", "hour": "FHour",
        "minute": "FMinute", "second": "FSecond"}
DAY, HOUR, MINUTE, SECOND = 86400 * 10**6, 3600 * 10**6, 60 * 10**6, 10**6
RES = {"day": DAY, "hour": HOUR, "minute": MINUTE, "second": SECOND}
RANK = {"year": 0, "month": 1, "day": 2, "hour": 3, "minute": 4, "second": 5}
PERIOD = {"year": 366 * DAY, "year2": 366 * DAY, "month": 31 * DAY, "day": DAY, "doy": DAY, "hour": HOUR}
SATS = ["noaa", "metop", "x1", "n19"]      # prefix-free: black lists (re.match) and white lists (anchored) agree
VERS = ["v1", "v2", "v3"]                  # the values of the SECOND user placeholder {ver}; prefix-free as well
POOL = {"sat": SATS, "ver": VERS}          # user placeholder -> its values
PH_INDEX = {"sat": 0, "ver": 1}            # user placeholder -> its number in C01's vocabulary (Model/C01_find: attrs)
DIAG = {0: "accepted", 1: "not-a-file-of-the-fileset", 2: "excluded-file", 3: "filtered-out-file",
        4: "far-away-file", 5: "not-covering", 6: "not-nearest", 7: "absence-with-candidates"}


def us_of(t):
    return (t - MIN) // US


def of_us(u):
    return MIN + dt.timedelta(microseconds=u)


# ----------------------------------------------------------------------------- templates
# token: ("lit", text) | ("t", end: bool, field) | ("u", name)

def T(f, end=False):
    return ("t", end, f)


def L(s):
    return ("lit", s)


DIRS = {   # name -> (chunks, temporal fields of the directory part)
    "flat": [],
    "Y": [[T("year")]],
    "Y/M": [[T("year")], [T("month")]],
    "Y/M/D": [[T("year")], [T("month")], [T("day")]],
    "Y/J": [[T("year")], [T("doy")]],
    "y/M": [[T("year2")], [T("month")]],
    "Y/M/D/H": [[T("year")], [T("month")], [T("day")], [T("hour")]],
    "sat": [[("u", "sat")]],
    "sat/Y/M": [[("u", "sat")], [T("year")], [T("month")]],
    "lit/Y/mM": [[L("data")], [T("year")], [L("m"), T("month")]],
    "YM": [[T("year"), T("month")]],
    "Y-M-D": [[T("year"), L("-"), T("month"), L("-"), T("day")]],
    "Y/sat/M": [[T("year")], [("u", "sat")], [T("month")]],
    # layouts with the second user placeholder as a directory level (only drawn for the two-placeholder trees: they are
    # not in DIR_WEIGHTS, the general stream is what it was)
    "ver": [[("u", "ver")]],
    "sat/Y/M/D": [[("u", "sat")], [T("year")], [T("month")], [T("day")]],
    "ver/Y/M/D": [[("u", "ver")], [T("year")], [T("month")], [T("day")]],
    "sat/ver": [[("u", "sat")], [("u", "ver")]],
    "sat/ver/Y/M": [[("u", "sat")], [("u", "ver")], [T("year")], [T("month")]],
    "sat_ver/Y": [[("u", "sat"), L("_"), ("u", "ver")], [T("year")]],
}
DIR_WEIGHTS = ["flat", "flat", "Y", "Y/M", "Y/M", "Y/M/D", "Y/M/D", "Y/J", "y/M", "Y/M/D/H", "sat", "sat/Y/M",
               "lit/Y/mM", "YM", "Y-M-D", "Y/sat/M"]
# two-placeholder trees ({sat} and {ver}; whichever is not a directory level is part of the file name)
TWO_WEIGHTS = ["flat", "flat", "Y", "Y/M", "Y/M/D", "Y/J", "sat", "sat/Y/M", "Y/sat/M", "ver", "ver/Y/M/D", "sat/ver",
               "sat/ver/Y/M", "sat_ver/Y", "YM"]


def dir_fields(kind):
    return [t[2] for ch in DIRS[kind] for t in ch if t[0] == "t"]


def own_period(kind):
    """the harness's own idea of the sub-directory period (None = no sub-directory with placeholders)"""
    if not any(t[0] != "lit" for ch in DIRS[kind] for t in ch):
        return None
    ps = [PERIOD[f] for f in dir_fields(kind)]
    return min(ps) if ps else 366 * DAY


FCTOR = {"year": ["F.FYear"], "year2": ["F.FYear"], "month": ["F.FMonth"], "day": ["F.FDay"],
         "doy": ["F.FMonth", "F.FDay"], "hour": ["F.FHour"], "minute": ["F.FMinute"], "second": ["F.FSecond"]}


def own_layout(kind):
    """the harness's own idea of the directory layout in the vocabulary of C01's model: one entry per directory level
    below the base directory (which ends where the first placeholder begins): None = a literal level, else the
    standardised temporal placeholders of the level"""
    lay, started = [], False
    for ch in DIRS[kind]:
        if all(t[0] == "lit" for t in ch):
            if started:
                lay.append(None)
            continue
        started = True
        lay.append([c for t in ch if t[0] == "t" and not t[1] for c in FCTOR[t[2]]])
    return lay


def coq_layout(lay):
    return coq_list(["F.CLit" if ch is None else f"F.CPat {coq_list(ch)}" for ch in lay])


def walk_order(files):
    """the order in which FileSet.find(sort=False) yields the files: directories level by level and the files of a
    directory in the sorted order of the file system's glob (names of one level are never prefixes of each other)"""
    return sorted(range(len(files)), key=lambda i: tuple(files[i]["name"].split("/")))


def merge_lits(tokens):
    out = []
    for t in tokens:
        if t[0] == "lit":
            if not t[1]:
                continue
            if out and out[-1][0] == "lit":
                out[-1] = ("lit", out[-1][1] + t[1])
                continue
        out.append(tuple(t))
    return out


def template_string(tokens):
    out = []
    for t in tokens:
        if t[0] == "lit":
            out.append(t[1])
        elif t[0] == "t":
            out.append("{" + ("end_" if t[1] else "") + t[2] + "}")
        else:
            out.append("{" + t[1] + "}")
    return "".join(out)


def own_text(field, t):
    if field == "year":
        return "%04d" % t.year
    if field == "year2":
        return "%02d" % (t.year % 100)
    if field == "doy":
        return "%03d" % t.timetuple().tm_yday
    return "%02d" % getattr(t, field)


def own_render(tokens, s, e, sat, ver=None):
    out = []
    for t in tokens:
        if t[0] == "lit":
            out.append(t[1])
        elif t[0] == "t":
            out.append(own_text(t[2], e if t[1] else s))
        else:
            out.append(ver if t[1] == "ver" else sat)
    return "".join(out)


def cs(s):
    return f"(s2l {coq_string(s)})"


def coq_tokens(tokens, fixed_sat):
    items = []
    for t in tokens:
        if t[0] == "lit":
            items.append(f"Lit {cs(t[1])}")
        elif t[0] == "t":
            items.append(f"T {'true' if t[1] else 'false'} {CTOR[t[2]]}")
        else:
            kind = f"(Some (UAlts [{cs(fixed_sat)}]))" if fixed_sat else "(Some UAny)"
            items.append(f"U {cs(t[1])} {kind}")
    return coq_list(items)


# ----------------------------------------------------------------------------- generators

SPECIAL_DAYS = [(2, 28), (2, 29), (3, 1), (12, 31), (1, 1), (12, 30), (1, 31), (4, 30), (7, 15), (10, 9)]


def gen_centre(rng, res):
    y = rng.choice([1972, 1999, 2000, 2016, 2017, 2018, 2024, 2055, rng.randint(1971, 2057)])
    if rng.random() < 0.6:
        m, d = rng.choice(SPECIAL_DAYS)
    else:
        m, d = rng.randint(1, 12), rng.randint(1, 28)
    while True:
        try:
            dt.date(y, m, d)
            break
        except ValueError:
            d -= 1
    style = rng.random()
    if style < 0.3:
        h, mi, se = 23, 59, 59
    elif style < 0.55:
        h, mi, se = 0, 0, 0
    else:
        h, mi, se = rng.randint(0, 23), rng.randint(0, 59), rng.randint(0, 59)
    u = us_of(dt.datetime(y, m, d, h, mi, se))
    return u // RES[res] * RES[res]


def gen_tree(rng, k, force=None, two=False):
    """force (directed cases only): {"kind", "res", "ends", "sat"} override the drawn choices AFTER they are drawn, so
    that the general stream (force=None) is exactly what it was.
    two: a tree with TWO user placeholders, {sat} and {ver}, each a directory level or part of the file name; its
    queries carry filters over both (gen_filters2).  These trees are drawn from a stream of their own."""
    force = force or {}
    kind = rng.choice(DIR_WEIGHTS)
    if two:
        kind = rng.choice(TWO_WEIGHTS)
    kind = force.get("kind", kind)
    dfields = dir_fields(kind)
    dir_rank = max([RANK.get({"year2": "year", "doy": "day"}.get(f, f)) for f in dfields], default=0)
    res = rng.choice([r for r in ("day", "hour", "hour", "minute", "second") if RANK[r] >= dir_rank])
    res = force.get("res", res)
    r = RES[res]
    P = own_period(kind)
    sub = ["hour", "minute", "second"][:RANK[res] - 2]
    has_full_date_dir = {"year", "month", "day"} <= set(dfields) or {"year", "doy"} <= set(dfields)
    style = rng.choice(["full", "full", "doy", "y2", "rest"])
    if force:
        style = "full"
    if style == "rest" and not (has_full_date_dir and sub):
        style = "full"
    if "year2" in dfields:
        style = "y2"
    date = {"full": ["year", "month", "day"], "doy": ["year", "doy"], "y2": ["year2", "month", "day"], "rest": []}[style]
    ends = style != "rest" and rng.random() < 0.4
    ends = force.get("ends", ends)
    sat_in_dir = any(t == ("u", "sat") for ch in DIRS[kind] for t in ch)
    ver_in_dir = any(t == ("u", "ver") for ch in DIRS[kind] for t in ch)
    sat_in_name = (not sat_in_dir) and rng.random() < 0.4
    if two:
        sat_in_name = not sat_in_dir
    if "sat" in force:
        sat_in_name = force["sat"] and not sat_in_dir
    has_sat = sat_in_dir or sat_in_name
    has_ver = bool(two)
    ver_in_name = has_ver and not ver_in_dir
    fixed_sat = rng.choice(SATS[:3]) if has_sat and rng.random() < 0.15 else None
    coverage = None
    if not ends and rng.random() < 0.55 and not force:
        cap = P if P is not None else 400 * DAY
        coverage = rng.choice([u for u in (r, 2 * r, 6 * r, 24 * r, 30 * r, cap) if u <= cap])
    # tokens
    toks = [L(ROOT + "/")]
    for ch in DIRS[kind]:
        toks += list(ch) + [L("/")]
    toks.append(L(rng.choice(["f_", "MHS.", "", "a-b_"])))
    sep = rng.choice(["T", "_", ""])
    toks += [T(f) for f in date] + ([L(sep)] if sub and date else []) + [T(f) for f in sub]
    if ends == "partial":          # directed cases only: the end is written with its sub-day fields alone
        toks += [L("-")] + [T(f, True) for f in sub]
    elif ends:
        toks += [L("-")] + [T(f, True) for f in date] + ([L(sep)] if sub else []) + [T(f, True) for f in sub]
    if sat_in_name:
        toks += [L("_"), ("u", "sat")]
    if ver_in_name:
        toks += [L(rng.choice(["_", ".", "-", "_r"])), ("u", "ver")]
    toks.append(L(rng.choice([".dat", ".nc", ".bin"])))
    toks = merge_lits(toks)
    # population around the centre
    tc = gen_centre(rng, res)
    S = P if P is not None else rng.choice([HOUR, DAY, 40 * DAY, 400 * DAY])
    K = max(1, S // r)
    cap = (P // r) if P is not None else K
    n = rng.choice([0, 1, 1, 2, 2, 3, 3, 4, 5, 6, 8, 10, 12])
    files, names = [], set()
    for _ in range(4 * n):
        if len(files) >= n:
            break
        st = rng.random()
        if coverage is not None:
            dur = coverage // r
        elif not ends:
            dur = 0
        else:
            dur = min(cap, rng.choice([0, 0, 1, 2, rng.randint(0, min(cap, 20)), cap, rng.randint(0, cap)]))
        if st < 0.15:
            off = rng.choice([0, 0, 1, -1, 2, -2])
        elif st < 0.3:
            off = -rng.randint(0, dur) if dur else rng.randint(-3, 3)          # covering the centre
        elif st < 0.55:                                                       # on the window boundary
            off = rng.choice([K, K - 1, K + 1, -K - dur, -K - dur - 1, -K - dur + 1, -K, -K + 1])
        elif st < 0.7:
            off = rng.randint(-12, 12)
        else:
            off = rng.randint(-(13 * K) // 10 - 2, (13 * K) // 10 + 2)
        if files and rng.random() < 0.12:                                     # a tie partner: mirror an existing file
            g = rng.choice(files)
            if g["t1"] < tc:
                off = (tc - g["t1"]) // r
            elif g["t0"] > tc:
                off = -((g["t0"] - tc) // r) - dur
        t0 = tc + off * r
        t1 = t0 + dur * r
        sat = (fixed_sat or rng.choice(SATS)) if has_sat else None
        ver = rng.choice(VERS) if has_ver else None
        name = own_render(toks, of_us(t0), of_us(t1), sat, ver)
        if name in names:
            continue
        names.add(name)
        files.append({"name": name, "t0": t0, "t1": t1, "sat": sat, "ver": ver})
    rng.shuffle(files)
    tree = {"id": k, "kind": kind, "res": res, "tokens": toks, "fixed_sat": fixed_sat, "coverage": coverage,
            "has_sat": has_sat, "has_ver": has_ver, "files": files, "centre": tc, "P": P, "ends": ends}
    tree["queries"] = gen_queries(rng, tree, K)
    # history: files that exist when the FileSet object first looks at the directory and are gone afterwards (moved away,
    # deleted); the object must answer for the files that exist NOW.  The vanished files are not part of tree["files"]
    # (the population the checker judges); each gets a query at its own start time (the exact-name short cut)
    tree["vanished"] = []
    if len(files) >= 2 and rng.random() < 0.3:
        for _ in range(rng.choice([1, 1, 2])):
            if len(tree["files"]) < 2:
                break
            v = tree["files"].pop(rng.randrange(len(tree["files"])))
            tree["vanished"].append(v)
            tree["queries"].append({"label": "vanished-exact", "t": v["t0"], "filters": None, "xnames": [], "xtimes": [],
                                    "as_str": False})
        keep = {f["name"] for f in tree["files"]}
        for q in tree["queries"]:
            q["xnames"] = [n for n in q["xnames"] if n in keep]
    return tree


def nested_tree(rng, k):
    """A directed population every run contains whatever the seed: a long file with a short one NESTED inside it (starts
    later, ends earlier), a far later file, and timestamps in the gap after the long file's end -- the nearest file by
    end points is the long one, which is neither the start-time neighbour before nor after the timestamp."""
    for _ in range(200):
        tree = gen_tree(rng, k)
        r = RES[tree["res"]]
        P = tree["P"]
        cap = (P // r) if P is not None else 400
        if tree["ends"] and cap >= 16 and not tree["has_sat"]:
            break
    else:
        return None
    tc = tree["centre"]
    L_ = min(cap, 20)
    spans = [(0, L_), (3, 1), (2 * L_ + 6, 1)]                       # (offset, duration) in units of the resolution
    files, names = [], set()
    for off, dur in spans:
        t0 = tc + off * r
        t1 = t0 + dur * r
        name = own_render(tree["tokens"], of_us(t0), of_us(t1), None)
        if name in names:
            return None
        names.add(name)
        files.append({"name": name, "t0": t0, "t1": t1, "sat": None})
    tree["files"] = files
    tree["vanished"] = []
    tree["queries"] = [{"label": "after-the-long-file", "t": tc + (L_ + d) * r, "filters": None, "xnames": [], "xtimes": [],
                        "as_str": False} for d in (1, 2, 3)]
    return tree


def partial_end_trees(rng, k0):
    """Directed trees every run contains whatever the seed: the end of the coverage is written with hour and minute (and
    second) only; one file wraps past midnight (its end parses EARLIER than its start and is rolled by a day), a short
    file follows it closely.  Timestamps in the wrapped part are covered by the wrapping file; a roll-over by less than a
    day would make the later file the nearest one."""
    out = []
    for j, (kind, res) in enumerate([("flat", "minute"), ("Y/M", "minute"), ("Y/M/D", "second"), ("Y", "minute")]):
        tree = gen_tree(rng, k0 + j, force={"kind": kind, "res": res, "ends": "partial", "sat": False})
        r = RES[res]
        day0 = (tree["centre"] // DAY) * DAY + (0 if kind != "Y/M/D" else 0)
        spans = [(day0 + 23 * HOUR + 30 * MINUTE, day0 + DAY + 30 * MINUTE),          # wraps past midnight
                 (day0 + DAY + 40 * MINUTE, day0 + DAY + 60 * MINUTE),                # the close later file
                 (day0 + 20 * HOUR, day0 + 21 * HOUR)]
        files, names = [], set()
        for t0, t1 in spans:
            name = own_render(tree["tokens"], of_us(t0), of_us(t1), None)
            if name not in names:
                names.add(name)
                files.append({"name": name, "t0": t0, "t1": t1, "sat": None})
        tree["files"], tree["vanished"], tree["ends"] = files, [], True
        tree["queries"] = [{"label": "partial-end-" + lab, "t": t, "filters": None, "xnames": [], "xtimes": [], "as_str": False}
                           for lab, t in (("wrapped", day0 + DAY + 10 * MINUTE), ("wrapped-end", day0 + DAY + 30 * MINUTE),
                                          ("before-midnight", day0 + 23 * HOUR + 50 * MINUTE), ("gap", day0 + DAY + 35 * MINUTE))]
        out.append(tree)
    return out


def unsorted_listing_trees(rng, k0):
    """Directed trees every run contains whatever the seed: the user placeholder is a directory level ABOVE the time fields, so
    the files are listed (find(sort=False)) in another order than their start times; the file that covers t is listed AFTER
    a later-starting short file whose start is nearer to t than both ends of the covering file."""
    out = []
    for j, kind in enumerate(["sat", "sat/Y/M"]):
        tree = gen_tree(rng, k0 + j, force={"kind": kind, "res": "hour", "ends": True, "sat": True})
        day0 = (tree["centre"] // DAY) * DAY
        spans = [(day0, day0 + 9 * HOUR, "x1"),                    # covers 00:00-09:00, listed last
                 (day0 + 6 * HOUR, day0 + 7 * HOUR, "metop"),      # listed first, starts after t
                 (day0 + 20 * HOUR, day0 + 21 * HOUR, "noaa")]
        files, names = [], set()
        for t0, t1, sat in spans:
            name = own_render(tree["tokens"], of_us(t0), of_us(t1), sat)
            if name not in names:
                names.add(name)
                files.append({"name": name, "t0": t0, "t1": t1, "sat": sat})
        tree["files"], tree["vanished"], tree["fixed_sat"] = files, [], None
        tree["queries"] = [{"label": "covering-listed-later", "t": day0 + h * HOUR, "filters": None, "xnames": [], "xtimes": [], "as_str": False}
                           for h in (4, 5, 3)]
        out.append(tree)
    return out


EDGE_TEMPLATES = [   # (layout, resolution of the names, a time B that starts a directory of the finest level)
    ("Y/M/D", "hour", (2018, 3, 2, 0, 0)), ("Y/M/D", "minute", (2020, 3, 1, 0, 0)), ("Y/M/D/H", "minute", (2019, 1, 1, 0, 0)),
    ("Y/J", "hour", (2019, 1, 1, 0, 0)), ("Y/M", "hour", (2018, 3, 1, 0, 0)), ("y/M", "hour", (2024, 3, 1, 0, 0)),
    ("Y", "day", (2018, 1, 1, 0, 0)), ("Y-M-D", "hour", (2017, 1, 1, 0, 0)), ("lit/Y/mM", "hour", (2018, 2, 1, 0, 0)),
]


def edge_trees(rng, k0):
    """Directed trees every run contains whatever the seed (C16 extension, window edge cases; offsets in units of the name
    resolution r from a directory boundary B; K = P / r):
      boundary   t exactly on the directory boundary, nearest file in the PREVIOUS directory; t on the last / first
                 instant of a file
      tie        two files equally far on both sides of the boundary (any of them is allowed; the model names the first
                 in walk order)
      neighbour  a file of the previous directory that covers t (files may outlast their directory)
      far        fixed-length levels: the only file lies two directories after / before the directory of t: absence;
                 month levels: the window is t -+ 31 days whatever the month, a file two month-directories later is
                 found from 31 Jan 23:00 and not from 28 Jan 23:00
      outlasting a file two directories before t that ends exactly at t - P (find's look-back beyond the window)
      edges      a file ending exactly at t - P is found, one unit earlier it is not; a file starting exactly at t + P
                 is not found, one unit earlier it is
    Every query carries the answer the rule gives (`expect`), checked against the model before the implementation is
    judged by the certified checker."""
    out = []
    for kind, res, bt in EDGE_TEMPLATES:
        base = gen_tree(rng, k0, force={"kind": kind, "res": res, "ends": True, "sat": False})
        r, P = RES[res], base["P"]
        K = P // r
        B = us_of(dt.datetime(*bt))
        scen = [
            ("boundary", [(-3, -1), (2, 3)], [(0, 0), (-1, 0), (2, 1), (-2, 0), (1, 1)]),
            ("tie", [(-3, -2), (2, 3)], [(0, 0), (-1, 0), (1, 1)]),
            ("neighbour", [(-2, 2), (3, 4)], [(0, 0), (1, 0), (2, 0), (3, 1), (-2, 0)]),
            ("edges", [(5, 7)], [(7 + K, 0), (7 + K + 1, None), (5 - K, None), (5 - K + 1, 0)]),
            # a file of the directory BEFORE the one t - P falls into that outlasts its directory and ends exactly at t - P
            ("outlasting", [(-K - 2, -K + 1)], [(1, 0), (2, None), (0, 0), (-K, 0)]),
        ]
        if P in (DAY, HOUR):
            scen += [("far-after", [(2 * K + 1, 2 * K + 2)], [(1, None), (0, None), (K - 1, None), (K + 2, 0)]),
                     ("far-before", [(-2 * K - 2, -2 * K - 1)], [(0, None), (K - 1, None), (-K - 1, 0), (-K, None)])]
        if P == 31 * DAY and bt[1] == 3 and r == HOUR:
            feb = (B - us_of(dt.datetime(bt[0], 2, 1))) // r               # hours of February
            scen += [("far-month", [(0, 1)], [(-feb - 1, 0), (-feb - 3 * 24 - 1, None), (-K, None), (-K + 1, 0)])]
        for name, spans, asks in scen:
            tree = dict(base)
            tree["id"] = k0 + len(out)
            files, names = [], set()
            for a, b in spans:
                t0, t1 = B + a * r, B + b * r
                n = own_render(tree["tokens"], of_us(t0), of_us(t1), None)
                names.add(n)
                files.append({"name": n, "t0": t0, "t1": t1, "sat": None})
            if len(names) != len(files):
                continue
            tree["files"], tree["vanished"], tree["centre"] = files, [], B
            tree["queries"] = [{"label": "edge-" + name, "t": B + off * r, "filters": None, "xnames": [], "xtimes": [],
                                "as_str": False, "expect": "NONE" if want is None else files[want]["name"]}
                               for off, want in asks]
            out.append(tree)
    return out


RECOVER_STEPS = [   # (coverage A the object is constructed with, coverage B assigned afterwards), in hours; None = discrete
    (None, 6), (6, 2), (6, None), (2, 6), (24, 6), (2, None),
]


def recover_trees(rng, k0):
    """Directed trees every run contains whatever the seed (re-configured time coverage, seeded change C16-k): templates
    WITHOUT end fields, files that start at 00:00, 08:00 and 16:00 of one day; ONE FileSet object is constructed with the
    coverage A, looks at its files and is then told `fileset.time_coverage = B` (make_fileset).  The timestamps are those
    whose covering / nearest file differs between A and B (e.g. B = 6 h: 05:30 lies inside the 00:00 file, with discrete
    files the 08:00 file is nearer); the expected file is the one of a fresh object constructed with B, which is what
    the model is evaluated with (`expect`, compared with the model first)."""
    out = []
    for kind in ("flat", "Y/M/D", "Y/M", "Y/J"):
        base = gen_tree(rng, k0, force={"kind": kind, "res": "minute", "ends": False, "sat": False})
        day = us_of(dt.datetime(2018, 1, 1)) if kind != "Y/J" else us_of(dt.datetime(2020, 2, 29))
        for a, b in RECOVER_STEPS:
            tree = dict(base)
            tree["id"] = k0 + len(out)
            cov = 0 if b is None else b * HOUR
            files = []
            for h in (0, 8, 16):
                t0 = day + h * HOUR
                files.append({"name": own_render(tree["tokens"], of_us(t0), of_us(t0 + cov), None), "t0": t0,
                              "t1": t0 + cov, "sat": None})
            if len({f["name"] for f in files}) != 3:
                continue

            def rule(t):
                covering = [i for i, f in enumerate(files) if f["t0"] <= t <= f["t1"]]
                if covering:
                    return covering
                d = [min(abs(f["t0"] - t), abs(f["t1"] - t)) for f in files]
                return [i for i, x in enumerate(d) if x == min(d)]
            tree["files"], tree["vanished"], tree["centre"] = files, [], day + 8 * HOUR
            tree["coverage"] = None if b is None else b * HOUR
            tree["recover"] = {"from": None if a is None else a * HOUR}
            qs = []
            for m in (90, 210, 330, 360, 450, 480, 690, 810, 840, 1020, 1410):      # minutes after midnight
                t = day + m * MINUTE
                allowed = rule(t)
                q = {"label": "recover-directed", "t": t, "filters": None, "xnames": [], "xtimes": [], "as_str": False}
                if len(allowed) == 1:
                    q["expect"] = files[allowed[0]]["name"]
                qs.append(q)
            tree["queries"] = qs
            out.append(tree)
    return out


def add_recover_histories(rng, trees):
    """a share of the random trees WITHOUT end fields gets a re-configuration history: the object is constructed with
    another coverage A (None, or a multiple of the resolution of the names) and told the tree's coverage afterwards.  The
    choice is drawn from a stream of its own: trees and queries are exactly what they were."""
    n = 0
    for tree in trees:
        if tree["ends"] or tree.get("recover") or not tree["files"]:
            continue
        if rng.random() < 0.5:
            r = RES[tree["res"]]
            pool = [a for a in (None, None, r, 2 * r, 6 * r, 24 * r, 30 * r, tree["P"]) if a != tree["coverage"]
                    and (a is None or a <= 400 * DAY)]
            tree["recover"] = {"from": rng.choice(pool)}
            n += 1
    return n


FILTER_SETS = [
    {"sat": "noaa"}, {"!sat": "metop"}, {"!ver": "v1"},
    {"sat": "noaa", "!ver": "v1"}, {"!ver": "v1", "sat": "metop"},                   # a white list with a black list
    {"!sat": "metop", "!ver": "v1"}, {"!ver": "v1", "!sat": "metop"},                # two black lists, both orders
    {"!sat": ["metop", "x1"], "!ver": ["v1", "v3"]}, {"!ver": ["v1", "v3"], "!sat": ["metop", "x1"]},
    {"!sat": "noaa", "!ver": "v2"}, {"!ver": "v2", "!sat": "noaa"},
    {"sat": ["noaa", "x1"], "ver": ["v2", "v3"]},                                    # two white lists
    {"sat": ["noaa", "metop"], "!sat": "metop", "!ver": "v3"}, {"!ver": "v3", "!sat": "metop", "sat": ["noaa", "metop"]},
    {"!sat": SATS, "!ver": "v1"}, {"!ver": "v1", "!sat": SATS},                      # nothing passes
]
FILTER_POP = [   # (sat, ver, first hour, last hour) on one day
    ("metop", "v2", 0, 3), ("noaa", "v2", 4, 5), ("noaa", "v1", 6, 9), ("metop", "v1", 10, 11),
    ("x1", "v3", 12, 14), ("noaa", "v3", 15, 16), ("metop", "v2", 17, 19), ("noaa", "v2", 20, 21),
]


def filter_trees(rng, k0):
    """Directed trees every run contains whatever the seed (second user placeholder): eight files of four platforms and
    three versions on one day, under four templates (both placeholders in the file name; {sat} as a directory level above
    daily directories and {ver} in the name; both as directory levels; month directories), asked at covered instants and
    in gaps with every entry of FILTER_SETS.  Each query carries the number of files the filters admit by the plain
    reading of the dict (a file passes when EVERY entry admits it), compared with the candidates Coq counts."""
    out = []
    day = us_of(dt.datetime(2018, 1, 1))
    stamps = [1 * HOUR, 7 * HOUR, 10 * HOUR + 30 * MINUTE, 13 * HOUR, 16 * HOUR + 30 * MINUTE, 22 * HOUR]
    for j, kind in enumerate(["flat", "sat/Y/M/D", "sat/ver", "Y/M"]):
        tree = gen_tree(rng, k0 + j, force={"kind": kind, "res": "minute", "ends": True}, two=True)
        tree["fixed_sat"] = None
        files, names = [], set()
        for sat, ver, h0, h1 in FILTER_POP:
            t0, t1 = day + h0 * HOUR, day + h1 * HOUR
            n = own_render(tree["tokens"], of_us(t0), of_us(t1), sat, ver)
            names.add(n)
            files.append({"name": n, "t0": t0, "t1": t1, "sat": sat, "ver": ver})
        if len(names) != len(files):
            continue
        tree["files"], tree["vanished"], tree["centre"] = files, [], day

        def admits(f, flt):
            for key, v in flt.items():
                vs = v if isinstance(v, list) else [v]
                if (f[key.lstrip("!")] in vs) == key.startswith("!"):
                    return False
            return True
        tree["queries"] = [{"label": "filters-directed", "t": day + stamps[(i + s_) % len(stamps)], "filters": dict(flt),
                            "xnames": [], "xtimes": [], "as_str": False,
                            "expect_ncand": sum(1 for f in files if admits(f, flt))}
                           for i, flt in enumerate(FILTER_SETS) for s_ in range(3)]
        out.append(tree)
    return out


def gen_filters2(rng, tree):
    """filters over the two user placeholders of a two-placeholder tree: several entries in one dict -- two '!' keys in
    both orders, a '!' key with a white-list key, lists of values, the same placeholder white- and black-listed.  The
    candidates of the specification are the files passing ALL entries (all_filters_apply)."""
    if rng.random() < 0.2:
        return None
    present = {n: sorted({f[n] for f in tree["files"] if f.get(n)}) or POOL[n] for n in ("sat", "ver")}

    def vals(name):
        v = rng.sample(POOL[name], rng.choice([1, 1, 2]))
        if rng.random() < 0.65:
            v[0] = rng.choice(present[name])
        v = sorted(set(v), key=v.index)
        return v if len(v) > 1 or rng.random() < 0.5 else v[0]
    st = rng.random()
    if st < 0.34:
        keys = ["!sat", "!ver"]                                  # two black lists
    elif st < 0.54:
        keys = rng.choice([["sat", "!ver"], ["!sat", "ver"]])    # a white list with a black list
    elif st < 0.62:
        keys = ["sat", "ver"]
    elif st < 0.74:
        keys = rng.choice([["sat", "!sat", "!ver"], ["ver", "!ver", "!sat"], ["sat", "!sat", "ver", "!ver"]])
    elif st < 0.9:
        keys = [rng.choice(["sat", "!sat", "ver", "!ver"])]
    else:
        keys = rng.sample(["sat", "!sat", "ver", "!ver"], rng.choice([0, 2, 3]))
    rng.shuffle(keys)                                            # the order of the entries of the dict
    return {k: vals(k.lstrip("!")) for k in keys}


def filter_shape(flt):
    if flt is None:
        return "no-filters"
    nb = sum(1 for k in flt if k.startswith("!"))
    nw = len(flt) - nb
    return f"{nw}-white-{nb}-black"


def gen_filters(rng, tree):
    if tree.get("has_ver"):
        return gen_filters2(rng, tree)
    if not tree["has_sat"] or rng.random() < 0.5:
        return None
    present = sorted({f["sat"] for f in tree["files"]}) or SATS
    f = {}
    st = rng.random()

    def vals():
        v = rng.sample(SATS, rng.choice([1, 1, 2]))
        if rng.random() < 0.5:
            v[0] = rng.choice(present)
        return v if len(v) > 1 or rng.random() < 0.5 else v[0]
    if st < 0.45:
        f["sat"] = vals()
    elif st < 0.85:
        f["!sat"] = vals()
    elif st < 0.95:
        f["sat"] = vals()
        f["!sat"] = vals()
    return f                                                     # {} = filters given but empty


def gen_exclusion(rng, tree, t, exact):
    files = tree["files"]
    r = RES[tree["res"]]
    xn, xt = [], []
    if exact is not None and rng.random() < 0.5:
        if rng.random() < 0.6:
            xn.append(exact["name"])
        else:
            xt.append(rng.choice([(exact["t0"], exact["t1"]), (exact["t1"], exact["t1"] + r),
                                  (exact["t0"] - 5 * r, exact["t0"]), (t, t)]))
    if files and rng.random() < 0.3:
        xn += [f["name"] for f in rng.sample(files, rng.choice([1, 1, 2]) if len(files) > 1 else 1)]
    if rng.random() < 0.05:
        xn.append(ROOT + "/no_such_file.dat")
    if files and rng.random() < 0.3:
        for _ in range(rng.choice([1, 1, 2, 3])):
            g = rng.choice(files)
            xt.append(rng.choice([(g["t0"], g["t1"]), (g["t1"], g["t1"] + 3 * r), (g["t1"] + r, g["t1"] + 2 * r),
                                  (g["t0"] - 2 * r, g["t0"] - r), (g["t0"] - r, g["t0"]), (t - r, t + r),
                                  (g["t0"] + r, g["t0"] + r)]))
    xt = [(a, b) for a, b in xt if a <= b]
    return sorted(set(xn)), sorted(set(xt))


def gen_queries(rng, tree, K):
    files, r, tc = tree["files"], RES[tree["res"]], tree["centre"]
    ts = [("centre", tc)]
    if files:
        exactable = [f for f in files if not tree["ends"] or f["t0"] == f["t1"]]
        g = rng.choice(exactable if exactable and rng.random() < 0.7 else files)
        ts.append(("start", g["t0"]))
        g = rng.choice(files)
        ts.append(rng.choice([("end", g["t1"]), ("end+1", g["t1"] + r), ("start-1", g["t0"] - r)]))
        srt = sorted(files, key=lambda f: (f["t0"], f["t1"]))
        gaps = []
        hi = srt[0]["t1"]
        for f in srt[1:]:
            if f["t0"] > hi and ((f["t0"] - hi) // r) % 2 == 0:
                gaps.append(hi + (f["t0"] - hi) // 2)
            hi = max(hi, f["t1"])
        if gaps:
            ts.append(("tie", rng.choice(gaps)))
        lo, hi = min(f["t0"] for f in files), max(f["t1"] for f in files)
        ts.append(rng.choice([("before", lo - rng.choice([1, 2, K - 1, K, K + 1, 3 * K]) * r),
                              ("after", hi + rng.choice([1, 2, K - 1, K, K + 1, 3 * K]) * r)]))
        ts.append(("random", lo // r * r + rng.randint(0, max(1, (hi - lo) // r)) * r))
    else:
        ts.append(("empty", tc + rng.randint(-3, 3) * r))
    if rng.random() < 0.25:                      # outside the hypothesis: finer than the resolution of the names
        base = rng.choice(ts)[1]
        ts.append(("subres", base + rng.choice([1, 500000, r // 2, r - 1])))
    qs = []
    for label, t in ts:
        exact = next((f for f in files if f["t0"] == t), None)
        xn, xt = gen_exclusion(rng, tree, t, exact)
        qs.append({"label": label, "t": t, "filters": gen_filters(rng, tree), "xnames": xn, "xtimes": xt,
                   "as_str": rng.random() < 0.15 and t % SECOND == 0})
    return qs


# ----------------------------------------------------------------------------- the implementation

class _Stub:
    """a file handler whose read() returns the path it was asked to read"""

    def read(self, file_info, **kwargs):
        return file_info.path

    def get_info(self, file_info, **kwargs):
        return file_info


# what fileset[...] is indexed with (the dispatch of __getitem__: Model/C16_tree.getitem): a datetime, a subclass of
# datetime (pandas.Timestamp), a string, and tuples / lists (timestamp, filters) with filters None or a dict
FORMS_PLAIN = ["plain", "plain", "timestamp", "tuple-none", "list-none"]
FORMS_FILTERS = ["tuple", "list", "tuple", "timestamp-tuple"]
# Not in the rotation, on purpose: numpy.datetime64 and datetime.date.  find_closest converts them through to_datetime,
# fileset[...] falls off the end of __getitem__ for them and returns None; both docstrings promise "datetime object or
# string" only, so these types are outside the documented interface and outside the property (judged so by the
# maintainer of this verification; the observation is recorded in build/reports/C16_ext.md).


def item_form(tree, qi, flt):
    n = int(tree.get("id", 0)) + qi
    forms = FORMS_PLAIN if flt is None else FORMS_FILTERS
    return forms[n % len(forms)]


def make_item(form, targ, flt):
    if form.startswith("timestamp") and not isinstance(targ, str):
        import pandas as pd
        targ = pd.Timestamp(targ)                   # a datetime subclass (finding F-C16-2: TypeError in a gap, fixed)
    if form in ("plain", "timestamp"):
        return targ
    if form == "tuple-none":
        return (targ, None)
    if form == "list-none":
        return [targ, None]
    if form == "list":
        return [targ, flt]
    return (targ, flt)


def _canon(root, call):
    from typhon.files.fileset import NoFilesError
    try:
        v = call()
    except NoFilesError:
        return "NONE"
    except Exception as e:  # noqa
        return f"ERR:{type(e).__name__}: {str(e)[:120]}".replace(root, ROOT)
    if v is None:
        return "NONE"
    p = v if isinstance(v, str) else getattr(v, "path", None)
    if not isinstance(p, str):
        return f"ERR:unexpected return value {type(v).__name__}"
    return ROOT + p[len(root):] if p.startswith(root) else p


def build_tree(root, tree):
    for f in tree["files"]:
        p = Path(root + f["name"][len(ROOT):])
        p.parent.mkdir(parents=True, exist_ok=True)
        p.touch()


def coverage_value(us, n=0):
    """a relative time coverage as the user writes it: None, a timedelta or (every other time, whole seconds) a string"""
    if us is None:
        return None
    if n % 2 and us % SECOND == 0:
        return f"{us // SECOND} seconds"
    return dt.timedelta(microseconds=us)


def make_fileset(root, tree, q, n=0):
    """The FileSet object a query is put to.  When the tree carries a re-configuration history (tree["recover"] =
    {"from": A}), the object is constructed with the time coverage A, looks at its files (find() over everything,
    find_closest at the timestamp and at the centre of the tree, fileset[t]) and is THEN told the coverage of the tree by
    an assignment `fileset.time_coverage = B`: the answers must be those of an object constructed with B (the coverages
    the checker judges with)."""
    from typhon.files import FileSet
    kw = {"name": "c16", "handler": _Stub()}
    if tree["fixed_sat"]:
        kw["placeholder"] = {"sat": tree["fixed_sat"]}
    hist = tree.get("recover") if not tree["ends"] else None
    first = hist["from"] if hist else tree["coverage"]
    if first is not None:
        kw["time_coverage"] = coverage_value(first, n + 1) if hist else dt.timedelta(microseconds=first)
    exclude = [root + n_[len(ROOT):] for n_ in q["xnames"]] + [(of_us(a), of_us(b)) for a, b in q["xtimes"]]
    if exclude:
        kw["exclude"] = exclude
    fs = FileSet(root + template_string(tree["tokens"])[len(ROOT):], **kw)
    if hist:
        t = of_us(q["t"])
        for call in (lambda: list(fs.find(no_files_error=False)), lambda: fs.find_closest(t),
                     lambda: fs.find_closest(of_us(tree["centre"])), lambda: fs[t]):
            try:
                call()
            except Exception:  # noqa
                pass
        fs.time_coverage = coverage_value(tree["coverage"], n)
        STATS["time_coverage_reassigned_objects"] += 1
    return fs


STATS = {"time_coverage_reassigned_objects": 0, "decoy_filesets": 0}
DECOY_REGEX = [None, r"metop\w", "literal"]


def make_decoys(droot, tree, n):
    """Other FileSet objects of the same process that use the SAME user-placeholder names with OTHER regular expressions
    (a narrower literal, metop\\w, the default) on another directory, created AFTER the object under test and kept alive by
    the caller during the query: the answers of the object under test must not depend on them (seeded change C16-l: a
    class-level placeholder dict)."""
    from typhon.files import FileSet
    names = [x for x in ("sat", "ver") if tree.get("has_" + x)]
    if not names:
        return []
    out = []
    for j in range(2):
        kind = DECOY_REGEX[(n + j + 1) % 3]                      # the last created: literal, default, metop\w, ...
        ph = {}
        if kind is not None:
            for x in names:
                ph[x] = POOL[x][(n + j) % len(POOL[x])] if kind == "literal" else (kind if x == "sat" else r"v[12]")
        path = droot + "/" + "_".join("{" + x + "}" for x in names) + "_{year}{month}{day}T{hour}{minute}.txt"
        out.append(FileSet(path, name=f"decoy{j}", placeholder=ph or None, handler=_Stub()))
        STATS["decoy_filesets"] += 1
    return out


def run_impl(tree):
    """-> per query: {"find_closest": canon, "getitem": canon}, plus the coverages get_info parses"""
    root = tempfile.mkdtemp(prefix="verif_c16_")
    droot = tempfile.mkdtemp(prefix="verif_c16d_")                # the directory of the decoy FileSet objects
    try:
        build_tree(root, tree)
        out, parsed = [], None
        for q in tree["queries"]:
            nq = int(tree.get("id", 0)) + len(out)
            try:
                fs = make_fileset(root, tree, q, nq)
            except Exception as e:  # noqa
                out.append({"find_closest": f"ERR:init {type(e).__name__}: {str(e)[:100]}", "getitem": None})
                continue
            if parsed is None:
                parsed = []
                for f in tree["files"]:
                    try:
                        info = fs.get_info(root + f["name"][len(ROOT):])
                        parsed.append([us_of(info.times[0]), us_of(info.times[1])])
                    except Exception as e:  # noqa
                        parsed.append(f"ERR:{type(e).__name__}")
                fs = make_fileset(root, tree, q, nq)          # fresh info cache
            t = of_us(q["t"])
            targ = t.strftime("%Y-%m-%d %H:%M:%S") if q["as_str"] else t
            flt = q["filters"]
            gone = tree.get("vanished") or []
            if gone:
                # the object sees the directory with the files that will vanish, looks at every file and asks for each
                # vanishing file by its own time; then those files are removed and the query proper is put to the same object
                paths = [Path(root + v["name"][len(ROOT):]) for v in gone]
                for pth in paths:
                    pth.parent.mkdir(parents=True, exist_ok=True)
                    pth.touch()
                try:
                    list(fs.find(no_files_error=False))
                    for v in gone:
                        fs.find_closest(of_us(v["t0"]))
                except Exception:  # noqa
                    pass
                for pth in paths:
                    pth.unlink()
            fs2 = make_fileset(root, tree, q, nq + 1)
            # other FileSet objects with the same placeholder names and other regexes, created after the objects under
            # test and alive during the query
            try:
                decoys = make_decoys(droot, tree, nq)
            except Exception:  # noqa
                decoys = []
            if tree["has_sat"] and len(out) % 3 != 2:
                # history on the same object: the same question was asked before with ANOTHER value for the same filter
                # key (a fresh dict each time) -- the answer to the query proper must be the function of its own filters
                used = []
                for v in (flt or {}).values():
                    used += v if isinstance(v, list) else [v]
                for key in (list(flt) if flt else ["sat"]):
                    pool = POOL[key.lstrip("!")]
                    others = [x for x in pool if x not in used] or pool
                    for o, obj in enumerate((fs, fs2)):
                        try:
                            obj.find_closest(targ, filters={key: others[(len(out) + o) % len(others)]})
                        except Exception:  # noqa
                            pass
            a = _canon(root, lambda: fs.find_closest(targ, filters=flt))
            form = q.get("form") or item_form(tree, len(out), flt)
            b = _canon(root, lambda: fs2[make_item(form, targ, flt)])
            out.append({"find_closest": a, "getitem": b, "form": form})
            del decoys
        return out, parsed
    finally:
        shutil.rmtree(root, ignore_errors=True)
        shutil.rmtree(droot, ignore_errors=True)


# ----------------------------------------------------------------------------- Coq side

def coq_dict(flt):
    """the filters dict entry by entry IN THE ORDER OF THE DICT (Model/C16_tree.fdict): (true, k, vs) = the key "!k";
    the split into white and black lists is done inside Coq (split_dict), as FileSet.find does it"""
    items = []
    for k, v in flt.items():
        vs = list(v) if isinstance(v, (list, tuple)) else [v]
        items.append(f"({'true' if k.startswith('!') else 'false'}, {cs(k.lstrip('!'))}, {coq_list([cs(x) for x in vs])})")
    return coq_list(items)


def coq_query(q):
    xn = coq_list([cs(n) for n in q["xnames"]])
    xt = coq_list([f"({zlit(a)}, {zlit(b_)})" for a, b_ in q["xtimes"]])
    if q["filters"] is None:
        return f"(Query false [] [] {xn} {xt})"
    return f"(dict_query {coq_dict(q['filters'])} {xn} {xt})"


def coq_attrs(f):
    """the user placeholders of a file as the attribute map of Model/C16_closest.file"""
    return coq_list([f"({cs(n)}, {cs(f[n])})" for n in ("sat", "ver") if f.get(n) is not None])


def coq_zattrs(f):
    """... and in C01's vocabulary: placeholder number -> position of the value among the placeholder's values"""
    return coq_list([f"({PH_INDEX[n]}, {zlit(POOL[n].index(f[n]))})" for n in ("sat", "ver") if f.get(n) is not None])


def coq_files(tree):
    items = []
    for f in tree["files"]:
        items.append(f"File {cs(f['name'])} {zlit(f['t0'])} {zlit(f['t1'])} {coq_attrs(f)}")
    return coq_list(items)


def coq_zfilters(flt):
    """the dict in C01's vocabulary (Model/C16_tree.zentry; placeholder 0 = sat, 1 = ver, values = positions in SATS /
    VERS: the numbering pool_kc / pool_vc of pool_numbering_ok, compared once per run in check_numbering), in the order
    of the dict; split into white and black lists inside Coq (zsplit)"""
    items = []
    for k, v in (flt or {}).items():
        vs = list(v) if isinstance(v, (list, tuple)) else [v]
        name = k.lstrip("!")
        items.append(f"({'true' if k.startswith('!') else 'false'}, {PH_INDEX[name]}, "
                     f"{coq_list([zlit(POOL[name].index(x)) for x in vs])})")
    return f"(zsplit {coq_list(items)})"


def tree_side_expr(tree):
    """the same tree for the composed model (Model/C16_tree.v): the files in walk order as files of C01's model
    (identity = position in the harness's listing, directory time = start), the flat listing in the same order, and
    every query with its filters in C01's vocabulary and the identities of the files excluded by name"""
    files = tree["files"]
    order = walk_order(files)
    ffiles, flat = [], []
    for i in order:
        f = files[i]
        ffiles.append(f"F.mkfile {zlit(i)} {zlit(f['t0'])} {zlit(f['t1'])} {zlit(f['t0'])} {coq_zattrs(f)} false")
        flat.append(f"File {cs(f['name'])} {zlit(f['t0'])} {zlit(f['t1'])} {coq_attrs(f)}")
    qs = []
    for q in tree["queries"]:
        xs = [i for i, f in enumerate(files) if f["name"] in q["xnames"]]
        qs.append(f"({coq_query(q)}, {coq_zfilters(q['filters'])}, {zlist(xs)}, {zlit(q['t'])})")
    return (f"run_tree {coq_tokens(tree['tokens'], tree['fixed_sat'])} {coq_layout(own_layout(tree['kind']))} "
            f"{coq_list(ffiles)} {coq_list(flat)} {coq_list(qs)}")


def obs_index(tree, canon):
    """NONE -> -1; a path -> its index in the listing (len(files) when it is not a file of the fileset)"""
    if canon == "NONE":
        return -1
    for i, f in enumerate(tree["files"]):
        if f["name"] == canon:
            return i
    return len(tree["files"])


def tree_expr(tree, observed):
    """observed: list of (query index, mode, canon) -- only answers that are None or a path"""
    qs = coq_list([f"({coq_query(tree['queries'][qi])}, {zlit(tree['queries'][qi]['t'])}, {zlit(obs_index(tree, c))})"
                   for qi, _, c in observed])
    return (f"(run_case {coq_tokens(tree['tokens'], tree['fixed_sat'])} {coq_files(tree)} {qs}, "
            f"{tree_side_expr(tree)})")


# ----------------------------------------------------------------------------- check

def evaluate(ctx, trees, tag="cases"):
    """Run the implementation and the certified checker on every query of every tree.
    Returns a list of verdict records (one per observed answer)."""
    records, exprs, plans = [], [], []
    for tree in trees:
        impl, parsed = run_impl(tree)
        observed = []
        for qi, (q, o) in enumerate(zip(tree["queries"], impl)):
            a, b = o["find_closest"], o["getitem"]
            for mode, c in (("find_closest", a), ("getitem", b)):
                if c is None or (mode == "getitem" and c == a and not c.startswith("ERR:")):
                    continue                                     # fileset[t] agreed with find_closest: judged once
                observed.append((qi, mode, c))
        # errors are judged with the answer "a file outside the listing" replaced by a marker after evaluation
        exprs.append(tree_expr(tree, [(qi, m, c if not c.startswith("ERR:") else "NONE") for qi, m, c in observed]))
        plans.append((tree, observed, parsed, impl))
    vals, log = core.coq_eval(ctx.work / "cases", tag, PREAMBLE, exprs, shard=60)
    if log:
        ctx.log(log[-2000:])
    for (tree, observed, parsed, impl), v in zip(plans, vals):
        if v is None:
            records.append({"tree": tree, "coq": None})
            continue
        pz, rows, (thead, trows) = v
        order = walk_order(tree["files"])
        own_p = tree["P"] if tree["P"] is not None else -1
        times_ok = parsed is None or all(isinstance(p, list) and p == [f["t0"], f["t1"]]
                                         for p, f in zip(parsed, tree["files"]))
        for (qi, mode, c), row in zip(observed, rows):
            hyp, ok, algo, diag, model, model_ok, asis, exact, ncand, ncov, nacc = row
            records.append({"tree": tree, "qi": qi, "mode": mode, "impl": c, "hyp": bool(hyp), "ok": bool(ok),
                            "algo": bool(algo), "diag": diag, "model": model, "model_ok": bool(model_ok),
                            "asis": asis, "exact": exact, "ncand": ncand, "ncov": ncov, "nacc": nacc,
                            "period_ok": pz == own_p, "period": pz, "times_ok": times_ok, "parsed": parsed, "coq": True,
                            "form": impl[qi].get("form"), "thead": thead, "tq": trows[qi], "order": order})
    return records


def single_case(rec):
    """the self-contained case of one verdict record (one tree, one query)"""
    tree, q = rec["tree"], rec["tree"]["queries"][rec["qi"]]
    t = {k: tree[k] for k in ("kind", "res", "tokens", "fixed_sat", "coverage", "has_sat", "files", "centre", "P", "ends")}
    t["has_ver"] = tree.get("has_ver", False)
    t["template"] = template_string(tree["tokens"])
    t["vanished"] = tree.get("vanished", [])
    if tree.get("recover"):
        t["recover"] = tree["recover"]
    t["queries"] = [q]
    t["id"] = tree.get("id", 0) + rec["qi"]       # id + position of the query: the item form and the decoy variant of the run
    return {"tree": t, "mode": rec["mode"], "timestamp": str(of_us(q["t"]))}


def judge(ctx, rec, report=True):
    """-> (kind, signature, message) or None when the answer is accepted"""
    tree = rec["tree"]
    if rec.get("coq") is None:
        return ("correspondence", "coq-eval", "Coq evaluation of the case failed")
    q = tree["queries"][rec["qi"]]
    how = f"fileset[{rec.get('form')}]" if rec["mode"] == "getitem" else "find_closest"
    where = (f"{how}({of_us(q['t'])}, filters={q['filters']}) on {template_string(tree['tokens'])} with "
             f"{len(tree['files'])} files, exclude names {q['xnames']} periods {[(str(of_us(a)), str(of_us(b))) for a, b in q['xtimes']]}")
    if not rec["model_ok"] and rec["hyp"]:
        return ("proof", "model-vs-spec", "the model's own answer is rejected by the checker although the hypotheses "
                "hold (cannot happen while model_meets_spec stands): " + where)
    if not rec["period_ok"]:
        return ("correspondence", "period", f"the model's sub-directory period {rec['period']} differs from the "
                f"harness's own {tree['P']}: " + where)
    # ---- the composed model (Model/C16_tree.v): layout of the template, C01's walk, bridge to the flat model
    lay_eq, lay_fields, c01_hyps, lay_period = rec["thead"]
    if not (lay_eq and lay_fields and lay_period):
        return ("correspondence", "layout", f"the layout the model derives from the template (layout_of) differs from the "
                f"harness's own {own_layout(tree['kind'])}, or its placeholders / period do not match the template's "
                f"(equal {lay_eq}, fields {lay_fields}, period {lay_period}): " + where)
    win_ok, t_search, f_search, same_search, t_ncand, t_visited, t_agrees, same_closest, walk_choice = rec["tq"]
    if c01_hyps and win_ok and t_agrees and rec["hyp"]:
        if not (same_search and same_closest):
            return ("proof", "composed-vs-flat", f"the composed model (C01's directory walk, answer {t_search}) and the flat "
                    f"model (answer {f_search}) differ although the hypotheses of composed_is_flat_model hold: " + where)
        if t_ncand != rec["ncand"]:
            return ("proof", "candidates-vs-find", f"{t_ncand} candidates on the tree, {rec['ncand']} in the listing although "
                    f"the hypotheses of composed_is_flat_model hold: " + where)
    exp = q.get("expect")
    if exp is not None:
        chosen = "NONE" if walk_choice < 0 else tree["files"][rec["order"][walk_choice]]["name"]
        if chosen != exp:
            return ("correspondence", "directed-expectation", f"a directed case expects {exp}, the model answers {chosen}: "
                    + where)
    if q.get("expect_ncand") is not None and rec["ncand"] != q["expect_ncand"]:
        return ("correspondence", "directed-expectation", f"a directed case expects {q['expect_ncand']} files to pass "
                f"every entry of the filters, the model counts {rec['ncand']} candidates: " + where)
    # the coverages the checker judges with are the ones the names spell out under the template (what C02's round-trip
    # theorems prescribe for the three end spellings generated here); when get_info parses OTHER coverages and the answer is
    # wrong for the spelled-out ones, the timestamp is a failing input of this property all the same (the remark says so)
    in_hyp = rec["hyp"]
    if not rec["times_ok"]:
        where += f"; NOTE get_info parses coverages {rec['parsed']} that differ from the ones the names spell out"
    if rec["impl"].startswith("ERR:"):
        return ("failing-input" if in_hyp else "correspondence", "closest-error",
                f"{rec['impl']} instead of a file or NoFilesError/None: " + where)
    if not rec["algo"]:
        why = DIAG.get(rec["diag"], str(rec["diag"]))
        exp = "NoFilesError/None" if rec["model"] < 0 else tree["files"][rec["model"]]["name"]
        return ("failing-input" if in_hyp else "correspondence", "closest-" + why,
                f"returned {rec['impl']} ({why}); the rule allows {rec['nacc']} file(s), e.g. {exp}: " + where)
    if not rec["times_ok"]:
        return ("correspondence", "coverage-parse", f"get_info parses coverages {rec['parsed']} that differ from the "
                f"ones the harness wrote into the names: " + where)
    return None


def shrink(ctx, rec, sig):
    """remove files (and exclusions) while the same signature persists"""
    case = single_case(rec)
    tree = case["tree"]
    for _ in range(14):
        variants = []
        files, q = tree["files"], tree["queries"][0]
        for j in range(len(files)):
            if files[j]["name"] in q["xnames"]:
                continue                                           # keep the excluded files
            v = dict(tree)
            v["files"] = files[:j] + files[j + 1:]
            variants.append(v)
        for j in range(len(q["xtimes"])):
            v = dict(tree)
            v["queries"] = [dict(q, xtimes=q["xtimes"][:j] + q["xtimes"][j + 1:])]
            variants.append(v)
        for j in range(len(q["xnames"])):
            v = dict(tree)
            v["queries"] = [dict(q, xnames=q["xnames"][:j] + q["xnames"][j + 1:])]
            variants.append(v)
        if not variants:
            break
        recs = evaluate(ctx, variants, tag="shrink")
        nxt = None
        for r in recs:
            if r.get("coq") and r["mode"] == rec["mode"]:
                j = judge(ctx, r)
                if j and j[1] == sig and j[0] == "failing-input":
                    nxt = r
                    break
        if nxt is None:
            break
        rec = nxt
        tree = single_case(rec)["tree"]
    return rec


def gen_single(rng, k):
    return {"id": k, "exists": rng.random() < 0.8, "t": gen_centre(rng, "second"),
            "filters": rng.choice([None, None, {"sat": "noaa"}, {"!sat": "x1"}]),
            "coverage": rng.choice([None, None, "period"])}


def run_single(case):
    from typhon.files import FileSet
    root = tempfile.mkdtemp(prefix="verif_c16_")
    try:
        p = root + "/single.dat"
        if case["exists"]:
            Path(p).touch()
        kw = {"name": "c16s", "handler": _Stub()}
        if case["coverage"]:
            kw["time_coverage"] = (of_us(case["t"]) + dt.timedelta(days=400), of_us(case["t"]) + dt.timedelta(days=500))
        t = of_us(case["t"])
        flt = case["filters"]
        a = _canon(root, lambda: FileSet(p, **kw).find_closest(t, filters=flt))
        b = _canon(root, (lambda: FileSet(p, **kw)[t]) if flt is None else (lambda: FileSet(p, **kw)[t, flt]))
        return a, b
    finally:
        shutil.rmtree(root, ignore_errors=True)


def check_single(ctx, cases):
    vals, log = core.coq_eval(ctx.work / "cases", "single", PREAMBLE,
                              [f"single_model {'true' if c['exists'] else 'false'} {zlit(c['t'])} (Query false [] [] [] [])"
                               for c in cases])
    for c, v in zip(cases, vals):
        ctx.cov["evaluations"] += 1
        a, b = run_single(c)
        want = ROOT + "/single.dat" if v == "SPath" else "ERR:ValueError"
        for mode, o in (("find_closest", a), ("getitem", b)):
            good = o == want if v == "SPath" else o.startswith(want)
            if not good:
                ctx.fail("failing-input", f"single-file fileset: {mode} answered {o}, expected {want} "
                         f"(file exists: {c['exists']}, t = {of_us(c['t'])}, filters {c['filters']}, "
                         f"time_coverage far from t: {bool(c['coverage'])})",
                         case={"single": c, "mode": mode}, impl=o, model=want, signature="single-file")


def check_numbering(ctx):
    """the harness numbers the user placeholders and their values by position (PH_INDEX, POOL): this is pool_kc / pool_vc
    of Model/C16_tree.v, and the pools are prefix-free (pools_ok): the hypotheses of encoded_filters_agree /
    dict_composed_is_flat hold for it (pool_numbering_ok)"""
    names = sorted(PH_INDEX, key=PH_INDEX.get)
    ps = coq_list([f"({cs(n)}, {coq_list([cs(v) for v in POOL[n]])})" for n in names])
    exprs = [f"(pools_ok {ps}, map (pool_kc {ps}) {coq_list([cs(n) for n in names])}, "
             + coq_list([f"map (pool_vc {ps} {cs(n)}) {coq_list([cs(v) for v in POOL[n]])}" for n in names]) + ")"]
    vals, log = core.coq_eval(ctx.work / "cases", "numbering", PREAMBLE, exprs)
    want = (True, [PH_INDEX[n] for n in names], [list(range(len(POOL[n]))) for n in names])
    ctx.cov["evaluations"] += 1
    got = vals[0]
    if got is None or (got[0], list(got[1]), [list(x) for x in got[2]]) != want:
        ctx.fail("correspondence", f"the harness's numbering of user placeholders / values {want} is not the numbering "
                 f"pool_kc / pool_vc of the model or the pools are not prefix-free: Coq says {got}", signature="numbering")


def run(ctx):
    ctx.prove("Props/C16.v")
    nt = ctx.n(110, 2200)
    trees = [gen_tree(ctx.rng, k) for k in range(nt)]
    import random as _random
    drng = _random.Random(f"C16-directed:{ctx.seed}")              # its own stream: the general stream stays as it was
    for j in range(ctx.n(4, 24)):
        t = nested_tree(drng, nt + j)
        if t is not None:
            trees.append(t)
    trees += edge_trees(drng, nt + 100)
    trees += partial_end_trees(drng, nt + 300)
    trees += unsorted_listing_trees(drng, nt + 320)
    # the second user placeholder: trees with {sat} AND {ver}, filters over both (a stream of its own, generated after
    # everything else: the older families are exactly what they were), and the directed filter trees
    vrng = _random.Random(f"C16-two-placeholders:{ctx.seed}")
    n2 = ctx.n(36, 500)
    trees += [gen_tree(vrng, nt + 400 + j, two=True) for j in range(n2)]
    trees += filter_trees(drng, nt + 380)
    # re-configured time coverage on one object (seeded change C16-k): directed trees and a share of the random ones
    trees += recover_trees(drng, nt + 1000)
    n_recover = add_recover_histories(_random.Random(f"C16-recover:{ctx.seed}"), trees)
    singles = [gen_single(ctx.rng, k) for k in range(ctx.n(12, 120))]
    records = evaluate(ctx, trees)
    nontrivial, first, classes, seen_sig = set(), {}, {}, {}
    labels = {}
    comp = {"queries": 0, "inside_the_hypotheses_of_composed_is_flat_model": 0, "directory_walk_pruned_some_file": 0,
            "outside_C01_hypotheses": 0, "window_leaves_datetime": 0}
    choice = {"implementation_is_the_models_choice": 0, "another_allowed_file": 0, "several_allowed": 0}
    forms, seen_q = {}, set()
    shapes = {}
    for t in trees:
        if t.get("has_ver"):
            for q in t["queries"]:
                shapes[filter_shape(q["filters"])] = shapes.get(filter_shape(q["filters"]), 0) + 1
    for rec in records:
        ctx.cov["evaluations"] += 1
        j = judge(ctx, rec)
        if rec.get("coq"):
            tree, q = rec["tree"], rec["tree"]["queries"][rec["qi"]]
            if (id(tree), rec["qi"]) not in seen_q:
                seen_q.add((id(tree), rec["qi"]))
                win_ok, _, _, _, t_ncand, t_visited, t_agrees, _, walk_choice = rec["tq"]
                comp["queries"] += 1
                if not rec["thead"][2]:
                    comp["outside_C01_hypotheses"] += 1
                elif not win_ok:
                    comp["window_leaves_datetime"] += 1
                elif t_agrees and rec["hyp"]:
                    comp["inside_the_hypotheses_of_composed_is_flat_model"] += 1
                    if t_visited < len(tree["files"]):
                        comp["directory_walk_pruned_some_file"] += 1
            if rec["mode"] == "getitem" or rec.get("form"):
                forms[rec.get("form")] = forms.get(rec.get("form"), 0) + 1
            if j is None and rec["hyp"] and not rec["impl"].startswith("ERR:"):
                # (3) any allowed file passes; WHICH one the code returns is the first in find order (search_first_in_order):
                # the agreement of the implementation's choice with the model's is measured, a difference is not a failure
                walk_choice = rec["tq"][8]
                mine = -1 if walk_choice < 0 else rec["order"][walk_choice]
                if rec["nacc"] > 1:
                    choice["several_allowed"] += 1
                choice["implementation_is_the_models_choice" if mine == obs_index(tree, rec["impl"])
                       else "another_allowed_file"] += 1
            labels[q["label"]] = labels.get(q["label"], 0) + 1
            n = len(tree["files"])
            cls = ("out-of-hypothesis" if not rec["hyp"] else
                   "absent" if rec["ncand"] == 0 else
                   "short-cut" if rec["exact"] >= 0 and rec["model"] == rec["exact"] else
                   "short-cut-blocked" if rec["exact"] >= 0 else
                   "covering" if rec["ncov"] > 0 else
                   "tie" if rec["nacc"] > 1 else "nearest")
            classes[cls] = classes.get(cls, 0) + 1
            if rec["hyp"] and n >= 1 and (rec["nacc"] < n):
                nontrivial.add(repr((template_string(tree["tokens"]), sorted((f["name"], f["t0"], f["t1"]) for f in tree["files"]),
                                     q["t"], q["filters"], q["xnames"], q["xtimes"])))
            if rec["qi"] == 0 and tree["id"] % 9 == 0:
                ctx.sample({"template": template_string(tree["tokens"]), "period_us": tree["P"],
                            "files": [(f["name"], str(of_us(f["t0"])), str(of_us(f["t1"]))) for f in tree["files"][:6]],
                            "t": str(of_us(q["t"])), "filters": q["filters"], "exclude": [q["xnames"], q["xtimes"]],
                            "implementation": rec["impl"], "accepted_indices": rec["nacc"], "class": cls})
        if j is None:
            continue
        kind, sig, msg = j
        if kind == "failing-input" and sig not in seen_sig:
            seen_sig[sig] = True
            rec = shrink(ctx, rec, sig)
            j2 = judge(ctx, rec)
            if j2 and j2[1] == sig:
                kind, sig, msg = j2
        ctx.fail(kind, msg, case=single_case(rec) if rec.get("coq") else {"tree": rec["tree"].get("id")},
                 impl=rec.get("impl"), model=(None if not rec.get("coq") else
                                              {"model_answer_index": rec["model"], "accepted_indices": rec["nacc"],
                                               "candidates": rec["ncand"], "covering": rec["ncov"],
                                               "hypotheses_hold": rec["hyp"]}), signature=sig)
    check_single(ctx, singles)
    check_numbering(ctx)
    ctx.cov["distinct_nontrivial"] = len(nontrivial)
    ctx.cov["rule"] = ("one evaluation = one answer of find_closest / fileset[t] / fileset[t, filters] on a harness-built "
                       "tree, judged by the certified checker; non-trivial = the hypotheses hold, the fileset has files and "
                       "the checker would reject at least one of them (or any file at all, when absence must be reported); "
                       "distinct by (template, population, timestamp, filters, exclusions)")
    ctx.cov["input_distribution"] = {
        "trees": len(trees), "general_trees": nt, "queries": sum(len(t["queries"]) for t in trees), "single_file_cases": len(singles),
        "layouts": {k: sum(1 for t in trees if t["kind"] == k) for k in sorted(DIRS)},
        "name_resolution": {k: sum(1 for t in trees if t["res"] == k) for k in RES},
        "with_end_fields": sum(1 for t in trees if t["ends"]), "with_time_coverage": sum(1 for t in trees if t["coverage"]),
        "with_user_placeholder": sum(1 for t in trees if t["has_sat"]),
        "with_two_user_placeholders": sum(1 for t in trees if t.get("has_ver")),
        "filter_shapes_on_two_placeholder_trees": shapes,
        "literal_user_placeholder": sum(1 for t in trees if t["fixed_sat"]),
        "empty_filesets": sum(1 for t in trees if not t["files"]),
        "query_kinds": labels, "decision_classes": classes,
        "composition_with_C01": comp, "choice_among_allowed_files": choice, "item_forms_of_getitem": forms,
        "directed_edge_trees": sum(1 for t in trees for q in t["queries"][:1] if q["label"].startswith("edge-")),
        "with_filters": sum(1 for t in trees for q in t["queries"] if q["filters"] is not None),
        "with_exclusions": sum(1 for t in trees for q in t["queries"] if q["xnames"] or q["xtimes"]),
        "time_coverage_reassigned_on_one_object": {
            "directed_trees": sum(1 for t in trees if t["queries"][:1] and t["queries"][0]["label"] == "recover-directed"),
            "random_trees_with_a_history": n_recover,
            "steps": {f"{'None' if a is None else 'timedelta'}->{'None' if b is None else 'timedelta'}":
                      sum(1 for t in trees if t.get("recover") and (t["recover"]["from"] is None) == (a is None)
                          and (t["coverage"] is None) == (b is None))
                      for a, b in ((None, 1), (1, None), (1, 1))},
            "objects_reassigned": STATS["time_coverage_reassigned_objects"]},
        "decoy_filesets_alive_during_queries": STATS["decoy_filesets"],
    }
    ctx.assumptions += [
        "coverages well formed and inside datetime; a file named by get_filename(t) covers t (t at the resolution of the "
        "file names): hypotheses of model_meets_spec / accepted_iff_spec, evaluated in Coq per case (hyps_decided)",
        "populations are well placed (every file in the directory of its start) with durations <= one directory period, "
        "so that FileSet.find is its brute-force specification (C01)",
        "white-list values are delimited by literals of the template; black-list values are literal prefixes; the values "
        "of one user placeholder are prefix-free (pools_ok, evaluated in Coq per run)",
    ]
    return ctx.finish(trusted_base=TRUSTED)


def replay(ctx, rec):
    case = rec["case"]
    if "single" in case:
        check_single(ctx, [case["single"]])
    else:
        tree = case["tree"]
        tree["tokens"] = [tuple(t) for t in tree["tokens"]]
        for q in tree["queries"]:
            q["xtimes"] = [tuple(x) for x in q["xtimes"]]
        for r in evaluate(ctx, [tree], tag="replay"):
            j = judge(ctx, r)
            if j and (r.get("mode") == case.get("mode") or not r.get("coq")):
                ctx.fail(j[0], j[2], signature=j[1])
    for f in ctx.failures:
        print("still fails:", f.what[:400])
    return 1 if ctx.failures else 0
