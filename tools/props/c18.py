"""C18 -- BMCI estimates are the importance-weighted statistics of its database.

Theorems: coq/theories/Props/C18.v (window soundness by Cauchy-Schwarz along the eigenvector, weighted
mean / std, order independence, pruning error bound, index-view bookkeeping, monotone cdf / quantiles,
NaN instead of an exception).

Tie to the code, on every run:
 * discrete bookkeeping (searchsorted window, x-sorted index view restricted and shifted to the window):
   the Coq model is evaluated by vm_compute on the integer RANKS of the doubles (theorem
   searchsorted_rank_invariant) and compared exactly with BMCI.weights / BMCI.cdf;
 * continuous outputs (weights, predict, cdf, predict_quantiles): compared with the direct evaluation of the
   weighted sums over the database in float128, with tolerances that follow the conditioning of the
   computation (rigorous weight enclosures [lo_i, hi_i] from cond(S), the size of S^-1 and |dy|^2);
 * the law of the property ("a non-negative x2_max only leaves out entries whose chi^2 exceeds x2_max",
   "estimates change by no more than those entries' share of the total weight") is evaluated on the
   implementation's own window.
"""
import math

import numpy as np

from lib import core
from lib.core import zlist, coq_list

PREAMBLE = "From Typhon Require Import Model.C18_bmci.\n"
TRUSTED = [
    "numpy.linalg.inv / numpy.linalg.eig (Section hypotheses of window_sound: S Sinv = I, S v = lam v, |v| = 1); "
    "each instance is checked numerically against them",
    "numpy.argsort / searchsorted / cumsum / interp / exp semantics (modelled by their contracts)",
    "float128 (x87 extended) evaluation of the weighted sums in tools/props/c18.py as the oracle of the real-valued model",
    "correspondence harness tools/props/c18.py (generators, rank transform of the doubles, tolerance formulas)",
]

LD = np.longdouble
EPS = float(np.finfo(np.float64).eps)
TINY = 5e-324                      # smallest positive double
LD_TINY = LD(2) ** -1074           # the same in extended precision
LD_ZERO = LD(2) ** -1077           # exp(.) below this is certainly rounded to 0.0 in float64
GUARD = 1e-9                       # relative guard band around a float threshold (DESIGN section 3, class F1)


EXPECT = {"nan": "NaN", "value": "a value", "either": "a value or NaN (weights at the underflow threshold)"}

# ----------------------------------------------------------------------------- generators

S_KINDS = ["identity", "diag", "diag_wide", "corr", "corr", "corr_wide", "common"]
X_KINDS = ["normal", "normal", "lognormal", "constant", "ties", "integers"]
OBS_KINDS = ["inside", "inside", "member", "edge", "far", "veryfar"]


def gen_case(rng, k, thorough):
    if thorough and k % 40 == 0:
        n = rng.choice([2000, 5000])
    else:
        n = rng.choice([1, 1, 2, 3, 5, 8, 13, 20, 40, 80, 150, 300])
    m = rng.choice([1, 1, 2, 2, 3, 4, 5, 7, 10])
    if k % 7 == 3:
        m = [3, 4, 6, 10][(k // 7) % 4]
    if k == 12 and not thorough:
        n, m = 4500, 2          # one database of several thousand entries (not a multiple of any power of two) in the quick tier too
    return {"id": k, "seed": rng.randrange(1 << 30), "n": n, "m": m, "unit": [1.0, 1.0, 3e-5, 1.0, 2e-4, 1e3][k % 6],
            "skind": rng.choice(S_KINDS) if k % 7 != 3 else (rng.choice(S_KINDS) and "common"), "xkind": rng.choice(X_KINDS),
            "dups": rng.random() < 0.35, "nobs": 4 if n <= 300 else 3,
            "x2": sorted(set([-1.0, rng.choice([0.0, 0.1, 0.5, 2.0]), rng.choice([5.0, 10.0, 10.0, 30.0]),
                              rng.choice([100.0, 1e3, 1e6])]))}


def build(case):
    """Deterministic data of a case: database y (n x m), x (n), S (m x m), observations, a permutation."""
    g = np.random.default_rng(case["seed"])
    n, m = case["n"], case["m"]
    kind = case["skind"]
    if kind == "identity":
        lam = np.ones(m)
    elif kind in ("diag", "corr"):
        lam = 10.0 ** g.uniform(-1.5, 1.5, size=m)
    else:
        lam = 10.0 ** g.uniform(-3, 3, size=m)
    if kind == "common":
        # common-mode noise s^2 ((1 - rho) I + rho 1 1^T): correlated, with an (m - 1)-fold REPEATED eigenvalue (a general
        # eigen-solver need not return an orthogonal basis of that eigenspace)
        s2, rho = float(10.0 ** g.uniform(-1, 1)), float(g.choice([0.2, 0.5, 0.8, 0.95]))
        S = s2 * ((1 - rho) * np.eye(m) + rho * np.ones((m, m)))
    elif kind.startswith("corr") and m > 1:
        q, _ = np.linalg.qr(g.normal(size=(m, m)))
        S = (q * lam) @ q.T
        S = 0.5 * (S + S.T)
    else:
        S = np.diag(lam)
    sig = np.sqrt(np.diag(S))
    centre = g.choice([0.0, 250.0])
    spread = g.choice([0.5, 2.0, 10.0])
    y = centre + spread * sig * g.normal(size=(n, m))
    if case["dups"] and n > 1:
        for _ in range(max(1, n // 4)):
            y[g.integers(n)] = y[g.integers(n)]
    xk = case["xkind"]
    if xk == "normal":
        x = g.normal(size=n) * 3 + g.choice([0.0, 100.0])
    elif xk == "lognormal":
        x = np.exp(g.normal(size=n) * 2)
    elif xk == "constant":
        x = np.full(n, float(g.choice([0.0, 1.5, -273.15, 1e6])))
    elif xk == "ties":
        x = g.choice(np.array([-1.0, 0.0, 0.5, 2.0]), size=n)
    else:
        x = g.integers(-5, 6, size=n).astype(float)
        if case["id"] % 2:
            x = x.astype(np.int64)        # whole-number x handed over with an INTEGER dtype: the estimates of the same values as floats
    obs = []
    for j in range(case["nobs"]):
        ok = OBS_KINDS[int(g.integers(len(OBS_KINDS)))]
        i = int(g.integers(n))
        if ok == "inside":
            yo = y[i] + sig * g.normal(size=m) * g.choice([0.1, 1.0])
        elif ok == "member":
            yo = y[i].copy()
        elif ok == "edge":
            i = int(np.argmax(np.abs(y - y.mean(axis=0)).sum(axis=1)))
            yo = y[i] + sig * g.normal(size=m) * g.choice([3.0, 8.0, 20.0])
        elif ok == "far":
            yo = y[i] + sig * g.choice([-1.0, 1.0], size=m) * 200.0
        else:
            yo = y[i] + sig * 1e5
        obs.append((ok, np.asarray(yo, dtype=float)))
    perm = g.permutation(n)
    # the unit of y: the same problem with every radiance multiplied by u (S by u^2) -- weights, estimates, cdf and quantiles do
    # not depend on it; small units put the entries of S near or below the absolute tolerances numerical code likes to use
    u = float(case.get("unit", 1.0))
    if u != 1.0:
        y, S, obs = y * u, S * (u * u), [(ok, yo * u) for ok, yo in obs]
    return y, x, S, obs, perm


# ----------------------------------------------------------------------------- float128 oracle

def inv_ld(S):
    """Gauss-Jordan inverse with partial pivoting in extended precision."""
    m = S.shape[0]
    a = np.concatenate([S.astype(LD), np.eye(m, dtype=LD)], axis=1)
    for c in range(m):
        p = c + int(np.argmax(np.abs(a[c:, c])))
        if p != c:
            a[[c, p]] = a[[p, c]]
        a[c] = a[c] / a[c, c]
        for r in range(m):
            if r != c:
                a[r] = a[r] - a[r, c] * a[c]
    return a[:, m:]


class Oracle:
    """chi^2 and weights of every database entry for one observation, with rigorous enclosures of the
    weights the float64 implementation can produce."""

    def __init__(self, y, S):
        self.m = S.shape[0]
        self.sinv = inv_ld(S)
        ev = np.linalg.eigvalsh(S)
        self.lam_min, self.lam_max = float(ev[0]), float(ev[-1])
        self.kappa = self.lam_max / self.lam_min
        self.sinv_norm = 1.0 / self.lam_min
        # |d^T (Sinv64 - Sinv) d| + evaluation error  <=  cerr * |d|^2
        self.cerr = LD(16.0 * (self.m + 2) * self.kappa * EPS * self.sinv_norm)

    def eval(self, ydb, yobs):
        d = ydb.astype(LD) - yobs.astype(LD)[None, :]
        chi2 = np.einsum("ij,jk,ik->i", d, self.sinv, d)
        chi2 = np.maximum(chi2, LD(0))
        err = self.cerr * np.einsum("ij,ij->i", d, d) + LD(8 * EPS) * chi2
        w = np.exp(-chi2 / 2)
        lo = np.exp(-(chi2 + err) / 2) * LD(1 - 8 * EPS) - LD_TINY
        lo = np.maximum(lo, LD(0))
        hi = np.exp(-np.maximum(chi2 - err, LD(0)) / 2) * LD(1 + 8 * EPS)
        hi = hi + LD_TINY
        return chi2, err, w, lo, hi


def stats(x, w, lo, hi, n_total):
    """Weighted mean / std of (x, w) in float128 and tolerances for the float64 implementation whose weights
    lie in [lo, hi].  Returns None when the weights are too small / too uncertain to predict a value."""
    xl = x.astype(LD)
    W, Wlo = w.sum(), lo.sum()
    if not (Wlo > LD(1e-300)):
        return None
    mean = (w * xl).sum() / W
    dev = xl - mean
    var = (w * dev * dev).sum() / W
    var = max(var, LD(0))
    std = np.sqrt(var)
    dw = hi - lo
    xmax = float(np.max(np.abs(x))) if x.size else 0.0
    fl = (2 * n_total + 16) * EPS
    tol_mean = float((dw * np.abs(dev)).sum() / Wlo) + fl * xmax + TINY
    tv = float((dw * np.abs(dev * dev - var)).sum() / Wlo) + tol_mean ** 2 \
        + fl * float(var) + 4 * EPS * xmax * (float(std) + tol_mean) + TINY
    tol_std = min(math.sqrt(tv), tv / float(std)) if float(std) > 0 else math.sqrt(tv)
    return {"mean": float(mean), "std": float(std), "tol_mean": tol_mean, "tol_std": tol_std + TINY,
            "W": W, "Wlo": Wlo, "rel_unc": float(dw.sum() / Wlo)}


# ----------------------------------------------------------------------------- running the implementation

def _real(v):
    a = np.asarray(v)
    if np.iscomplexobj(a):
        if np.any(a.imag != 0):
            raise ValueError("complex eigen-decomposition of a symmetric matrix")
        a = a.real
    return a


def call(f):
    try:
        return ("ok", f())
    except Exception as e:  # noqa
        return ("err", type(e).__name__, str(e).splitlines()[0][:100] if str(e) else "")


def ranks(*arrays):
    """dense ranks of all doubles of the given arrays, jointly (strictly monotone relabelling)."""
    allv = np.concatenate([np.asarray(a, dtype=float).ravel() for a in arrays])
    u = np.unique(allv)
    return [np.searchsorted(u, np.asarray(a, dtype=float).ravel()).tolist() for a in arrays]


def xw_bounds(x):
    return (float(np.min(x)), float(np.max(x))) if x.size else (math.inf, -math.inf)


class Checker:
    def __init__(self, ctx):
        self.ctx = ctx
        self.coq = []          # (expr, oid, x2, il, iu, rcdf, boundary, n, instance)
        self.defs = {}         # instance number -> Coq definitions of its projections / x ranks / index view
        self.nontrivial = set()

    def fail(self, kind, sig, what, case, **kw):
        self.ctx.fail(kind, what, case=case, signature=sig, **kw)

    # one BMCI instance on one ordering of the database
    def check_instance(self, case, tag, y, x, S, obs, oracle_full):
        from typhon.retrieval.bmci import BMCI
        cid = {"case": case, "ordering": tag}
        r = call(lambda: BMCI(y.copy(), x.copy(), S.copy()))
        if r[0] == "err":
            self.fail("failing-input", "init-raises-" + r[1], f"BMCI(y, x, s_o) raised {r[1]}: {r[2]}", cid)
            return
        b = r[1]
        n, m = y.shape
        complex_axis = False
        try:
            try:
                pc1, pc1_e, proj = _real(b.pc1).astype(float), float(_real(b.pc1_e)), _real(b.pc1_proj).astype(float)
            except ValueError:
                # numpy.linalg.eig (the general solver BMCI uses) may return a complex-conjugate pair for a REPEATED
                # eigenvalue of a symmetric matrix: the axis is then a complex vector whose real part is an eigenvector of
                # norm <= 1.  The window stays a superset of the sound one ((d.a)^2 <= |a|^2 lam chi^2); the discrete
                # bookkeeping model (real projections) is not applied to such an instance, every law on the estimates,
                # the weights and the window (nothing relevant cut off) is.
                complex_axis = True
                pc1, pc1_e, proj = np.real(np.asarray(b.pc1)).astype(float), float(np.real(b.pc1_e)), np.real(np.asarray(b.pc1_proj)).astype(float)
                self.ctx.cov.setdefault("complex_eigen_axis_instances", 0)
                self.ctx.cov["complex_eigen_axis_instances"] += 1
            sinv64 = np.asarray(b.s_o_inv, dtype=float)
            bx, by, xinds = np.asarray(b.x, dtype=float), np.asarray(b.y, dtype=float), np.asarray(b.x_sorted_inds)
        except Exception as e:  # noqa
            self.fail("correspondence", "state-unreadable", f"instance attributes unreadable: {e}", cid)
            return
        # ---- the state __init__ leaves behind
        rows_in = sorted(map(tuple, np.column_stack([x, y]).tolist()))
        rows_db = sorted(map(tuple, np.column_stack([bx, by]).tolist()))
        if rows_in != rows_db:
            self.fail("failing-input", "database-not-permuted",
                      "the stored database (x, y) is not a reordering of the entries given to BMCI()", cid)
            return
        state_ok = not complex_axis
        if np.any(np.diff(proj) < 0):
            state_ok = False
            self.fail("correspondence", "projection-unsorted", "pc1_proj is not ascending after __init__", cid)
        if sorted(xinds.tolist()) != list(range(n)) or np.any(np.diff(bx[xinds]) < 0):
            state_ok = False
            self.fail("correspondence", "x-view-invalid", "x_sorted_inds is not an ascending index view of x", cid)
        orc = oracle_full
        # trusted components, checked numerically (catches e.g. s_o used for its inverse, a non-unit axis)
        resid = np.abs(S @ sinv64 - np.eye(m)).max()
        if resid > 64 * m * orc.kappa * EPS:
            self.fail("correspondence", "inverse-wrong", f"s_o_inv is not the inverse of s_o (residual {resid:.3g})", cid)
        eig_res = np.abs(S @ pc1 - pc1 / pc1_e).max() if pc1_e != 0 else math.inf
        if complex_axis:
            if pc1 @ pc1 > 1 + 64 * m * EPS:
                self.fail("correspondence", "eigenpair-wrong", "the real part of the complex axis is longer than 1", cid)
        elif abs(pc1 @ pc1 - 1) > 64 * m * EPS or eig_res > 256 * m * EPS * orc.lam_max * max(1.0, 1.0):
            self.fail("correspondence", "eigenpair-wrong",
                      f"(1/pc1_e, pc1) is not a unit eigenpair of s_o (residual {eig_res:.3g})", cid)
        xmin_db, xmax_db = xw_bounds(x)
        inst = len(self.defs)
        if n <= 300 and state_ok:
            # ranks: stored value -> 2 * (index among the distinct values); a bound between two values gets the odd
            # number in between (a strictly monotone relabelling of projections and bounds together)
            rx, = ranks(bx)
            up = np.unique(proj)
            rp = (2 * np.searchsorted(up, proj)).tolist()
            self.defs[inst] = (f"Definition ps_{inst} : list Z := {zlist(rp)}.\n"
                               f"Definition xs_{inst} : list Z := {zlist(rx)}.\n"
                               f"Definition xi_{inst} : list Z := {zlist([int(k) for k in xinds])}.\n")
            self.coq.append((f"check_xview xs_{inst} xi_{inst}", cid, None, 0, 0, None, False, n, inst))
        else:
            self.defs[inst] = ""
        self.inst, self.uproj = inst, np.unique(proj)
        for oi, (okind, yo) in enumerate(obs):
            chi2, err, w, lo, hi = orc.eval(by, yo)      # in the order of the stored database
            full = stats(bx, w, lo, hi, n)
            # history: the same observation is evaluated on the same object under every cut, tight -> loose -> unrestricted
            # and back to tight: each call must depend on its own x2_max only
            nonneg = sorted(v for v in case["x2"] if v >= 0)
            x2seq = nonneg + [v for v in case["x2"] if v < 0] + nonneg[::-1]      # tightest cut first
            for x2 in x2seq:
                oid = {"case": case, "ordering": tag, "obs": oi, "obs_kind": okind, "x2_max": x2}
                self.ctx.cov["evaluations"] += 1
                self.check_obs(b, oid, n, m, bx, by, proj, pc1, pc1_e, xinds, yo, x2, chi2, err, w, lo, hi, full,
                               state_ok, (xmin_db, xmax_db))

    def check_obs(self, b, oid, n, m, bx, by, proj, pc1, pc1_e, xinds, yo, x2, chi2, err, w, lo, hi, full,
                  state_ok, xb_db):
        yo2 = yo.reshape(1, m)
        # ---- weights(): window and weights
        r = call(lambda: b.weights(yo, x2))
        if r[0] == "err":
            self.fail("failing-input", "weights-raises-" + r[1], f"weights() raised {r[1]}: {r[2]}", oid)
            return
        il, iu, ws = r[1]
        il, iu = int(il), int(iu)
        ws = np.asarray(ws, dtype=float).ravel()
        if not (0 <= il <= n and 0 <= iu <= n) or ws.size != max(iu - il, 0):
            self.fail("failing-input", "window-shape", f"weights() returned i_l={il}, i_u={iu}, {ws.size} weights for n={n}", oid)
            return
        keep = np.zeros(n, dtype=bool)
        keep[il:iu] = True
        if x2 < 0 and not keep.all():
            self.fail("failing-input", "unrestricted-window", f"x2_max < 0 must use the whole database, got [{il},{iu}) of {n}", oid)
        # law: an entry that is left out has chi^2 > x2_max (theorem cut_entries_exceed_x2max: even >= 2 x2_max)
        cut = ~keep
        if x2 >= 0 and cut.any():
            bad = cut & (chi2 + err < LD(x2) * LD(1 - GUARD))
            if bad.any():
                i = int(np.argmax(bad))
                self.fail("failing-input", "window-cuts-relevant-entry",
                          f"x2_max={x2}: entry {i} (sorted order) with chi^2={float(chi2[i]):.6g} <= x2_max is left out of "
                          f"the window [{il},{iu})", oid, impl=[il, iu], model={"chi2": float(chi2[i])})
        wk, lok, hik, xk = w[keep], lo[keep], hi[keep], bx[keep]
        if ws.size and (np.any(ws < lok.astype(float) * (1 - 1e-12) - 2 * TINY) or np.any(ws > hik.astype(float) * (1 + 1e-12) + 2 * TINY)):
            i = int(np.argmax((ws < lok.astype(float) * (1 - 1e-12) - 2 * TINY) | (ws > hik.astype(float) * (1 + 1e-12) + 2 * TINY)))
            self.fail("failing-input", "weight-value",
                      f"weight of window entry {i} is {ws[i]!r}, exp(-chi^2/2) lies in [{float(lok[i])!r}, {float(hik[i])!r}]",
                      oid, impl=float(ws[i]), model=[float(lok[i]), float(hik[i])])
        # ---- expected status: a value, NaN, or undecidable (weights at the underflow threshold)
        st = stats(xk, wk, lok, hik, n) if keep.any() else None
        if not keep.any() or hik.max() < LD_TINY + LD_ZERO:       # every float64 weight certainly rounds to zero
            expect = "nan"
        elif st is not None and st["rel_unc"] < 0.5:
            expect = "value"
        else:
            expect = "either"
        xlo, xhi = xw_bounds(xk)
        slack = 8 * EPS * max(abs(xlo), abs(xhi)) if keep.any() else 0.0
        # ---- predict
        r = call(lambda: b.predict(yo2, x2))
        if r[0] == "err":
            self.fail("failing-input", "predict-raises-" + r[1],
                      f"predict() raised {r[1]} ({r[2]}); expected {EXPECT[expect]} "
                      f"(window [{il},{iu}), largest weight {float(hik.max()) if keep.any() else 0.0:.3g})", oid, impl=list(r[1:]))
        else:
            mean, std = float(np.asarray(r[1][0]).ravel()[0]), float(np.asarray(r[1][1]).ravel()[0])
            self.check_value(oid, "predict", expect, mean, std, st, full, w, keep, xb_db)
        # ---- cdf
        r = call(lambda: b.cdf(yo, x2))
        cdf_xs = None
        if r[0] == "err":
            self.fail("failing-input", "cdf-raises-" + r[1],
                      f"cdf() raised {r[1]} ({r[2]}); expected {EXPECT[expect]} "
                      f"(window [{il},{iu}))", oid, impl=list(r[1:]))
        else:
            cxs, cys = r[1]
            cdf_xs = np.asarray(cxs, dtype=float).ravel()
            self.check_cdf(oid, expect, cdf_xs, cys, xk, wk, lok, hik, st, n)
        # ---- predict_quantiles
        taus = np.array([0.0, 0.01, 0.1, 0.25, 0.5, 0.5, 0.75, 0.9, 0.99, 1.0])
        r = call(lambda: b.predict_quantiles(yo2, taus, x2))
        if r[0] == "err":
            self.fail("failing-input", "quantiles-raises-" + r[1],
                      f"predict_quantiles() raised {r[1]} ({r[2]}); expected {EXPECT[expect]} "
                      f"(window [{il},{iu}))", oid, impl=list(r[1:]))
        else:
            qs = np.asarray(r[1], dtype=float).reshape(-1)
            self.check_quantiles(oid, expect, taus, qs, xk, wk, lok, hik, st, n, slack)
        # ---- discrete bookkeeping in Coq (ranks), small databases only
        if n <= 300 and state_ok:
            self.queue_coq(oid, b, n, bx, proj, pc1, pc1_e, xinds, yo, x2, il, iu, cdf_xs)
        if expect == "value" and 0 < keep.sum() and (x2 < 0 or cut.any()) and n > 1:
            self.nontrivial.add((oid["case"]["id"], oid["ordering"], oid["obs"], x2))
        if oid["case"]["id"] % 9 == 0 and oid["obs"] == 0 and oid["ordering"] == "given":
            self.ctx.sample({"n": n, "m": m, "S": oid["case"]["skind"], "x": oid["case"]["xkind"], "obs": oid["obs_kind"],
                             "x2_max": x2, "window": [il, iu], "expected": expect,
                             "mean_std": [st["mean"], st["std"]] if st else None}, limit=8)

    def check_value(self, oid, name, expect, mean, std, st, full, w, keep, xb_db):
        isnan = math.isnan(mean) and math.isnan(std)
        if expect == "nan":
            if not isnan:
                self.fail("failing-input", f"{name}-value-without-weight",
                          f"{name}() returned ({mean!r}, {std!r}) although no entry of the window has non-zero weight", oid,
                          impl=[mean, std])
            return
        if expect == "either" or st is None:
            # weights at the float64 underflow threshold: NaN or a value; with normal (non-denormal) weights the value is
            # still a convex combination of the x_i; with denormal weights x * w itself is rounded coarsely: no claim
            if st is not None and not isnan and not (xb_db[0] - 1e-9 * abs(xb_db[0]) <= mean <= xb_db[1] + 1e-9 * abs(xb_db[1])):
                self.fail("failing-input", f"{name}-mean-outside-database", f"{name}() mean {mean!r} outside [min x, max x]", oid)
            return
        if isnan or math.isnan(mean) or math.isnan(std):
            self.fail("failing-input", f"{name}-nan-with-weight",
                      f"{name}() returned ({mean!r}, {std!r}) although the window carries weight {float(st['W']):.3g}", oid,
                      impl=[mean, std], model=[st["mean"], st["std"]])
            return
        if abs(mean - st["mean"]) > st["tol_mean"] or abs(std - st["std"]) > st["tol_std"]:
            self.fail("failing-input", f"{name}-not-weighted-statistics",
                      f"{name}() returned mean {mean!r}, std {std!r}; sum(w x)/sum(w) = {st['mean']!r} (tol {st['tol_mean']:.3g}), "
                      f"sqrt(sum(w (x-mean)^2)/sum(w)) = {st['std']!r} (tol {st['tol_std']:.3g})", oid,
                      impl=[mean, std], model=[st["mean"], st["std"]])
            return
        # law: pruning changes the mean by at most the cut entries' share of the total weight times the x range
        if full is not None and oid["x2_max"] >= 0:
            share = float(w[~keep].sum() / w.sum())
            bound = share * (xb_db[1] - xb_db[0]) + st["tol_mean"] + full["tol_mean"]
            if abs(mean - full["mean"]) > bound:
                self.fail("failing-input", "pruning-error-exceeds-share",
                          f"x2_max={oid['x2_max']}: pruned mean {mean!r} differs from the unpruned {full['mean']!r} by more than "
                          f"the cut entries' weight share {share:.3g} x range", oid, impl=mean, model=full["mean"])

    def check_cdf(self, oid, expect, xs, cys, xk, wk, lok, hik, st, n):
        if sorted(xs.tolist()) != sorted(xk.tolist()) or np.any(np.diff(xs) < 0):
            self.fail("failing-input", "cdf-support", "cdf() x values are not the window's x in ascending order", oid,
                      impl=xs.tolist()[:20], model=sorted(xk.tolist())[:20])
            return
        scalar_nan = np.ndim(cys) == 0 and math.isnan(float(cys))
        if expect == "nan":
            if not scalar_nan and not (np.size(cys) and np.all(np.isnan(cys))):
                self.fail("failing-input", "cdf-value-without-weight", "cdf() returned values although no entry has weight", oid)
            return
        if expect == "either" or st is None:
            return
        if scalar_nan:
            self.fail("failing-input", "cdf-nan-with-weight", "cdf() returned NaN although the window carries weight", oid)
            return
        cys = np.asarray(cys, dtype=float).ravel()
        if cys.size != xs.size or np.any(np.diff(cys) < 0) or cys[-1] != 1.0 or cys[0] < 0:
            self.fail("failing-input", "cdf-not-monotone-to-one",
                      f"cdf() values are not non-decreasing from >= 0 to exactly 1 (last {cys[-1]!r})", oid, impl=cys.tolist()[:20])
            return
        # F(u) = sum_{x_i <= u} w_i / W at the distinct x values
        u, F = self.group_cdf(xk, wk)
        tolc = 2 * st["rel_unc"] + (2 * n + 16) * EPS
        last = np.searchsorted(xs, u, side="right") - 1
        d = np.abs(cys[last] - F.astype(float))
        if np.any(d > tolc):
            i = int(np.argmax(d))
            self.fail("failing-input", "cdf-value",
                      f"cdf({u[i]!r}) = {cys[last][i]!r}, the weight share of entries with x <= {u[i]!r} is {float(F[i])!r} (tol {tolc:.3g})",
                      oid, impl=float(cys[last][i]), model=float(F[i]))

    @staticmethod
    def group_cdf(xk, wk):
        order = np.argsort(xk, kind="stable")
        xs_s, ws_s = xk[order], wk[order]
        cum = np.cumsum(ws_s) / ws_s.sum()
        u, first = np.unique(xs_s, return_index=True)
        lastidx = np.append(first[1:], xs_s.size) - 1
        return u, cum[lastidx]

    def check_quantiles(self, oid, expect, taus, qs, xk, wk, lok, hik, st, n, slack):
        if expect == "nan":
            if not np.all(np.isnan(qs)):
                self.fail("failing-input", "quantiles-value-without-weight",
                          "predict_quantiles() returned numbers although no entry has weight", oid, impl=qs.tolist())
            return
        if expect == "either" or st is None:
            return
        if np.any(np.isnan(qs)):
            self.fail("failing-input", "quantiles-nan-with-weight", "predict_quantiles() returned NaN although the window carries weight",
                      oid, impl=qs.tolist())
            return
        xlo, xhi = float(xk.min()), float(xk.max())
        if np.any(qs < xlo - slack) or np.any(qs > xhi + slack):
            self.fail("failing-input", "quantiles-outside-range", f"quantiles {qs.tolist()} leave [min x, max x] = [{xlo!r}, {xhi!r}]", oid,
                      impl=qs.tolist())
            return
        if np.any(np.diff(qs) < -slack):
            self.fail("failing-input", "quantiles-not-monotone", f"quantiles {qs.tolist()} decrease in tau", oid, impl=qs.tolist())
            return
        u, F = self.group_cdf(xk, wk)
        F = F.astype(float)
        tolc = 2 * st["rel_unc"] + (2 * n + 16) * EPS
        for t, q in zip(taus, qs):
            below = u[F + tolc <= t]
            above = u[F - tolc > t]
            lo_b = below.max() if below.size else u[0]
            hi_b = above.min() if above.size else u[-1]
            if not (lo_b - slack <= q <= hi_b + slack):
                self.fail("failing-input", "quantile-inconsistent-with-cdf",
                          f"quantile({t}) = {q!r} but the weighted cdf brackets it in [{lo_b!r}, {hi_b!r}]", oid,
                          impl=float(q), model=[float(lo_b), float(hi_b)])
                return

    # ---- Coq: window and view on ranks
    def queue_coq(self, oid, b, n, bx, proj, pc1, pc1_e, xinds, yo, x2, il, iu, cdf_xs):
        if x2 >= 0:
            # the two bounds handed to searchsorted, evaluated as the code does (IEEE double)
            y_proj = float(np.dot(pc1, (yo - _real(b.y_mean)).ravel()))
            h = float(np.sqrt(2.0 * x2 / pc1_e))
            s_l, s_u = y_proj - h, y_proj + h
            band = GUARD * max(1.0, abs(s_l), abs(s_u))
            boundary = bool(np.any(np.abs(proj - s_l) <= band) or np.any(np.abs(proj - s_u) <= band))
            def rank_of(sv):
                i = int(np.searchsorted(self.uproj, sv, side="left"))
                return 2 * i if i < self.uproj.size and self.uproj[i] == sv else 2 * i - 1
            expr = f"run_window ps_{self.inst} {core.zlit(rank_of(s_l))} {core.zlit(rank_of(s_u))} xs_{self.inst} xi_{self.inst}"
        else:
            boundary = False
            expr = f"run_full xs_{self.inst} xi_{self.inst}"
        rcdf = None
        if cdf_xs is not None:
            u = np.unique(bx)
            rcdf = np.searchsorted(u, cdf_xs).tolist()
        self.coq.append((expr, oid, x2, il, iu, rcdf, boundary, n, self.inst))

    def run_coq(self):
        if not self.coq:
            return
        # one Coq file per group of instances: their lists are defined once, the per-observation terms are short
        from concurrent.futures import ThreadPoolExecutor
        insts = sorted({c[8] for c in self.coq})
        groups = [insts[k:k + 6] for k in range(0, len(insts), 6)]
        vals = [None] * len(self.coq)

        def run_group(gi):
            members = set(groups[gi])
            idx = [i for i, c in enumerate(self.coq) if c[8] in members]
            pre = PREAMBLE + "".join(self.defs[k] for k in groups[gi])
            v, lg = core.coq_eval(self.ctx.work / "cases", f"book{gi:03d}", pre, [self.coq[i][0] for i in idx],
                                  shard=100000, jobs=1)
            return idx, v, lg
        with ThreadPoolExecutor(max_workers=core.NPROC) as ex:
            for idx, v, lg in ex.map(run_group, range(len(groups))):
                for i, x in zip(idx, v):
                    vals[i] = x
                if lg:
                    self.ctx.log(lg[-1500:])
        for (expr, oid, x2, il, iu, rcdf, boundary, n, _inst), v in zip(self.coq, vals):
            if v is None:
                self.fail("correspondence", "coq-eval", "Coq evaluation of the bookkeeping model failed", oid)
                continue
            if x2 is None:                      # the per-instance hypothesis check
                if v is not True:
                    self.fail("correspondence", "state-hypothesis", "Coq rejects x_sorted_inds as an ascending index view of x", oid)
                continue
            if x2 >= 0:
                h1, mil, miu, mview = v
            else:
                mview = v
                h1, mil, miu = True, 0, n
            if not h1:
                self.fail("correspondence", "state-hypothesis", "Coq rejects the sortedness hypotheses of the stored state", oid)
                continue
            if boundary:
                continue
            if (mil, miu) != (il, iu):
                self.fail("correspondence", "window-indices",
                          f"weights() window [{il},{iu}) differs from searchsorted of the model [{mil},{miu})", oid,
                          impl=[il, iu], model=[mil, miu])
                continue
            if rcdf is not None and rcdf != mview:
                self.fail("failing-input", "view-not-sorted-window",
                          "cdf() x values differ from the x-sorted view of the window computed by the model", oid,
                          impl=rcdf[:30], model=mview[:30])


# ----------------------------------------------------------------------------- check

def check_cases(ctx, cases):
    ck = Checker(ctx)
    for case in cases:
        y, x, S, obs, perm = build(case)
        orc = Oracle(y, S)
        ck.check_instance(case, "given", y, x, S, obs, orc)
        if case["n"] <= 300 or case["id"] % 80 == 0:
            ck.check_instance(case, "permuted", y[perm], x[perm], S, obs, orc)
    ctx.log(f"implementation and float128 oracle done on {len(cases)} databases; {len(ck.coq)} bookkeeping cases go to Coq")
    ck.run_coq()
    return ck


def run(ctx):
    ctx.prove("Props/C18.v")
    ncase = ctx.n(70, 1500)
    cases = [gen_case(ctx.rng, k, ctx.thorough) for k in range(ncase)]
    ck = check_cases(ctx, cases)
    ctx.cov["distinct_nontrivial"] = len(ck.nontrivial)
    ctx.cov["rule"] = ("(database, ordering, observation, x2_max) evaluations: databases of 1-300 (thorough: also 2000/5000) entries, "
                       "1-10 channels, duplicated rows, constant / tied / integer / lognormal x, diagonal and correlated SPD "
                       "covariances with condition numbers up to 1e6, observations inside / equal to an entry / at the edge / "
                       "far / very far outside, x2_max in {-1, 0, 0.1 .. 1e6}, each database in the given and in a permuted order; "
                       "non-trivial = at least two entries, a value (not NaN) is predicted with a weight uncertainty below 50 %, "
                       "and either the unrestricted mode or a window that really leaves entries out; distinct by "
                       "(case, ordering, observation, x2_max)")
    ctx.cov["input_distribution"] = {
        "cases": ncase,
        "n": {str(n): sum(1 for c in cases if c["n"] == n) for n in sorted({c["n"] for c in cases})},
        "m": {str(m): sum(1 for c in cases if c["m"] == m) for m in sorted({c["m"] for c in cases})},
        "covariance": {k: sum(1 for c in cases if c["skind"] == k) for k in sorted(set(S_KINDS))},
        "x": {k: sum(1 for c in cases if c["xkind"] == k) for k in sorted(set(X_KINDS))},
        "coq_bookkeeping_cases": len(ck.coq),
    }
    ctx.assumptions += [
        "S symmetric positive definite, numpy.linalg.inv/eig deliver its inverse and a unit eigenpair (hypotheses of "
        "window_sound; residuals checked per instance)",
        "the doubles are handed to the bookkeeping model as integer ranks (theorem searchsorted_rank_invariant); a projection "
        "within 1e-9 (relative) of a window bound is a boundary case: either index is accepted",
        "x2_max = 0: the window [s, s) is empty, so an entry identical to the observation (chi^2 = 0 = x2_max) is left out; "
        "decision quantity at the threshold -> boundary, reported as a candidate finding, not as a violation",
        "float64 vs exact reals: weights are compared with rigorous enclosures derived from cond(S); cases whose weights lie at "
        "the underflow threshold accept NaN or a value",
    ]
    return ctx.finish(trusted_base=TRUSTED)


def replay(ctx, rec):
    c = rec["case"]
    case = c.get("case", c)
    ck = check_cases(ctx, [case])
    for f in ctx.failures:
        print("still fails:", f.what[:300])
    return 1 if ctx.failures else 0
