"""C04 -- Collocator.collocate finds exactly the point pairs within distance and interval.

Theorems: coq/theories/Props/C04.v about the model coq/theories/Model/C04_collocate.v (window, sort, flattening,
NaN index arrays, spatial search with build-side choice and index cache, temporal pre-binning with offsets,
temporal check, compaction): model = brute-force specification for every input, tuning and history.

Tie: the real Collocator is run on generated call histories (1-5 calls on one object); the same histories are
evaluated by the model and by the specification inside Coq (vm_compute).  `near` is instantiated by an
independent oracle: cartesian coordinates computed here in long double from the doubles handed to typhon
(own formula, own constant), rounded to nanometres, compared exactly in Coq.  Pairs whose chord lies within a
guard band around the threshold are accepted either way.  What is compared: the SET of (primary id, secondary
id) pairs, each once, None iff empty, interval = floor(|dt|) seconds, distance = oracle chord in km.

Clauses decided per call against the Coq evaluation (each a failing input when the hypotheses of its theorem hold:
ids distinct within a dataset, bin width > 0, whole seconds - all true of every generated call and re-checked here):
  each_pair_once          the rows of the model carry no id pair twice (theorem); an id pair the implementation
                          reports twice is a failing input.
  values_are_of_the_pair  the row of the model for an id pair holds |dt| in whole seconds and the exact integer
                          chord^2 of exactly these two points (theorem); the implementation's interval must equal the
                          first and its distance must agree with the second (and with the long-double chord).
  compaction_consistent   Collocations/pairs and the stored ids of both groups as returned by the implementation are
                          handed to the certified checker `check_output` (theorems checker_sound /
                          checker_accepts_model): valid compact dataset, every point stored once, and its expansion
                          (computed in Coq) is the id-pair list all other comparisons use.
"""
import datetime as dt
import math
import warnings
from fractions import Fraction

import numpy as np

from lib import core

LD = np.longdouble
PREAMBLE = ("From Typhon Require Import Model.C04_collocate.\nFrom Coq Require Import Uint63.\n"
            "Open Scope uint63_scope.\n")
TRUSTED = [
    "correspondence harness tools/props/c04.py (generators, xarray dataset construction, long-double chord oracle with guard band, canonical sorting of id pairs)",
    "scikit-learn BallTree / GeoIndex.query answer exactly the points within the radius (Section variable `near`; GeoIndex.query itself is property C06)",
    "xarray where/dropna/sortby/sel/stack/isel and pandas Grouper/searchsorted/loc semantics (exercised, modelled by filter, stable sort, row-major flattening, fixed-width bins)",
    "numpy.random is seeded per call by the harness (the shuffler only permutes the order of the pairs, which no theorem observes)",
]

R_EARTH = 6.3781e6            # metres; the value documented in typhon.constants (own copy on purpose)
KEY = 1e-8                    # degrees per integer key: lat = latk * KEY (distinct keys <-> distinct doubles)
EPOCH = np.datetime64("2018-01-01T00:00:00", "ns")
EPOCH_PY = dt.datetime(2018, 1, 1)
SEC = 10 ** 9
OFF = 10 ** 18
NS_MIN = ((dt.datetime.min - EPOCH_PY) // dt.timedelta(microseconds=1)) * 1000
NS_MAX = ((dt.datetime.max - EPOCH_PY) // dt.timedelta(microseconds=1)) * 1000
THRESHOLD = 1000000           # collocator.py: data_magnitude > 100_0000 -> temporal pre-binning

UNITS_KM = {"km": Fraction(1), "kilometers": Fraction(1), "m": Fraction(1, 1000), "meters": Fraction(1, 1000),
            "miles": Fraction(1609344, 1000000), "mi": Fraction(1609344, 1000000), "ft": Fraction(3048, 10000000),
            "cm": Fraction(1, 100000), "yards": Fraction(9144, 10000000)}


# ----------------------------------------------------------------------------- thresholds

def dist_arg(spec):
    """spec = [value, unit or None] -> what is handed to collocate"""
    v, u = spec
    if u is None:
        return v
    return f"{v} {u}" if u != "km!" else f"{v}km"


def dist_km(spec):
    v, u = spec
    f = Fraction(str(v))
    return f if u is None else f * UNITS_KM[u.rstrip("!")]


def ivl_arg(spec):
    v, u = spec
    if u is None:
        return v
    if u == "float":
        return float(v)
    if u == "timedelta":
        return dt.timedelta(seconds=v)
    return f"{v} {u}"


def ivl_ns(spec):
    v, u = spec
    mult = {None: 1, "float": 1, "timedelta": 1, "s": 1, "seconds": 1, "min": 60, "minutes": 60, "h": 3600, "hours": 3600}[u]
    return int(v) * mult * SEC


def gen_dist(rng, r_km):
    """the same radius as a number or a unit string"""
    style = rng.random()
    if style < 0.45:
        return [r_km, None]
    if style < 0.65:
        return [r_km, "km"]
    if style < 0.85:
        m = r_km * 1000
        return [int(m) if float(m).is_integer() else m, rng.choice(["m", "meters"])]
    if style < 0.93:
        return [r_km, rng.choice(["kilometers", "km!"])]
    # the other units the table of to_kilometers knows (the radius itself is then whatever the rounded number of miles /
    # feet / yards / centimetres means: the specification is computed from the spelled-out value)
    u = rng.choice(["miles", "mi", "ft", "yards", "cm"])
    v = float(Fraction(str(r_km)) / UNITS_KM[u])
    return [float(f"{v:.6g}"), u]


def gen_ivl(rng, s):
    style = rng.random()
    if style < 0.4:
        return [s, None]
    if style < 0.5:
        return [s, "float"]
    if style < 0.6:
        return [s, "timedelta"]
    if s % 3600 == 0 and style < 0.8:
        return [s // 3600, rng.choice(["h", "hours"])]
    if s % 60 == 0 and style < 0.9:
        return [s // 60, rng.choice(["min", "minutes"])]
    return [s, rng.choice(["s", "seconds"])]


# ----------------------------------------------------------------------------- points

def clampk(latk, lonk):
    latk = max(-90 * 10 ** 8, min(90 * 10 ** 8, int(latk)))
    lonk = int(lonk)
    span = 360 * 10 ** 8
    while lonk > 180 * 10 ** 8:
        lonk -= span
    while lonk < -180 * 10 ** 8:
        lonk += span
    return latk, lonk


def offset_point(rng, latk, lonk, d_m):
    """a point about d_m metres away in a random direction"""
    lat = latk * KEY
    brg = rng.uniform(0, 2 * math.pi)
    dlat = math.degrees(d_m * math.cos(brg) / R_EARTH)
    c = max(math.cos(math.radians(lat)), 1e-6)
    dlon = math.degrees(d_m * math.sin(brg) / (R_EARTH * c))
    return clampk(latk + dlat / KEY, lonk + dlon / KEY)


def gen_centre(rng):
    style = rng.random()
    if style < 0.12:
        lat = rng.choice([90.0, -90.0, 89.9995, -89.9995])
        lon = rng.uniform(-180, 180)
    elif style < 0.27:
        lat = rng.uniform(-70, 70)
        lon = rng.choice([180.0, -180.0, 179.9997, -179.9997])
    elif style < 0.35:
        lat, lon = 0.0, 0.0
    else:
        lat, lon = rng.uniform(-85, 85), rng.uniform(-179, 179)
    return clampk(lat / KEY, lon / KEY)


def gen_points(rng, n1, n2, r_km, mi_s, big=False):
    """two point lists [[id, t_ns, latk, lonk]]; NaN position: latk = lonk = None"""
    r_m = r_km * 1000.0
    ncl = rng.choice([1, 1, 2, 3])
    centres = [gen_centre(rng) for _ in range(ncl)]
    if big:
        # the big sets are spread over a box so that the number of near pairs stays moderate
        c0 = centres[0]
        centres = [(max(-80 * 10 ** 8, min(80 * 10 ** 8, c0[0])), c0[1])]
    box = 1.2 * 10 ** 8

    def rpos():
        c = rng.choice(centres)
        if big:
            return clampk(c[0] + rng.uniform(-box, box), c[1] + rng.uniform(-box, box))
        if rng.random() < 0.12:
            return c          # exactly on the centre: longitude exactly +-180, latitude exactly +-90, (0, 0)
        return offset_point(rng, c[0], c[1], rng.uniform(0, spread))
    spread = rng.choice([0.5, 1.5, 3.0, 10.0]) * r_m
    span_s = rng.choice([0, max(1, mi_s // 2), mi_s * 3, mi_s * 20]) if not big else mi_s * rng.choice([40, 150, 400])
    sub = rng.random() < 0.5          # sub-second parts

    def rtime():
        if big and rng.random() < 0.06:
            # exactly on a bin edge of the temporal pre-binning for every bin_factor in use (bins start at midnight with
            # width bin_factor * max_interval): a point that an inclusive chunk would hand to two bins
            return (3600 + rng.randint(0, span_s // (30 * mi_s)) * 30 * mi_s) * SEC
        t = rng.randint(0, span_s) * SEC + 3600 * SEC
        if sub:
            t += rng.randrange(0, 1000) * 10 ** 6
        return t
    prim = []
    for i in range(n1):
        c = rng.choice(centres)
        la, lo = rpos()
        if prim and rng.random() < 0.08:
            la, lo = rng.choice(prim)[2:4]                        # duplicate position
            if la is None:
                la, lo = c
        t = rng.choice(prim)[1] if prim and rng.random() < 0.15 else rtime()     # duplicate time
        prim.append([1000 + i, t, la, lo])
    seco = []
    for j in range(n2):
        style = rng.random()
        p = rng.choice(prim)
        if style < (0.5 if not big else 0.3) and p[2] is not None:
            # partner of a primary: distance just below / above the threshold (outside the guard band)
            delta = rng.choice([-0.3, -1e-2, -1e-3, -1e-4, -2e-5, 2e-5, 1e-4, 1e-3, 1e-2, 0.3, -1.0])
            la, lo = offset_point(rng, p[2], p[3], r_m * (1 + delta))
            tsty = rng.random()
            if tsty < 0.5:
                dtn = rng.choice([0, 10 ** 6, SEC, mi_s * SEC - 10 ** 6, mi_s * SEC - 1, mi_s * SEC, mi_s * SEC + SEC // 2,
                                  mi_s * SEC - SEC, mi_s * SEC + SEC, (mi_s * SEC) // 2])
                t = p[1] + rng.choice([-1, 1]) * dtn
                if t < 0:
                    t = p[1] + dtn
            else:
                t = rtime()
        else:
            la, lo = rpos()
            t = rtime()
        seco.append([5000 + j, t, la, lo])
    return prim, seco


def add_nans(rng, pts, prob):
    for p in pts:
        if rng.random() < prob:
            p[2] = p[3] = None


def to_dataset(rng, pts, layout):
    """layout flat: {'layout','pts','labels'}; grid: {'layout','lines': [[t, label, [[id, latk, lonk]...]]]}"""
    if layout == "grid" and len(pts) >= 2:
        n = len(pts)
        w = rng.choice([d for d in (2, 3, 4, 5, 6) if n % d == 0] or [1])
        if w > 1:
            nl = n // w
            labels = rng.sample(range(100, 100 + 3 * nl), nl) if rng.random() < 0.7 else None
            lines = []
            for k in range(nl):
                cells = pts[k * w:(k + 1) * w]
                lines.append([cells[0][1], None if labels is None else labels[k], [[c[0], c[2], c[3]] for c in cells]])
            return {"layout": "grid", "lines": lines}
    # the main dimension with unique labels in arbitrary order, or without a coordinate (positions are the labels)
    labels = rng.sample(range(10, 10 + 3 * len(pts)), len(pts)) if rng.random() < 0.7 else None
    return {"layout": "flat", "pts": [list(p) for p in pts], "labels": labels}


def ds_points(d):
    """all points of a dataset description as [id, t, latk, lonk]"""
    if d["layout"] == "flat":
        return [list(p) for p in d["pts"]]
    return [[c[0], ln[0], c[1], c[2]] for ln in d["lines"] for c in ln[2]]


def shift_dataset(d, dlatk):
    """the same dataset with every latitude moved by dlatk keys"""
    import copy
    e = copy.deepcopy(d)
    if e["layout"] == "flat":
        for p in e["pts"]:
            if p[2] is not None:
                p[2] = clampk(p[2] + dlatk, p[3])[0]
    else:
        for ln in e["lines"]:
            for c in ln[2]:
                if c[1] is not None:
                    c[1] = clampk(c[1] + dlatk, c[2])[0]
    return e


# ----------------------------------------------------------------------------- calls and histories

def gen_tuning(rng):
    return {"bin_factor": rng.choice([1, 1, 2, 3, 5, 0.5]), "magnitude_factor": rng.choice([10, 10, 1, 2, 100]),
            "leaf_size": rng.choice([40, 40, 1, 2, 7, 100]), "seed": rng.randrange(2 ** 31)}


def gen_window(rng, prim, seco, mi_s):
    if rng.random() < 0.65:
        return None, None, "none"
    ts = sorted(p[1] for p in prim + seco)
    lo, hi = ts[0] // SEC, ts[-1] // SEC + 1
    a = rng.randint(lo - 2, hi)
    b = rng.randint(a, hi + 2)
    if rng.random() < 0.3:
        a = rng.choice(ts) // SEC        # a bound exactly on a (whole-second) time or just below a sub-second one
        b = max(b, a)
    if rng.random() < 0.3:
        b = max(a, rng.choice(ts) // SEC)
    return a, b, rng.choice(["datetime", "string"])


def gen_call(rng, big=False, larger=None, quick=False):
    r_km = rng.choice([0.5, 1, 2, 5, 30, 100, 300, 2000]) if not big else rng.choice([3, 5, 8])
    mi_s = rng.choice([1, 2, 10, 60, 600, 3600]) if not big else rng.choice([2, 10, 60])
    if big:
        n1 = rng.choice([1001, 1100, 1500, 2000, 3000]) if not quick else rng.choice([1050, 1101, 1200])
        n2 = rng.choice([1000, 1001, 1200]) if n1 < 2500 else rng.choice([400, 1000])
        if quick:
            n2 = 1000
        if (rng.random() < 0.5) if larger is None else (larger == "secondary"):
            n1, n2 = n2, n1
    else:
        sizes = [1, 1, 2, 3, 5, 8, 12, 13, 20, 36, 60]
        n1, n2 = rng.choice(sizes), rng.choice(sizes)
    prim, seco = gen_points(rng, n1, n2, r_km, mi_s, big)
    if big:
        # a handful of NaN points and (quick: never, thorough: one case in three) a window: the product of the selected,
        # NaN-free points must stay above the threshold of the binned path (measured per run: binned_path_calls)
        for pts in (prim, seco):
            for p in rng.sample(pts, rng.choice([0, 1, 3])):
                p[2] = p[3] = None
        ws, we, wstyle = (None, None, "none") if (quick or rng.random() < 0.67) else gen_window(rng, prim, seco, mi_s)
    else:
        nanp = rng.choice([0, 0, 0.1, 0.3])
        add_nans(rng, prim, nanp)
        add_nans(rng, seco, rng.choice([0, 0, 0.1]))
        ws, we, wstyle = gen_window(rng, prim, seco, mi_s)
    lay = lambda: "grid" if (rng.random() < 0.3 and not big) else "flat"   # noqa
    return {"P": to_dataset(rng, prim, lay()), "S": to_dataset(rng, seco, lay()),
            "dist": gen_dist(rng, r_km), "ivl": gen_ivl(rng, mi_s), "start": ws, "end": we, "wstyle": wstyle,
            **gen_tuning(rng)}


def gen_single00(rng):
    """the pair (first point, first point) is the only collocation"""
    c = gen_call(rng)
    r_km = float(dist_km(c["dist"]))
    mi_s = ivl_ns(c["ivl"]) // SEC
    n1, n2 = rng.choice([1, 2, 3, 6]), rng.choice([1, 2, 4, 6])
    base = gen_centre(rng)
    far = clampk(-base[0] + 3 * 10 ** 8, base[1] + 90 * 10 ** 8)
    prim = [[1000, 3600 * SEC, base[0], base[1]]]
    la, lo = offset_point(rng, base[0], base[1], r_km * 1000 * rng.choice([0.0, 0.3, 0.9]))
    seco = [[5000, 3600 * SEC + rng.choice([0, (mi_s * SEC) // 2]), la, lo]]
    for i in range(1, n1):
        q = offset_point(rng, far[0], far[1], rng.uniform(0, 1000))
        prim.append([1000 + i, 3600 * SEC + rng.randint(1, 5) * SEC, q[0], q[1]])
    for j in range(1, n2):
        q = offset_point(rng, -far[0], far[1] + 40 * 10 ** 8, rng.uniform(0, 1000))
        seco.append([5000 + j, 3600 * SEC + SEC + rng.randint(1, 5) * SEC, q[0], q[1]])
    lay = lambda: "grid" if rng.random() < 0.25 else "flat"   # noqa
    c.update({"P": to_dataset(rng, prim, lay()), "S": to_dataset(rng, seco, lay()), "start": None, "end": None,
              "wstyle": "none"})
    return c


def gen_stale(rng):
    """two calls: the second with one grid moved by less than the np.allclose tolerance, across the threshold"""
    n = rng.choice([3, 6, 10])
    lat0 = rng.uniform(40, 80) * rng.choice([-1, 1])
    r_km = rng.choice([1, 2])
    shift_deg = 0.6e-5 * abs(lat0)                      # < rtol * |lat| of np.allclose
    shift_m = math.radians(shift_deg) * R_EARTH
    d1 = r_km * 1000 + shift_m / 3                      # outside the radius, inside after the move
    latk0 = int(lat0 / KEY)
    dk = int(math.degrees(d1 / R_EARTH) / KEY)
    sgn = 1 if lat0 < 0 else -1                         # partners sit towards the equator; the move is towards the primaries
    prim = [[1000 + i, 3600 * SEC + i * SEC, latk0, int((i * 1.0 - 3) / KEY)] for i in range(n)]
    seco = [[5000 + i, 3600 * SEC + i * SEC, latk0 + sgn * dk, int((i * 1.0 - 3) / KEY)] for i in range(n)]
    P, S = to_dataset(rng, prim, "flat"), to_dataset(rng, seco, "flat")
    S2 = shift_dataset(S, -sgn * int(shift_deg / KEY))
    base = {"dist": gen_dist(rng, r_km), "ivl": gen_ivl(rng, 10), "start": None, "end": None, "wstyle": "none"}
    c1 = {"P": P, "S": S, **base, **gen_tuning(rng)}
    c2 = {"P": P, "S": S2, **base, **gen_tuning(rng)}
    if rng.random() < 0.5:                              # the moved grid as primary (the larger side, hence the build side)
        other = to_dataset(rng, prim[:-1], "flat")
        c1 = dict(c1, P=S, S=other)
        c2 = dict(c2, P=S2, S=other)
    return [c1, c2]


def gen_broadcast(rng):
    """a call with k identical build points, then a call with one point at the same place"""
    k = rng.choice([2, 3, 5])
    base = gen_centre(rng)
    prim = [[1000 + i, 3600 * SEC + i * SEC, base[0], base[1]] for i in range(k)]
    seco = [[5000 + i, 3600 * SEC + i * SEC, base[0], base[1]] for i in range(k)]
    b = {"dist": gen_dist(rng, 1), "ivl": gen_ivl(rng, 10), "start": None, "end": None, "wstyle": "none"}
    c1 = {"P": to_dataset(rng, prim, "flat"), "S": to_dataset(rng, seco, "flat"), **b, **gen_tuning(rng)}
    c2 = {"P": to_dataset(rng, prim[:1], "flat"), "S": to_dataset(rng, seco[:1], "flat"), **b, **gen_tuning(rng)}
    return [c1, c2]


def gen_edges(rng):
    """every primary sits EXACTLY on an edge of the coordinate ranges (longitude +180 / -180, a pole, the equator, the
    Greenwich meridian) and has a partner within distance and interval; both orders of the datasets"""
    c = gen_call(rng)
    r_km = float(dist_km(c["dist"]))
    mi_s = ivl_ns(c["ivl"]) // SEC
    K8 = 10 ** 8
    spots = [(rng.uniform(-70, 70), 180.0), (rng.uniform(-70, 70), -180.0), (90.0, rng.uniform(-179, 179)),
             (-90.0, rng.uniform(-179, 179)), (0.0, 0.0), (0.0, rng.uniform(-179, 179)), (rng.uniform(-70, 70), 0.0),
             (rng.uniform(-70, 70), 180.0)]
    rng.shuffle(spots)
    spots = spots[:rng.choice([1, 2, 4, 8])]
    prim, seco = [], []
    for i, (la, lo) in enumerate(spots):
        latk, lonk = int(round(la / KEY)) if la not in (90.0, -90.0, 0.0) else int(la) * K8, \
            int(round(lo / KEY)) if lo not in (180.0, -180.0, 0.0) else int(lo) * K8
        t = 3600 * SEC + i * 5 * mi_s * SEC
        prim.append([1000 + i, t, latk, lonk])
        q = offset_point(rng, latk, lonk, r_km * 1000 * rng.choice([0.0, 0.3, 0.9]))
        seco.append([5000 + i, t + rng.choice([0, (mi_s * SEC) // 2]), q[0], q[1]])
    if rng.random() < 0.5:
        prim, seco = seco, prim
        for p in prim:
            p[0] = p[0] - 4000
        for q in seco:
            q[0] = q[0] + 4000
    c.update({"P": to_dataset(rng, prim, "flat"), "S": to_dataset(rng, seco, "flat"), "start": None, "end": None,
              "wstyle": "none"})
    return c


def gen_zero(rng, k):
    """thresholds that are exactly zero: max_distance = 0 keeps the pairs at identical positions (stations, identical grids),
    max_interval = 0 keeps nothing (the time difference must be SMALLER than max_interval)"""
    a = clampk(rng.uniform(-60, 60) / KEY, rng.uniform(-170, 170) / KEY)
    off = lambda d: clampk(a[0] + d, a[1] + 2 * d)                                   # noqa  (d in 1e-8 degrees)
    ppos = [a, a, a, off(40000), off(90000), off(-70000)]
    spos = [a, a, off(40000), off(40000), off(15000), off(-70001)]
    prim = [[1000 + i, 3600 * SEC + i * SEC, ppos[i][0], ppos[i][1]] for i in range(6)]
    seco = [[5000 + i, 3600 * SEC + (i + (0, 2, 0, 1, 0, 3)[i]) * SEC, spos[i][0], spos[i][1]] for i in range(6)]
    P, S = to_dataset(rng, prim, "flat"), to_dataset(rng, seco, "flat")
    b = {"start": None, "end": None, "wstyle": "none"}
    # zero only as a number: to_kilometers rejects the strings '0 km' / '0 m' on purpose (a string without a readable
    # number also parses to 0), which is a documented validation and not part of this property
    zero_d = [[0, None], [0.0, None]][k % 2]
    zero_i = [[0, None], [0, "float"], [0, "timedelta"], [0, "s"]][(k // 2) % 4]
    calls = [{"P": P, "S": S, "dist": zero_d, "ivl": gen_ivl(rng, 10), **b, **gen_tuning(rng)},
             {"P": P, "S": S, "dist": gen_dist(rng, 5), "ivl": zero_i, **b, **gen_tuning(rng)},
             {"P": S, "S": P, "dist": zero_d, "ivl": gen_ivl(rng, 2), **b, **gen_tuning(rng)},
             {"P": P, "S": S, "dist": zero_d, "ivl": zero_i, **b, **gen_tuning(rng)},
             {"P": P, "S": S, "dist": gen_dist(rng, 5), "ivl": gen_ivl(rng, 10), **b, **gen_tuning(rng)},
             {"P": P, "S": S, "dist": [[3.1, "miles"], [3.1, "mi"], [16400.0, "ft"], [5468.0, "yards"]][k % 4], "ivl": gen_ivl(rng, 10), **b,
              **gen_tuning(rng)}]
    return calls


def gen_lopsided(rng, k):
    """one Collocator: an index is built on the larger side, the next call hits the cache, then a LOPSIDED call (size ratio
    above magnitude_factor) whose large side is another dataset, then the same with the roles swapped -- every call must
    answer for its own data, whatever tree an earlier call left behind"""
    c0 = clampk(rng.uniform(-60, 60) / KEY, rng.uniform(-170, 170) / KEY)

    def cloud(n, id0, spread=2000000):
        return [[id0 + i, 3600 * SEC + i * SEC, c0[0] + rng.randint(-spread, spread), c0[1] + rng.randint(-spread, spread)]
                for i in range(n)]
    A, B, B2, small, C = cloud(20, 1000), cloud(18, 5000), cloud(15, 5100), cloud(3, 1200), cloud(60 + 10 * (k % 3), 5300)
    b = {"dist": gen_dist(rng, 2), "ivl": gen_ivl(rng, 100), "start": None, "end": None, "wstyle": "none"}
    ds = {n_: to_dataset(rng, pts, "flat") for n_, pts in (("A", A), ("B", B), ("B2", B2), ("s", small), ("C", C))}
    order = [("A", "B"), ("A", "B2"), ("s", "C"), ("C", "s"), ("A", "B")] if k % 2 == 0 else \
        [("B", "A"), ("B2", "A"), ("C", "s"), ("s", "C"), ("B", "A")]
    return [{"P": ds[p_], "S": ds[s_], **b, **dict(gen_tuning(rng), magnitude_factor=10)} for p_, s_ in order]


def gen_case(rng, k, big=False, quick=False):
    if not big and k % 16 == 9:                           # directed, whatever the seed
        return {"id": k, "kind": "lopsided", "calls": gen_lopsided(rng, k // 16)}
    if not big and k % 16 == 5:                           # directed, whatever the seed
        return {"id": k, "kind": "zero", "calls": gen_zero(rng, k // 16)}
    if big:
        # both size orderings (the binned path swaps the datasets when the secondary is the larger one)
        call = gen_call(rng, big=True, larger=("primary", "secondary")[k % 2], quick=quick)
        # the binned path with every kind of bin width whatever the seed: wider than, equal to and narrower than max_interval
        call["bin_factor"] = [2, 0.5, 3, 1, 5, 2][k % 6]
        return {"id": k, "kind": "big", "calls": [call]}
    style = rng.random()
    if style < 0.10:
        return {"id": k, "kind": "stale", "calls": gen_stale(rng)}
    if style < 0.15:
        return {"id": k, "kind": "broadcast", "calls": gen_broadcast(rng)}
    if style < 0.22:
        return {"id": k, "kind": "edges", "calls": [gen_edges(rng)]}
    if style < 0.34:
        calls = [gen_single00(rng)]
        if rng.random() < 0.5:
            calls.insert(0, gen_call(rng))
        return {"id": k, "kind": "single00", "calls": calls}
    calls = [gen_call(rng)]
    for _ in range(rng.choice([0, 0, 1, 2, 3, 4])):
        prev = calls[-1]
        h = rng.random()
        if h < 0.3:                                       # the same data again, other thresholds / tuning
            c = gen_call(rng)
            nxt = dict(prev, **gen_tuning(rng))
            if rng.random() < 0.5:
                nxt["dist"], nxt["ivl"] = c["dist"], c["ivl"]
        elif h < 0.55:                                    # primary and secondary swapped
            nxt = dict(prev, P=prev["S"], S=prev["P"], **gen_tuning(rng))
        elif h < 0.75:                                    # one grid moved a little (within np.allclose tolerance)
            side = rng.choice(["P", "S"])
            pts = [p for p in ds_points(prev[side]) if p[2] is not None]
            lat = min((abs(p[2]) for p in pts), default=0) * KEY
            nxt = dict(prev, **gen_tuning(rng))
            nxt[side] = shift_dataset(prev[side], rng.choice([-1, 1]) * int(0.5e-5 * lat / KEY))
        else:
            nxt = gen_call(rng)
        calls.append(nxt)
    return {"id": k, "kind": "history", "calls": calls}


# ----------------------------------------------------------------------------- running the real code

def build_xr(d):
    import xarray as xr
    ds = xr.Dataset()

    def coord(k, nan_kind):
        return np.nan if k is None else k * KEY
    if d["layout"] == "flat":
        pts = d["pts"]
        ds["time"] = ("obs", EPOCH + np.array([p[1] for p in pts], dtype="int64").astype("m8[ns]"))
        ds["lat"] = ("obs", np.array([coord(p[2], 0) for p in pts], dtype=float))
        ds["lon"] = ("obs", np.array([coord(p[3], 1) if not (p[2] is None and p[0] % 2) else 10.0 for p in pts], dtype=float))
        # NaN points: both coordinates NaN for even ids, only the latitude for odd ids
        ds["id"] = ("obs", np.array([p[0] for p in pts], dtype="int64"))
        if d["labels"] is not None:
            ds["obs"] = ("obs", np.array(d["labels"], dtype="int64"))
    else:
        lines = d["lines"]
        ds["time"] = ("scnline", EPOCH + np.array([ln[0] for ln in lines], dtype="int64").astype("m8[ns]"))
        ds["lat"] = (("scnline", "scnpos"), np.array([[coord(c[1], 0) for c in ln[2]] for ln in lines], dtype=float))
        ds["lon"] = (("scnline", "scnpos"), np.array([[coord(c[2], 1) if not (c[1] is None and c[0] % 2) else 10.0
                                                        for c in ln[2]] for ln in lines], dtype=float))
        ds["id"] = (("scnline", "scnpos"), np.array([[c[0] for c in ln[2]] for ln in lines], dtype="int64"))
        if lines[0][1] is not None:
            ds["scnline"] = ("scnline", np.array([ln[1] for ln in lines], dtype="int64"))
    return ds


def window_arg(sec, style):
    if sec is None:
        return None
    t = EPOCH_PY + dt.timedelta(seconds=sec)
    return t if style == "datetime" else t.strftime("%Y-%m-%d %H:%M:%S")


def call_kwargs(c):
    return {"max_interval": ivl_arg(c["ivl"]), "max_distance": dist_arg(c["dist"]), "bin_factor": c["bin_factor"],
            "magnitude_factor": c["magnitude_factor"], "leaf_size": c["leaf_size"],
            "start": window_arg(c["start"], c["wstyle"]), "end": window_arg(c["end"], c["wstyle"])}


def run_call_full(col, c):
    """-> (None | 'ERR:...' | sorted list of [idp, ids, interval_ns, distance_km],
           None | the compact output as returned: {'prow', 'srow', 'pids', 'sids'} (pairs rows, stored ids))"""
    P, S = build_xr(c["P"]), build_xr(c["S"])
    try:
        with warnings.catch_warnings():
            warnings.simplefilter("ignore")
            np.random.seed(c["seed"])
            r = col.collocate(P, S, **call_kwargs(c))
        if r is None:
            return None, None
        pairs = np.asarray(r["Collocations/pairs"].values).astype(int)
        pids = np.asarray(r["primary/id"].values)
        sids = np.asarray(r["secondary/id"].values)
        comp = {"prow": [int(x) for x in pairs[0]], "srow": [int(x) for x in pairs[1]],
                "pids": [int(x) for x in pids], "sids": [int(x) for x in sids]}
        if pairs.size and (pairs.min() < 0 or pairs[0].max() >= len(pids) or pairs[1].max() >= len(sids)):
            return (f"ERR:PairsOutOfRange: Collocations/pairs names point {int(pairs[0].max()), int(pairs[1].max())} "
                    f"(min {int(pairs.min())}) of {len(pids)} x {len(sids)} stored points"), comp
        idp = pids[pairs[0]]
        ids = sids[pairs[1]]
        iv = np.asarray(r["Collocations/interval"].values)
        iv = iv.astype("m8[ns]").astype("int64")
        dk = np.asarray(r["Collocations/distance"].values, dtype=float)
        if not (len(idp) == len(ids) == len(iv) == len(dk)):
            return f"ERR:Shape: pairs {pairs.shape}, interval {iv.shape}, distance {dk.shape}", comp
        comp["iv"], comp["dk"] = [int(v) for v in iv], [float(x) for x in dk]
        return sorted([int(a), int(b), int(v), float(x)] for a, b, v, x in zip(idp, ids, iv, dk)), comp
    except Exception as e:  # noqa
        return f"ERR:{type(e).__name__}: {str(e)[:120]}", None


def run_call(col, c):
    return run_call_full(col, c)[0]


BINNED_CALLS = [0]


def make_collocator():
    """a Collocator that counts its calls of the temporally pre-binned search (nothing else is changed)"""
    from typhon.collocations import Collocator

    class Counting(Collocator):
        def spatial_search_with_temporal_binning(self, *a, **k):
            BINNED_CALLS[0] += 1
            return super().spatial_search_with_temporal_binning(*a, **k)
    return Counting()


def run_history_impl(case):
    """-> (rows per call, compact output per call)"""
    col = make_collocator()
    out, comps = [], []
    for c in case["calls"]:
        rows, comp = run_call_full(col, c)
        out.append(rows)
        comps.append(comp)
    return out, comps


def run_fresh(c):
    from typhon.collocations import Collocator
    return run_call(Collocator(), c)          # not counted


# ----------------------------------------------------------------------------- oracle

def cart(pts):
    """long-double cartesian coordinates [m] of the doubles handed to typhon; NaN rows for NaN points"""
    lat = np.array([np.nan if p[2] is None else p[2] * KEY for p in pts], dtype=float).astype(LD)
    lon = np.array([np.nan if p[3] is None else p[3] * KEY for p in pts], dtype=float).astype(LD)
    pi = LD(4) * np.arctan(LD(1))
    la, lo = lat * pi / LD(180), lon * pi / LD(180)
    R = LD(R_EARTH)
    return np.stack([R * np.cos(la) * np.cos(lo), R * np.cos(la) * np.sin(lo), R * np.sin(la)], axis=1)


def unit_nm(calls):
    """length unit [nm] of the integer coordinates of one history: radius / unit < 2^29 for every call"""
    rmax = max(int(round(dist_km(c["dist"]) * 10 ** 12)) for c in calls)
    return max(1, -(-rmax // 2 ** 29))


def oracle_call(c, u):
    """-> dict: points, long-double cartesian coordinates, boundary id pairs, radius in units"""
    pp_, sp_ = ds_points(c["P"]), ds_points(c["S"])
    A, B = cart(pp_), cart(sp_)
    r_m = LD(float(dist_km(c["dist"]) * 1000))
    # guard band: float rounding of the implementation (1e-9 m) and the resolution of the integer coordinates
    band = LD(1e-4) + LD(1e-8) * r_m + LD(4e-9) * LD(u)
    boundary = set()
    okA = np.array([p[2] is not None for p in pp_])
    okB = np.array([p[2] is not None for p in sp_])
    idsB = np.array([p[0] for p in sp_])
    chunk = max(1, 400000 // max(1, len(sp_)))
    for a0 in range(0, len(pp_), chunk):
        sub = A[a0:a0 + chunk]
        d2 = np.zeros((len(sub), len(sp_)), dtype=LD)
        for k in range(3):
            d2 += (sub[:, k][:, None] - B[:, k][None, :]) ** 2
        d = np.sqrt(d2)
        near_band = (np.abs(d - r_m) <= band) & okA[a0:a0 + chunk][:, None] & okB[None, :]
        for i, j in zip(*np.nonzero(near_band)):
            boundary.add((pp_[a0 + i][0], int(idsB[j])))
    r_nm = int(round(dist_km(c["dist"]) * 10 ** 12))
    r2 = (r_nm * r_nm) // (u * u)
    return {"P": pp_, "S": sp_, "A": A, "B": B, "boundary": boundary, "u": u, "r2": r2, "rm": math.isqrt(r2) + 1}


def chord_km(o, idp, ids):
    i = next(k for k, p in enumerate(o["P"]) if p[0] == idp)
    j = next(k for k, p in enumerate(o["S"]) if p[0] == ids)
    return float(np.sqrt(((o["A"][i] - o["B"][j]) ** 2).sum()) / LD(1000))


# ----------------------------------------------------------------------------- Coq expressions

def zl(n):
    n = int(n)
    return f"({n})%Z"


COFF = 2 ** 60


def nm(x, u):
    return str(int(np.rint(x * LD(1e9) / LD(u))) + COFF)


def pt_lit(p, xyz, u, grid=False):
    if p[2] is None:
        return f"gn {p[0]}" if grid else f"pn {p[0]} {p[1]}"
    body = f"{p[2] + OFF} {p[3] + OFF} {nm(xyz[0], u)} {nm(xyz[1], u)} {nm(xyz[2], u)}"
    return f"gp {p[0]} {body}" if grid else f"pp {p[0]} {p[1]} {body}"


def ds_lit(d, xyz, u):
    if d["layout"] == "flat":
        return "(Flat [" + "; ".join(pt_lit(p, xyz[k], u) for k, p in enumerate(d["pts"])) + "])"
    out, k = [], 0
    for ln in d["lines"]:
        cells = []
        for c in ln[2]:
            cells.append(pt_lit([c[0], ln[0], c[1], c[2]], xyz[k], u, grid=True))
            k += 1
        out.append(f"gl {ln[0]} [" + "; ".join(cells) + "]")
    return "(Grid [" + "; ".join(out) + "])"


def call_lit(c, o):
    mi = ivl_ns(c["ivl"])
    w = Fraction(str(c["bin_factor"])) * mi
    assert w.denominator == 1
    ts = [p[1] for p in o["P"]] + [p[1] for p in o["S"]]
    origin = (min(ts) // (86400 * SEC)) * 86400 * SEC           # pandas origin='start_day'; any origin gives the same set
    ws = NS_MIN if c["start"] is None else c["start"] * SEC
    we = NS_MAX if c["end"] is None else c["end"] * SEC
    assert o["rm"] < 2 ** 30
    return (f"mk_call {o['rm']} {o['r2']} {zl(int(w))} {zl(origin)} {zl(c['magnitude_factor'])} {zl(THRESHOLD)} {zl(mi)} {zl(ws)} {zl(we)} "
            f"{ds_lit(c['P'], o['A'], o['u'])} {ds_lit(c['S'], o['B'], o['u'])}")


def case_expr(case, oracles):
    return "run_history [" + "; ".join(call_lit(c, o) for c, o in zip(case["calls"], oracles)) + "]"


# ----------------------------------------------------------------------------- check

def layout_name(d):
    lab = d["labels"] is not None if d["layout"] == "flat" else d["lines"][0][1] is not None
    return d["layout"] + ("" if lab else "-unlabelled")


def slim_call(c):
    d = {k: c[k] for k in c if k not in ("P", "S")}
    d["n_primary"], d["n_secondary"] = len(ds_points(c["P"])), len(ds_points(c["S"]))
    d["layouts"] = [layout_name(c["P"]), layout_name(c["S"])]
    return d


def describe(c):
    return (f"collocate({len(ds_points(c['P']))} {layout_name(c['P'])} x {len(ds_points(c['S']))} {layout_name(c['S'])} points, "
            f"max_interval={ivl_arg(c['ivl'])!r}, max_distance={dist_arg(c['dist'])!r}, bin_factor={c['bin_factor']}, "
            f"magnitude_factor={c['magnitude_factor']}, leaf_size={c['leaf_size']}, start={window_arg(c['start'], c['wstyle'])!r}, "
            f"end={window_arg(c['end'], c['wstyle'])!r})")


def ids_distinct(o):
    """hypothesis of each_pair_once / checker_accepts_model: the ids are distinct within each dataset"""
    return len({p[0] for p in o["P"]}) == len(o["P"]) and len({p[0] for p in o["S"]}) == len(o["S"])


def judge_call(c, o, impl, spec_ids, model_rows=None):
    """-> list of (signature, text, kind) problems of one call against the specification.
    model_rows: {(idp, ids): (interval [s], chord^2 [units^2])} as evaluated by the model inside Coq (None: the
    clauses about the stored values fall back to the harness's own arithmetic)"""
    FI = "failing-input"
    probs = []
    spec = set(map(tuple, spec_ids))
    bnd = o["boundary"]
    if isinstance(impl, str):
        return [("error:" + impl.split(":")[1].strip(), f"raised {impl[4:]} (expected {len(spec)} pairs)", FI)]
    if impl is None:
        need = spec - bnd
        if need:
            one = len(spec) == 1
            return [("none-but-pairs" + ("-single" if one else ""),
                     f"returned None but {len(spec)} pair(s) are within distance and interval, e.g. ids {sorted(need)[:3]}", FI)]
        return []
    got = [(a, b) for a, b, _, _ in impl]
    gs = set(got)
    if len(gs) != len(got):
        # each_pair_once: a failing input under its hypothesis (distinct ids), else only a difference to the model
        seen, dup = set(), set()
        for x in got:
            (dup if x in seen else seen).add(x)
        probs.append(("pair-duplicated", f"reports pair(s) {sorted(dup)[:3]} more than once ({len(got) - len(gs)} surplus rows; "
                      "theorem each_pair_once)", FI if ids_distinct(o) else "correspondence"))
    if not got:
        probs.append(("empty-not-none", "returned a dataset without pairs instead of None", FI))
    missing, extra = spec - gs - bnd, gs - spec - bnd
    if missing:
        probs.append(("pairs-missing", f"misses {len(missing)} of {len(spec)} pairs within distance and interval, e.g. ids {sorted(missing)[:3]}", FI))
    if extra:
        probs.append(("pairs-extra", f"reports {len(extra)} pair(s) that are not within distance/interval/window, e.g. ids {sorted(extra)[:3]}", FI))
    if missing or extra:
        return probs
    # values_are_of_the_pair: the row of the model for the same id pair (proved: |dt| in whole seconds and the chord of
    # exactly these two points); pairs inside the guard band that the model does not report use the harness's arithmetic
    tp = {p[0]: p[1] for p in o["P"]}
    ts = {p[0]: p[1] for p in o["S"]}
    mrows = model_rows or {}
    u_km = o["u"] * 1e-12
    iv_bad = d_bad = None
    for a, b, iv, dk in impl:
        want = (abs(tp[a] - ts[b]) // SEC) * SEC
        m = mrows.get((a, b))
        if m is not None and m[0] * SEC != want:
            probs.append(("model-interval", f"pair {a, b}: the model stores {m[0]} s, |dt| is {abs(tp[a] - ts[b]) / SEC} s "
                          "(cannot happen while values_are_of_the_pair stands)", "proof"))
            break
        if iv != want and iv_bad is None:
            iv_bad = ("interval-value", f"pair {a, b}: stored interval {iv / SEC} s, actual |dt| = {abs(tp[a] - ts[b]) / SEC} s "
                      "in whole seconds " + ("(the model's row: %d s; theorem values_are_of_the_pair)" % m[0] if m is not None else ""), FI)
        if m is not None and d_bad is None:
            d = math.sqrt(m[1]) * u_km
            # integer coordinates: each rounded to the unit -> chord within sqrt(3) units; float chord of the implementation
            if not abs(dk - d) <= 1e-9 + 1e-9 * d + 2.0 * u_km:
                d_bad = ("distance-value", f"pair {a, b}: stored distance {dk!r} km, the distance of exactly this pair is {d!r} km "
                         "(the model's row; theorem values_are_of_the_pair)", FI)
    if iv_bad:
        probs.append(iv_bad)
    if d_bad:
        probs.append(d_bad)
    else:
        for a, b, iv, dk in impl[:400]:
            d = chord_km(o, a, b)
            # chord from double cartesian coordinates: absolute error of a few ulp of the earth radius (1e-9 m)
            if not abs(dk - d) <= 1e-9 + 1e-9 * d:
                probs.append(("distance-value", f"pair {a, b}: stored distance {dk!r} km, straight-line distance {d!r} km", FI))
                break
    return probs


CHK_PREAMBLE = "From Typhon Require Import Model.C04_collocate.\n"


def chk_expr(comp):
    return (f"check_output {core.zlist(comp['prow'])} {core.zlist(comp['srow'])} "
            f"{core.zlist(comp['pids'])} {core.zlist(comp['sids'])}")


def check_cases(ctx, cases, stats, shard=8):
    import time
    t0 = time.time()
    oracles = [[oracle_call(c, unit_nm(case["calls"])) for c in case["calls"]] for case in cases]
    exprs = [case_expr(case, os_) for case, os_ in zip(cases, oracles)]
    t1 = time.time()
    # the real code first: what it returns (pairs rows, stored ids) goes through the certified checker inside Coq
    b0 = BINNED_CALLS[0]
    impls = [run_history_impl(case) for case in cases]
    stats["binned_calls"] += BINNED_CALLS[0] - b0           # measured: calls that took the temporally pre-binned path
    t2 = time.time()
    big = "big" if cases and cases[0]["kind"] == "big" else ""
    vals, log = core.coq_eval(ctx.work / "cases", "hist" + big, PREAMBLE, exprs, shard=shard, timeout=900)
    if log:
        ctx.log(log[-1500:])
    where = [(i, k) for i, (_, comps) in enumerate(impls) for k, comp in enumerate(comps) if comp is not None]
    cvals, clog = core.coq_eval(ctx.work / "cases", "chk" + big, CHK_PREAMBLE,
                                [chk_expr(impls[i][1][k]) for i, k in where], shard=max(8, shard * 4), timeout=900)
    if clog:
        ctx.log(clog[-1500:])
    verdicts = dict(zip(where, cvals))
    ctx.log(f"{len(cases)} histories: oracle+literals {t1 - t0:.1f}s, implementation {t2 - t1:.1f}s, "
            f"Coq evaluation {time.time() - t2:.1f}s ({len(where)} outputs through check_output)")
    for i, (case, os_, v) in enumerate(zip(cases, oracles, vals)):
        impl, comps = impls[i]
        slim = {"id": case["id"], "kind": case["kind"], "calls": [slim_call(c) for c in case["calls"]]}
        if v is None:
            ctx.cov["evaluations"] += len(case["calls"])
            ctx.fail("correspondence", "Coq evaluation of the model failed", case=case, signature="coq-eval")
            continue
        for k, (c, o, got) in enumerate(zip(case["calls"], os_, impl)):
            ctx.cov["evaluations"] += 1
            model_q, spec_ids = v[k]
            model_ids = sorted((a, b) for a, b, _, _ in model_q)
            spec_sorted = sorted(map(tuple, spec_ids))
            if model_ids != spec_sorted:
                ctx.fail("proof", f"model and specification disagree inside Coq on call {k} (cannot happen while the theorems stand): "
                         f"model {model_ids[:5]}, spec {spec_sorted[:5]}", case=case, signature="model-vs-spec")
            model_rows = {(a, b): (iv, d2) for a, b, iv, d2 in model_q}
            if len(model_rows) != len(model_q) and ids_distinct(o):
                ctx.fail("proof", f"the model reports a pair twice on call {k} (cannot happen while each_pair_once stands)",
                         case=case, signature="model-pair-twice")
            # compaction_consistent: the output as returned, through check_output (checker_sound / checker_accepts_model)
            comp = comps[k]
            if comp is not None:
                stats["outputs_checked"] += 1
                cv = verdicts.get((i, k))
                if cv is None:
                    ctx.fail("correspondence", f"Coq evaluation of check_output failed on call {k}", case=case, signature="coq-eval-check")
                else:
                    valid, once, exp = cv
                    exp = [tuple(x) for x in exp]
                    if isinstance(got, list):
                        # the id pairs of the rows are those Coq expands from the returned arrays
                        rows = sorted([a, b, iv_, dk_] for (a, b), iv_, dk_ in zip(exp, comp["iv"], comp["dk"]))
                        if len(exp) != len(comp["iv"]) or rows != got:
                            ctx.fail("correspondence", f"call {k}: expansion of Collocations/pairs inside Coq differs from the harness's "
                                     f"own: {rows[:3]} vs {got[:3]}", case=case, signature="expansion-differs")
                        else:
                            got = rows
                    if not valid and isinstance(got, list):
                        ctx.fail("correspondence", f"{describe(c)}: the compact output is not valid (a stored point without pair, "
                                 f"or rows of different length): {len(comp['pids'])} x {len(comp['sids'])} stored points, rows "
                                 f"{comp['prow'][:8]} / {comp['srow'][:8]} (theorem compaction_consistent: every output of the "
                                 "model is compact_ok)", case=case, impl={x: comp[x][:20] for x in ("prow", "srow", "pids", "sids")},
                                 signature="compact-invalid")
                    if not once and ids_distinct(o):
                        ctx.fail("correspondence", f"{describe(c)}: a point is stored twice in a group of the output (stored ids "
                                 f"{comp['pids'][:8]} / {comp['sids'][:8]}; theorem stored_points_once)", case=case,
                                 impl={x: comp[x][:20] for x in ("prow", "srow", "pids", "sids")}, signature="stored-twice")
            probs = judge_call(c, o, got, spec_ids, model_rows)
            stats["calls"] += 1
            n1, n2 = len(o["P"]), len(o["S"])
            if spec_sorted and len(spec_sorted) < n1 * n2:
                stats["nontrivial"].add((case["id"], k))
            if len(spec_sorted) == 1 and k == len(case["calls"]) - 1 and case["kind"] == "single00":
                stats["single00"] += 1
            if k > 0:
                stats["with_history"] += 1
            if isinstance(got, list):
                stats["rows_checked"] += len(got)
            if not probs:
                continue
            hist = ""
            sigp = ""
            if k > 0:
                fresh = run_fresh(c)
                if not judge_call(c, o, fresh, spec_ids, model_rows):
                    sigp = "reused-collocator:"
                    hist = (f" after {k} earlier call(s) on the same Collocator (a fresh Collocator answers correctly: "
                            f"{'None' if fresh is None else str(len(fresh)) + ' pairs'})")
            for sig, text, kind in probs:
                ctx.fail(kind, f"{describe(c)} {text}{hist}", case=case,
                         impl=got if not isinstance(got, list) else got[:20], model=spec_sorted[:20],
                         signature=sigp + sig)
        if case["id"] % 9 == 0:
            ctx.sample({"history": slim, "expected_pairs_per_call": [len(x[1]) for x in v]}, limit=6)


def new_stats():
    return {"calls": 0, "binned_calls": 0, "with_history": 0, "single00": 0, "nontrivial": set(),
            "outputs_checked": 0, "rows_checked": 0}


def run(ctx):
    ctx.prove("Props/C04.v")
    n_small = ctx.n(70, 900)
    n_big = ctx.n(2, 6)
    stats = new_stats()
    cases = [gen_case(ctx.rng, k) for k in range(n_small)]
    bigs = [gen_case(ctx.rng, 100000 + k, big=True, quick=not ctx.thorough) for k in range(n_big)]
    check_cases(ctx, cases, stats, shard=ctx.n(5, 20))
    check_cases(ctx, bigs, stats, shard=1)
    ctx.log(f"calls on the temporally pre-binned path (counted inside the Collocator): {stats['binned_calls']} of {len(bigs)} big cases")
    ctx.cov["distinct_nontrivial"] = len(stats["nontrivial"])
    ctx.cov["rule"] = ("a call of Collocator.collocate inside a generated history (1-5 calls on one object) is non-trivial when the "
                       "expected pair set is non-empty and smaller than the full product of the two point sets; distinct by "
                       "(history, position in the history)")
    kinds = {}
    for c in cases + bigs:
        kinds[c["kind"]] = kinds.get(c["kind"], 0) + 1
    ctx.cov["input_distribution"] = {
        "histories": len(cases) + len(bigs), "kinds": kinds, "calls": stats["calls"],
        "calls_on_binned_path(measured, >1e6 candidate pairs after selection and NaN filter)": stats["binned_calls"], "calls_with_history": stats["with_history"],
        "single_pair_first_first_cases": stats["single00"],
        "outputs_through_check_output": stats["outputs_checked"],
        "rows_compared_with_the_model(interval, distance)": stats["rows_checked"],
    }
    ctx.assumptions += [
        "both thresholds are given and max_interval is a whole number of seconds (hypothesis whole_seconds of pairs_exact; "
        "true for every generated call)",
        "`near` = chord <= max_distance, chord from long-double cartesian coordinates of the doubles handed to typhon, "
        "earth radius 6.3781e6 m; pairs within 1e-4 m + 1e-9 r of the threshold are accepted either way",
        "ids are unique within a dataset (hypothesis of each_pair_once / stored_points_once; re-checked per call); the main "
        "dimension carries unique labels",
        "distance of a pair: the model's exact integer chord^2 of the two points (coordinates rounded to the length unit u of "
        "the history, <= 3.8 mm at 2000 km radius, 1 nm below 500 km) within 1e-9 km + 1e-9 rel + 2 u, and the long-double chord "
        "within 1e-9 km + 1e-9 rel for the first 400 rows",
    ]
    return ctx.finish(trusted_base=TRUSTED)


def replay(ctx, rec):
    case = rec["case"]
    check_cases(ctx, [case], new_stats(), shard=1)
    for f in ctx.failures:
        print("still fails:", f.what[:400])
    return 1 if ctx.failures else 0
