"""C13 -- compact collocation data stay consistent under expand, collapse and concat.

Theorems: coq/theories/Props/C13.v about the model coq/theories/Model/C13_compact.v (compaction of
Collocator._create_return, _rows_for_secondaries, the NaN-padded bin matrix of collapse, expand,
concat_collocations): the model meets the brute-force specification for every compact dataset.

Tie: the real typhon.collocations.expand / collapse, collocator.concat_collocations and
Collocator.collocate are run on generated compact datasets; the model and the specification are evaluated
on the same pair lists inside Coq (vm_compute) and return *positions* (which stored point sits in which
expanded row / which bin).  The harness compares
  * exactly: the id rows of expand, the content of the bin matrix (seen through a custom collapser, one of
    the quantified inputs) and the values carried by every variable of every row,
  * numerically: <var>_mean/_std/_number against long-double statistics over the partner values Coq names
    (absolute tolerance 1e-9 * max(1, |values|)); NaN-ness must agree exactly,
  * exactly again: <var>_number and the NaN-ness of <var>_mean/_std against the counts Coq computes from the validity
    flags of the data (run_collapse_m: through the model's bin matrix and through the partner lists; theorems
    collapse_mean_std_number, collapse_nan_iff_all_partners_nan, collapse_number_by_mask), the names of the output
    fields of every call against collapser_names (theorem collapse_call_independent: mean, std, number plus the
    call's own custom names), a custom `std` replacing only std (collapse_custom_keeps_defaults), and the statistics
    of the same dataset with its pair list rearranged (collapse_pair_order_invariant: number and NaN-ness exactly,
    mean/std within the tolerance),
  * exactly: custom collapser functions that return a VIEW of the matrix they are handed (m[0] = first partner in pair
    order, m[-1], m[height // 2]) for five variables per group, among them two scalar ones and two of one and the same
    extra-dimension shape, in the first call and again later in the call history: every <var>_<function> holds the
    values of its OWN variable at the partner that theorem collapse_slot_function / collapse_last_slot_function names
    (collapse_custom_function: the value depends on the variable's own column only),
  * results of Collocator.collocate that are SPARSE and UNORDERED (a long track of 300-3000 points, flat or gridded,
    primary or secondary, of which a handful of points collocate with stations met in non-ascending order along the
    track): directed cases that do not depend on the seed and random ones; the certified tests of check_compaction
    (theorems compaction_check_sound, compact_is_consistent: valid indices, every stored point in a pair, every pair
    still names its original point, every collocated point stored once) and expand = the pairs of a brute-force
    search carrying the original data.
  * CONCATENATED results of Collocator.collocate (directed, seed-independent: two and three dense results with 120-200
    stored points per group each, so that the running total of stored points passes 255 while every part stays below
    256; one case passing 65535): expand(concat_collocations(parts)) = expand(part 1) ++ expand(part 2) ++ ... row by
    row and variable by variable, the concatenation holds valid indices and every stored point takes part in a pair
    (compact_okb on the real pair rows).  The model's indices are unbounded naturals (theorems concat_width_is_mod,
    concat_fits_width_iff: arithmetic in an integer type of W values is harmless exactly when the running totals fit);
    the machine integer width of Collocations/pairs is covered by these cases, its dtype is recorded (pairs_dtype),
  * every third dataset carries a variable p = offset + spread * noise with |offset| / spread in {1e5, 1e7, 1e9}
    (pressure 101325 Pa, epoch-like -1.6e9 s, 250 K), incl. plateaus and constant data (bins whose values are all equal:
    std exactly 0): <var>_mean / <var>_std against long-double statistics of the float64 values handed over, with the
    error bound of the two-pass algorithm as tolerance (see HC_* below),
Only what the property fixes is compared: rows are matched through the per-pair tag and the id variables,
not by position, and the stored order of the compaction is not compared (only the certified invariant).
Because the model provably equals the specification whenever the pair rows satisfy the invariant
(compact_ok, decided by the certified checker compact_okb), every disagreement on such an input is a
failing input of the property.
"""
import json
import warnings

import numpy as np

from lib import core
from lib.core import zlit, zlist, coq_list, coq_bool

PREAMBLE = "From Typhon Require Import Model.C13_compact.\n"
TRUSTED = [
    "correspondence harness tools/props/c13.py (dataset generators, id/tag decoding, long-double reference statistics, tolerance 1e-9)",
    "xarray positional selection (isel), swap_dims/rename, concat/merge and numpy fancy assignment: exercised by the correspondence, modelled as list operations",
    "numpy nanmean/nanstd/count_nonzero: modelled as real-valued functions on option R (Model/C13_stats.v); the floating-point "
    "values are compared numerically with long-double statistics over the partner values named by Coq, the counts and the "
    "NaN-ness exactly with what Coq computes from the validity flags of the data",
    "row assignment: numba is not installed here, so both size classes (< 1000 and >= 1000 pairs) run the pure-Python _rows_for_secondaries; the numba variant is numba.jit of the same function and is not exercised",
    "Collocator.collocate: the pair search itself is C04's business; here only the compaction of the raw pairs it found (read by wrapping _create_return from outside) is tied; "
    "for the sparse track / station cases the expected pairs are additionally found by brute force in the harness (haversine distance < 30 km, |dt| < 2 h; the geometry "
    "keeps every decision at least 5 km / 8 min away from the thresholds)",
    "machine integers: the model's pair indices are naturals; that the integer type the code stores Collocations/pairs in is wide enough for the shifted "
    "indices of concat_collocations is tied by the directed concatenations of collocate results passing 255 / 65535 stored points (theorem concat_fits_width_iff "
    "says what a narrower type would do); the 65535 case (66000 pairs) is judged by the same law evaluated with numpy, not inside Coq (the certified checker is quadratic)",
    "high-conditioning variable p: reference statistics in x87 long double (64-bit significand) over the float64 values handed over; tolerance = 8 x the error bound of the "
    "two-pass algorithm (documented at HC_RATIOS)",
    "numpy views: that `m[k]` aliases the matrix handed to a custom collapser is a fact about numpy the model does not contain (Gallina values cannot alias); "
    "the theorem collapse_custom_function states the result per variable, the harness observes all variables after all calls",
]
UBASE = 10 ** 6
TOL = 1e-9


# ----------------------------------------------------------------------------- generators

def gen_pairs(rng, big=False):
    """A compact pair list (every point of either side in at least one pair), with a chosen multiplicity
    pattern, pair order and numbering of the points."""
    style = rng.choice(["random", "random", "random", "one2many", "many2one", "identity", "single", "full", "skew"])
    if big:
        style = rng.choice(["big_few_refs", "big_few_secs", "big_random"])
    if style == "single":
        prs = [(0, 0)]
        n_p = n_s = 1
    elif style == "identity":
        n_p = n_s = rng.randint(2, 12)
        prs = [(i, i) for i in range(n_p)]
    elif style == "full":
        n_p, n_s = rng.randint(1, 5), rng.randint(1, 5)
        prs = [(i, j) for i in range(n_p) for j in range(n_s)]
    elif style == "one2many":
        n_p, n_s = rng.randint(1, 6), rng.randint(2, 30)
        n_p = min(n_p, n_s)
        owners = list(range(n_p)) + [rng.randrange(n_p) for _ in range(n_s - n_p)]
        rng.shuffle(owners)
        prs = [(owners[j], j) for j in range(n_s)]
    elif style == "many2one":
        n_s, n_p = rng.randint(1, 6), rng.randint(2, 30)
        n_s = min(n_p, n_s)
        owners = list(range(n_s)) + [rng.randrange(n_s) for _ in range(n_p - n_s)]
        rng.shuffle(owners)
        prs = [(i, owners[i]) for i in range(n_p)]
    elif style == "skew":
        # one heavy reference point next to many singletons
        n_p = rng.randint(2, 8)
        heavy = rng.randint(3, 25)
        n_s = heavy + n_p - 1
        prs = [(0, j) for j in range(heavy)] + [(i, heavy + i - 1) for i in range(1, n_p)]
        extra = rng.randint(0, 4)
        for _ in range(extra):
            prs.append((rng.randrange(n_p), rng.randrange(n_s)))
        prs = list(dict.fromkeys(prs))
    elif style == "big_few_refs":
        n_p, n_s = rng.randint(3, 40), rng.randint(1000, 1300)
        owners = list(range(n_p)) + [rng.randrange(n_p) for _ in range(n_s - n_p)]
        rng.shuffle(owners)
        prs = [(owners[j], j) for j in range(n_s)]
    elif style == "big_few_secs":
        n_s, n_p = rng.randint(3, 40), rng.randint(1000, 1300)
        owners = list(range(n_s)) + [rng.randrange(n_s) for _ in range(n_p - n_s)]
        rng.shuffle(owners)
        prs = [(i, owners[i]) for i in range(n_p)]
    else:
        if style == "big_random":
            n_p, n_s = rng.randint(100, 300), rng.randint(100, 300)
            extra = rng.randint(1000, 1200)
        else:
            n_p, n_s = rng.randint(1, 14), rng.randint(1, 14)
            extra = rng.choice([0, 1, 2, 5, 10, 30]) if rng.random() < 0.9 else rng.randint(60, 250)
        prs = [(i % n_p, i % n_s) for i in range(max(n_p, n_s))]
        for _ in range(extra):
            prs.append((rng.randrange(n_p), rng.randrange(n_s)))
        prs = list(dict.fromkeys(prs))
    order = rng.random()
    if order < 0.6:
        rng.shuffle(prs)
    elif order < 0.75:
        prs.sort()
    elif order < 0.9:
        prs.sort(key=lambda ij: (ij[1], ij[0]))
    # number the points arbitrarily (a compact dataset need not be numbered by first appearance)
    pp, ps = list(range(n_p)), list(range(n_s))
    if rng.random() < 0.7:
        rng.shuffle(pp)
        rng.shuffle(ps)
    return n_p, n_s, [pp[i] for i, _ in prs], [ps[j] for _, j in prs], style


# group names: also pairs in which one name is a prefix of the other, in both orders (a lookup by name prefix mixes them up)
NAMES = [("A", "B"), ("MHS", "AVHRR"), ("primary", "secondary"), ("b", "a"), ("Sat_1", "Sat_2"),
         ("MHS", "MHS_N18"), ("AMSUB", "AMSU"), ("S", "Sat"), ("Sat_10", "Sat_1")]


def gen_layout(rng):
    def extra():
        return rng.choice([[], [], [3], [5], [2, 3], [1]])
    lay = {"names": list(rng.choice(NAMES)), "dseed": rng.randrange(1 << 30),
           "u_extra": [extra(), extra()], "w_extra": [rng.choice([[], [4], [2]]), rng.choice([[], [4], [2]])],
           "u_transposed": [rng.random() < 0.3, rng.random() < 0.3],
           "nan": rng.choice([0.0, 0.1, 0.3, 0.6, 1.0]) if rng.random() < 0.8 else 0.0,
           "static": rng.random() < 0.3}
    return lay


# ---- HIGH-CONDITIONING variable p (every third dataset, chosen by the case number: no random number of ctx.rng is drawn,
# the older variables of every case are what they were).  p = offset + spread * q with |offset| / spread = ratio:
#   shape noise / noise2d: q ~ N(0, 1) (noise2d: an extra dimension of two lanes, lane 1 = offset - 3 spread q'), some NaNs,
#   plateau: q in {1/3, 4/3} (P(1/3) = 0.8): many bins whose values are all equal,   const: q = 1/3 (every bin: std exactly 0).
# Tolerance.  The NaN-ignoring standard deviation the property names is computed by the code in binary64 with the TWO-PASS
# algorithm (np.nanstd: m = nanmean(x), sqrt(nanmean(|x - m|^2))).  For a bin of n values of magnitude <= M (eps = 2^-52):
#   * the computed mean is m + d, |d| <= n eps/2 M (n - 1 additions of partial sums <= n M, one division);
#   * x_i - (m + d) is exact (x_i and the mean agree within a factor 2, Sterbenz), so every deviation is off by the same d;
#     mean((x_i - m - d)^2) = var + d^2 (the cross term vanishes) up to n + 2 roundings, hence
#     |std_computed - std| <= min(|d|, d^2 / (2 std)) + (n + 4) eps std  <=  n eps/2 M + (n + 4) eps std,
#     relative to the spread: about n/2 * eps * offset/spread  (1e-10 for 1e5 .. 3e-7 for 1e9 with n = 3).
#   The single-pass formula sqrt(E[x^2] - E[x]^2) is off by about eps M^2 / (2 std), relative to the spread
#   eps/2 * (offset/spread)^2 = 1e-6 (1e5), 1e-2 (1e7), > 1 (1e9), and gives sqrt(eps) M instead of 0 for equal values.
# Tolerance used (mean and std): 4 * (n eps M + (n + 4) eps std_ref), i.e. 8 x the bound; the reference is computed in
# long double (eps 1.1e-19) on the float64 values actually handed over; equal values give exactly their value and 0.
HC_RATIOS = [1e5, 1e7, 1e9]
HC_OFFSETS = [101325.0, -1.6e9, 250.0]          # below UBASE: the matrices of u are recognised by their values >= UBASE
HC_SHAPES = ["noise", "noise2d", "plateau", "const"]
EPS = 2.0 ** -52


def hc_for(k):
    if k % 3:
        return None
    j = k // 3
    return {"offset": HC_OFFSETS[j % 3], "ratio": HC_RATIOS[(j // 3) % 3], "shape": HC_SHAPES[(j // 9) % 4]}


def hc_values(n, g, lay):
    """the variable p of group g (its own random stream: the draws of the other variables do not move)"""
    hc = lay["hc"]
    prng = np.random.default_rng([lay["dseed"], 977, g, n])
    off, spread = hc["offset"], abs(hc["offset"]) / hc["ratio"]
    # (plateau / const levels at thirds of the spread: values without trailing zero bits, so that squares and sums round)
    if hc["shape"] == "const":
        return ["P"], np.full(n, off + spread / 3.0)
    if hc["shape"] == "plateau":
        return ["P"], off + spread * ((prng.random(n) < 0.2).astype(float) + 1.0 / 3.0)
    if hc["shape"] == "noise2d":
        p = np.stack([off + spread * prng.normal(0, 1, n), off - 3 * spread * prng.normal(0, 1, n)], axis=1)
        dims = ["P", "q0"]
    else:
        p = off + spread * prng.normal(0, 1, n)
        dims = ["P"]
    if lay["nan"] > 0:
        p[prng.random(p.shape) < 0.1] = np.nan
    return dims, p


def gen_ds_case(rng, k, big=False):
    n_p, n_s, pr, sr, style = gen_pairs(rng, big)
    lay = gen_layout(rng)
    lay["hc"] = hc_for(k)
    if big:
        lay["u_extra"] = [rng.choice([[], [2]]), rng.choice([[], [2]])]
    ref = rng.choice([None, None, 0, 1, 1])
    return {"id": k, "kind": "ds", "style": style, "np": n_p, "ns": n_s, "pairs": [pr, sr], "layout": lay,
            "reference": ref}


def gen_concat_case(rng, k):
    m = rng.choice([1, 2, 2, 2, 3, 3, 4])
    lay = gen_layout(rng)
    parts = []
    for _ in range(m):
        n_p, n_s, pr, sr, style = gen_pairs(rng)
        parts.append({"np": n_p, "ns": n_s, "pairs": [pr, sr], "style": style})
    # which list entries are the same object (aliasing): entry j reuses object alias[j]
    alias = list(range(m))
    if m >= 2 and rng.random() < 0.25:
        j = rng.randrange(1, m)
        alias[j] = rng.randrange(0, j)
    return {"id": k, "kind": "cc", "parts": parts, "alias": alias, "layout": lay}


def gen_collocate_case(rng, k):
    c = {"id": k, "kind": "col", "cseed": rng.randrange(1 << 30), "n_p": rng.randint(1, 14), "n_s": rng.randint(1, 18),
         "clusters": rng.randint(1, 5), "mode": rng.choice(["both", "both", "space", "space"]),
         "late": rng.choice([0.0, 0.0, 0.2, 0.4]), "layout": gen_layout(rng)}
    c["layout"]["hc"] = hc_for(k)
    return c


def track_position(k, n):
    """point k of a long track of n points: every two points of a track are more than 100 km apart"""
    return -75.0 + 150.0 * k / max(1, n - 1), (k * 11.7) % 360.0 - 180.0


def gen_sparse_case(rng, k, directed=None):
    """SPARSE and UNORDERED results of Collocator.collocate: a long track (300-3000 points) of which a handful of points
    collocate with stations; the stations are met in an order that is not the order along the track (the short side is the
    query side of the search, the pairs come in its order).  role: the long track is the primary or the secondary; grid:
    the track is a gridded swath (scnline x scnpos, `grid` positions per line) or flat; `at` = the track point next to
    station j (None: a station far from the track), in station order; late = stations that fail the temporal condition."""
    if directed is not None:
        n_track, at, role, grid, mode = directed
        late = []
        rng = __import__("random").Random(f"C13 sparse {k}")          # the layout of a directed case is fixed as well
    else:
        grid = rng.choice([0, 0, 0, 2, 3, 5])
        n_track = rng.randint(300, 3000)
        if grid:
            n_track -= n_track % grid
        m = rng.randint(3, 12)
        lo = rng.choice([0, n_track // 2, (3 * n_track) // 4, (9 * n_track) // 10, n_track - 40])   # where the stations sit
        at = rng.sample(range(lo, n_track), m)
        order = rng.random()
        if order < 0.35:
            at.sort(reverse=True)                 # stations near the end of the track first
        elif order < 0.45:
            at.sort()                             # (ascending: the pattern for which a sorted search is right by accident)
        if rng.random() < 0.3:
            at[rng.randrange(1, m)] = at[0]       # two stations at the same track point
        if rng.random() < 0.3:
            at.insert(rng.randrange(len(at) + 1), None)     # a station that is nowhere near the track
        role = rng.choice(["long_primary", "long_secondary"])
        mode = rng.choice(["both", "space"])
        late = [j for j in range(len(at)) if mode == "both" and rng.random() < 0.1]
    n_st = len(at)
    c = {"id": k, "kind": "col", "cseed": rng.randrange(1 << 30), "mode": mode, "late": 0.0, "clusters": 0,
         "n_p": n_track if role == "long_primary" else n_st, "n_s": n_st if role == "long_primary" else n_track,
         "sparse": {"n_track": n_track, "at": at, "role": role, "grid": grid, "late": late,
                    "time_reversed": directed is None and rng.random() < 0.2},
         "layout": gen_layout(rng)}
    c["layout"]["hc"] = hc_for(k)
    return c


# directed (seed-independent) sparse cases: (track length, track point of station j in station order, role, grid, mode)
SPARSE_DIRECTED = [
    (500, [480, 450, 470, 300, 490, 460], "long_primary", 0, "both"),
    (500, [480, 450, 470, 300, 490, 460], "long_secondary", 0, "both"),
    (1200, [1190, 1100, 1150], "long_primary", 0, "space"),
    (1200, [1190, 1100, 1150], "long_secondary", 3, "space"),
    (3000, [2990, 2900, 2950, 2400, 2999, 2970, 2800, 2600, 2995, 2700, 2850, 2500], "long_primary", 5, "both"),
    (300, [299, 290, 295, 280], "long_secondary", 2, "both"),
    (900, [880, 700, 880, 850, 600], "long_primary", 0, "space"),          # two stations at one track point
    (2000, [1999, 1000, 1500, 1001], "long_secondary", 0, "both"),
]


# directed (seed-independent) CONCATENATIONS of results of Collocator.collocate: per part (primaries, secondaries, sites).
# A part is a dense cloud: `sites` places 0.5 deg x 1 deg apart, every site holds at least one point of either group, all
# points of a site collocate with each other (many-to-many) and with nothing else; so every point is stored and a part has
# exactly the given numbers of stored points per group.  Every part alone has fewer than 256 (65536) stored points per
# group, the running total passes 255 (65535) in the second or third part: what an integer type chosen per part would
# no longer hold after the shift by the sizes of the earlier parts.
CCOL_DIRECTED = [
    ([(150, 180, 140), (130, 200, 125)], "both"),
    ([(120, 135, 110), (140, 125, 118), (125, 150, 120)], "space"),
    ([(200, 200, 190), (60, 60, 50)], "both"),
    ([(33000, 33000, 33000), (33000, 33000, 33000)], "space"),      # passes 65535: judged with numpy (66000 pairs)
]
CCOL_COQ_LIMIT = 1500         # pairs up to which the certified checkers are evaluated inside Coq (they are quadratic)


def gen_ccol_case(k, parts, mode):
    rng = __import__("random").Random(f"C13 ccol {k}")
    lay = gen_layout(rng)
    lay["hc"] = hc_for(k)
    if max(n for part in parts for n in part) > 1000:
        lay["u_extra"], lay["w_extra"] = [[], [2]], [[], []]
    return {"id": k, "kind": "ccol", "cseed": rng.randrange(1 << 30), "mode": mode, "layout": lay,
            "parts": [{"n_p": a, "n_s": b, "sites": m} for a, b, m in parts]}


def build_cloud(c, j):
    """the two input datasets of part j of a ccol case"""
    import xarray as xr
    part, lay = c["parts"][j], c["layout"]
    nrng = np.random.default_rng([c["cseed"], 13, j])
    m = part["sites"]
    big = max(part["n_p"], part["n_s"]) > 1000
    base = 100000 if big else 250            # ids unique over all parts and groups (small: unary numbers in Coq)
    site = np.arange(m)
    slat, slon = -60.0 + 0.5 * (site // 360), -180.0 + 1.0 * (site % 360)
    out = []
    for g, n in ((0, part["n_p"]), (1, part["n_s"])):
        at = np.concatenate([np.arange(min(n, m)), nrng.integers(0, m, size=max(0, n - m))])[nrng.permutation(n)]
        gv = group_vars(n, g, lay, base * (2 * j + g), nrng)
        gv.pop("freq", None)
        ds = xr.Dataset()
        for v, (dims, arr) in gv.items():
            ds[v] = ([("t" if d == "P" else d) for d in dims], arr)
        ds["time"] = ("t", np.datetime64("2001-01-01") + nrng.integers(0, 1800, size=n).astype("m8[s]"))
        ds["lat"] = ("t", slat[at] + nrng.uniform(-0.01, 0.01, n))
        ds["lon"] = ("t", slon[at] + nrng.uniform(-0.01, 0.01, n))
        out.append(ds)
    return out


# ----------------------------------------------------------------------------- building datasets

def group_vars(n, g, lay, idbase, nrng):
    """The variables of one group as {name: (dims, array)} with dims relative to the point dimension 'P'."""
    ids = np.arange(n, dtype=np.int64) + idbase
    ue = list(lay["u_extra"][g])
    lanes = int(np.prod(ue)) if ue else 1
    u = (UBASE + ids[:, None] * lanes + np.arange(lanes)[None, :]).astype(float).reshape([n] + ue)
    udims = ["P"] + [f"x{i}" for i in range(len(ue))]
    if lay["u_transposed"][g] and len(ue) == 1:
        u = u.T
        udims = udims[::-1]
    we = list(lay["w_extra"][g])
    w = nrng.uniform(-100, 100, size=[n] + we)
    if lay["nan"] > 0:
        w[nrng.random(size=w.shape) < lay["nan"]] = np.nan
        if n > 1 and lay["nan"] < 1:
            w[nrng.integers(0, n)] = np.nan          # one point without any valid value
    wdims = ["P"] + [f"y{i}" for i in range(len(we))]
    kk = nrng.integers(0, 50, size=n).astype(np.int64)
    out = {
        "time": (["P"], np.datetime64("2001-01-01") + (nrng.integers(0, 86400, size=n)).astype("m8[s]")),
        "lat": (["P"], nrng.uniform(-80, 80, size=n)),
        "lon": (["P"], nrng.uniform(-170, 170, size=n)),
        "id": (["P"], ids),
        "u": (udims, u),
        "w": (wdims, w),
        "k": (["P"], kk),
        # a second variable with exactly the extra dimensions of u (two collapsed variables of one shape; id and k are two
        # scalar ones); no random numbers are drawn for it
        "u2": (udims, -u - 0.25),
    }
    if lay["static"]:
        out["freq"] = (["x0"] if ue else ["z"], np.arange(ue[0] if ue else 2, dtype=float))
    if lay.get("hc"):
        out["p"] = hc_values(n, g, lay)
    return out


def build_dataset(part, lay, idbase=(0, 0), tagbase=0, salt=0):
    import xarray as xr
    nrng = np.random.default_rng([lay["dseed"], salt])
    names = lay["names"]
    ds = xr.Dataset()
    for g, n in ((0, part["np"]), (1, part["ns"])):
        for v, (dims, arr) in group_vars(n, g, lay, idbase[g], nrng).items():
            dims = [f"{names[g]}/collocation" if d == "P" else f"{names[g]}/{d}" for d in dims]
            ds[f"{names[g]}/{v}"] = (dims, arr)
    pairs = np.array(part["pairs"], dtype=np.int64)
    m = pairs.shape[1]
    ds["Collocations/pairs"] = (("Collocations/group", "Collocations/collocation"), pairs)
    ds["Collocations/interval"] = ("Collocations/collocation", np.arange(m, dtype=float) + tagbase)
    ds["Collocations/distance"] = ("Collocations/collocation", np.arange(m, dtype=float) * 0.5)
    ds["Collocations/group"] = ("Collocations/group", np.array(names))
    ds.attrs = {"start_time": "x", "end_time": "y"}
    return ds


# ----------------------------------------------------------------------------- observing the real code

def err(e):
    return f"ERR:{type(e).__name__}: {str(e)[:160]}"


def point_arrays(ds, g):
    """{var: array with the point axis first} for the data variables of group g that depend on the points."""
    cd = f"{g}/collocation"
    out = {}
    for name, var in ds.variables.items():
        if name.startswith(g + "/") and cd in var.dims:
            out[name.split("/", 1)[1]] = np.moveaxis(np.asarray(var.values), var.dims.index(cd), 0)
    return out


def same(a, b):
    a, b = np.asarray(a), np.asarray(b)
    if a.shape != b.shape:
        return False
    if a.dtype.kind in "fc":
        return bool(np.array_equal(a, b, equal_nan=True))
    return bool(np.array_equal(a, b))


def observe_expand(ds, names, arrays, pos):
    """rows (tag, primary position, secondary position) + do all variables of a row belong to those points?"""
    from typhon.collocations import expand
    try:
        ex = expand(ds.copy(deep=True))
        n = int(ex.sizes["collocation"])
        tags = np.asarray(ex["Collocations/interval"].values, dtype=float)
        rows, bad = [], None
        idrows = []
        for g in names:
            var = ex[f"{g}/id"]
            if var.dims != ("collocation",):
                return f"ERR:dims of {g}/id are {var.dims}"
            idrows.append([pos[g].get(int(i), -1) for i in var.values])
        if len(tags) != n:
            return "ERR:tag length"
        rows = sorted([int(t), idrows[0][k], idrows[1][k]] for k, t in enumerate(tags))
        for g, row in zip(names, idrows):
            idx = np.array(row, dtype=int)
            if (idx < 0).any():
                bad = f"{g}/id holds an unknown id"
                break
            for v, arr in arrays[g].items():
                var = ex[f"{g}/{v}"]
                if "collocation" not in var.dims:
                    bad = f"{g}/{v} lost the collocation dimension"
                    break
                got = np.moveaxis(np.asarray(var.values), var.dims.index("collocation"), 0)
                if not same(got, arr[idx]):
                    bad = f"{g}/{v} does not hold the values of the points named by {g}/id"
                    break
            if bad:
                break
        return {"n": n, "rows": rows, "values": bad}
    except Exception as e:  # noqa
        return err(e)


def field_names(out, other):
    """{variable: sorted function names f of the output fields <other>/<variable>_<f>}"""
    res = {}
    for v in ("u", "w", "k"):
        pre = f"{other}/{v}_"
        res[v] = sorted(str(n)[len(pre):] for n in out.variables if str(n).startswith(pre))
    return res


def reorder_pairs(ds):
    """the same collocations with the pair list rearranged (a fixed permutation of the pair axis; the per-pair
    variables of the Collocations group move with their pairs)"""
    m = int(ds["Collocations/pairs"].shape[1])
    perm = np.random.default_rng([m, 7]).permutation(m)
    ds2 = ds.copy(deep=True)
    ds2["Collocations/pairs"] = (ds["Collocations/pairs"].dims, ds["Collocations/pairs"].values[:, perm])
    for v in ("Collocations/interval", "Collocations/distance"):
        if v in ds2:
            ds2[v] = (ds[v].dims, ds[v].values[perm])
    return ds2


# custom collapser functions that return a VIEW of the matrix they are handed (axis 0 = partner slot: row k of column c is
# the (k+1)-th partner of reference point c in the order of the pair list, NaN padding below the last partner):
#   first = slot 0 (the partner of the pair with the lowest position in the pair list; every reference point has one),
#   last  = the last slot (a value only for the reference points with the largest number of partners, NaN padding else),
#   mid   = slot  height // 2.
VIEWS = {"first": lambda m, a: m[0], "last": lambda m, a: m[-1], "mid": lambda m, a: m[m.shape[0] // 2]}
VIEW_SLOT = {"first": lambda h: 0, "last": lambda h: h - 1, "mid": lambda h: h // 2}
VIEW_VARS = ("id", "u", "w", "k", "u2")
NAMES_REC, NAMES_STD = ["rec", "first", "last", "mid"], ["std", "first"]


def observe_collapse(ds, names, ref):
    """collapse with a recording custom collapser; returns the arrays needed by the judge."""
    from typhon.collocations import collapse
    store = []

    def rec(m, a):
        store.append(np.array(m, dtype=float, copy=True))
        return np.nanmax(m, axis=a)
    refname = names[0] if ref is None else names[ref]
    other = names[1] if refname == names[0] else names[0]
    try:
        with warnings.catch_warnings():
            warnings.simplefilter("ignore")
            out = collapse(ds.copy(deep=True), reference=None if ref is None else names[ref],
                           collapser={"rec": rec, **VIEWS})
        o = {"ref": refname, "other": other, "nrows": int(out.sizes.get("collocation", -1)),
             "ref_ids": [int(i) for i in out[f"{refname}/id"].values], "stats": {}, "root": None,
             "names_rec": field_names(out, other)}
        for v in ("time", "lat", "lon"):
            if v not in out or not same(out[v].values, ds[f"{refname}/{v}"].values):
                o["root"] = f"root variable {v} is not the reference's {v}"
        for v in VIEW_VARS + (("p",) if f"{other}/p" in ds else ()):
            st = {}
            for f in ("mean", "std", "number", "rec") + tuple(VIEWS):
                name = f"{other}/{v}_{f}"
                if name not in out:
                    st[f] = None
                    continue
                var = out[name]
                if "collocation" not in var.dims:
                    st[f] = None
                    continue
                st[f] = np.moveaxis(np.asarray(var.values), var.dims.index("collocation"), 0)
            o["stats"][v] = st
        mats = [m for m in store if np.isfinite(m).any() and np.nanmin(m) >= UBASE]
        o["mat"] = mats[0] if len(mats) == 1 else None
        o["nmats"] = len(mats)
        if ref is None:
            # history: calls of collapse() in one process must not influence each other -- after the call above (custom
            # function `rec`) and a call that overrides the NAME std, a plain call must give the plain statistics again
            o["history"] = None
            with warnings.catch_warnings():
                warnings.simplefilter("ignore")
                over = collapse(ds.copy(deep=True), collapser={"std": lambda m, a: np.nanmax(m, axis=a),
                                                               "first": VIEWS["first"]})
                plain = collapse(ds.copy(deep=True))
                moved = collapse(reorder_pairs(ds))
            o["names_std"], o["names_plain"] = field_names(over, other), field_names(plain, other)
            # a custom `std` replaces the default of that name only: it is the recorded nanmax, mean / number stay
            o["override"] = None
            for v in ("u", "w", "k"):
                for f, g in (("std", "rec"), ("mean", "mean"), ("number", "number")):
                    a, b = f"{other}/{v}_{f}", f"{other}/{v}_{g}"
                    if a in over and b in out and "collocation" in out[b].dims:
                        x, y = np.asarray(over[a].values, dtype=float), np.asarray(out[b].values, dtype=float)
                        if x.shape != y.shape or not np.array_equal(x, y, equal_nan=True):
                            o["override"] = (f"collapse(collapser={{'std': nanmax}}): {a} is {x.ravel()[:3].tolist()}, expected "
                                             f"{'the custom function (nanmax)' if f == 'std' else 'the default ' + f} "
                                             f"{y.ravel()[:3].tolist()}")
            o["first_again"] = {}
            for v in VIEW_VARS:
                name = f"{other}/{v}_first"
                if name in over and "collocation" in over[name].dims:
                    o["first_again"][v] = np.moveaxis(np.asarray(over[name].values), over[name].dims.index("collocation"), 0)
            extra = sorted(str(n) for n in plain.variables if str(n).endswith("_rec"))
            if extra:
                o["history"] = f"a plain collapse() after a call with a custom collapser `rec` still produces {extra[:3]}"
            else:
                for v in ("u", "w", "k"):
                    for f in ("mean", "std", "number"):
                        name = f"{other}/{v}_{f}"
                        if name in out and name in plain and "collocation" in out[name].dims:
                            a, b = np.asarray(out[name].values, dtype=float), np.asarray(plain[name].values, dtype=float)
                            if a.shape != b.shape or not np.array_equal(a, b, equal_nan=True):
                                o["history"] = (f"{name} of a plain collapse() differs after earlier calls with custom collapsers "
                                                f"(first call {a.ravel()[:3].tolist()}, now {b.ravel()[:3].tolist()})")
            # the order of the pairs does not matter: same reference points in the same rows, number and NaN-ness
            # exactly, mean / std within the tolerance (the summation order changes)
            o["order"] = None
            if [int(i) for i in moved[f"{refname}/id"].values] != o["ref_ids"]:
                o["order"] = "the rows of the reference points change with the order of the pairs"
            else:
                for v in ("u", "w", "k"):
                    for f in ("number", "mean", "std"):
                        name = f"{other}/{v}_{f}"
                        if name not in plain or name not in moved or "collocation" not in plain[name].dims:
                            continue
                        a, b = np.asarray(plain[name].values, dtype=float), np.asarray(moved[name].values, dtype=float)
                        scale = max(1.0, float(np.nanmax(np.abs(a))) if np.isfinite(a).any() else 1.0)
                        good = np.array_equal(a, b) if f == "number" else close(a, b, scale)
                        if not good:
                            o["order"] = (f"{name} changes when the pair list is rearranged: {a.ravel()[:4].tolist()} -> "
                                          f"{b.ravel()[:4].tolist()}")
        return o
    except Exception as e:  # noqa
        return err(e)


def observe_dataset(ds, names, refs):
    arrays = {g: point_arrays(ds, g) for g in names}
    ids = {g: [int(i) for i in ds[f"{g}/id"].values] for g in names}
    pos = {g: {i: k for k, i in enumerate(ids[g])} for g in names}
    before = ds["Collocations/pairs"].values.copy()
    obs = {"arrays": arrays, "ids": ids, "pos": pos,
           "expand": observe_expand(ds, names, arrays, pos),
           "collapse": {r: observe_collapse(ds, names, r) for r in refs}}
    obs["input_changed"] = not np.array_equal(before, ds["Collocations/pairs"].values)
    return obs


def w_masks(ds, names):
    """validity flags of variable w: per group one list of flags (one per lane, C order) per stored point"""
    out = []
    for g in names:
        arr = np.asarray(point_arrays(ds, g)["w"], dtype=float)
        out.append((~np.isnan(arr.reshape(arr.shape[0], -1))).tolist())
    return out


def masks_lit(m):
    return coq_list([coq_list([coq_bool(b) for b in row]) for row in m])


def strs_lit(names):
    return coq_list([f'"{n}"%string' for n in names])


def ds_expr(n_p, n_s, pr, sr, masks):
    """run_dataset_m: the verdicts of run_dataset + the exact counts of valid values of w per reference point and lane
    (reference primary: flags of the secondaries; reference secondary: flags of the primaries), and the field names of
    the three kinds of calls"""
    return (f"(run_dataset_m {zlit(n_p)} {zlit(n_s)} {zlist(pr)} {zlist(sr)} "
            f"{masks_lit(masks[0])} {zlit(len(masks[0][0]))} {masks_lit(masks[1])} {zlit(len(masks[1][0]))}, "
            f"(collapser_names {strs_lit(NAMES_REC)}, collapser_names {strs_lit(NAMES_STD)}, collapser_names []))")


# ----------------------------------------------------------------------------- reference statistics

def stats_ld(vals):
    x = np.asarray(vals).astype(np.longdouble)
    ok = ~np.isnan(x)
    n = ok.sum(axis=0)
    with np.errstate(all="ignore"):
        s = np.where(ok, x, 0).sum(axis=0)
        mean = np.where(n > 0, s / np.maximum(n, 1), np.nan)
        dev = np.where(ok, x - mean, 0)
        std = np.where(n > 0, np.sqrt((dev * dev).sum(axis=0) / np.maximum(n, 1)), np.nan)
        mx = np.where(n > 0, np.where(ok, x, -np.inf).max(axis=0), np.nan)
    return {"mean": mean, "std": std, "number": n, "rec": mx}


def close(a, b, scale):
    a = np.asarray(a, dtype=np.longdouble)
    b = np.asarray(b, dtype=np.longdouble)
    if a.shape != b.shape:
        return False
    na, nb = np.isnan(a), np.isnan(b)
    if (na != nb).any():
        return False
    with np.errstate(all="ignore"):
        return bool((np.abs(a - b)[~na] <= TOL * scale).all())


def judge_hc(ctx, case, label, o, src, plist, other_ids):
    """<other>/p_mean, _std, _number of one collapse call against long-double statistics over the partner points Coq names
    (plist[r] = partner points of output row r); tolerance: see HC_RATIOS"""
    st = o["stats"]["p"]
    n_ref = len(plist)
    hc = case.get("layout", {}).get("hc") or {}
    for f in ("mean", "std", "number"):
        if st.get(f) is None or st[f].shape[0] != n_ref:
            ctx.fail("failing-input", f"{label}: collapse(reference={o['ref']}) returned no usable {o['other']}/p_{f}",
                     case=case, signature="collapse-missing")
            return
    for r in range(n_ref):
        part = src[plist[r]] if plist[r] else src[:0]
        want = stats_ld(part)
        flat = part.reshape(part.shape[0], -1)
        with np.errstate(all="ignore"), warnings.catch_warnings():
            warnings.simplefilter("ignore")
            big = np.nan_to_num(np.nanmax(np.abs(flat), axis=0), nan=0.0).reshape(part.shape[1:])
            equal = (np.nanmax(flat, axis=0) == np.nanmin(flat, axis=0)).reshape(part.shape[1:])
        n = np.asarray(want["number"], dtype=float)
        sd = np.nan_to_num(np.asarray(want["std"], dtype=float), nan=0.0)
        tol = 4.0 * (n * EPS * big + (n + 4) * EPS * sd)
        if not np.array_equal(np.asarray(st["number"][r]), np.asarray(want["number"])):
            ctx.fail("failing-input", f"{label}: collapse(reference={o['ref']}): {o['other']}/p_number of reference point "
                     f"{o['ref_ids'][r]} is {np.asarray(st['number'][r]).tolist()}, its partner points hold "
                     f"{np.asarray(want['number']).tolist()} values that are not NaN", case=case, signature="collapse-number")
            return
        for f in ("mean", "std"):
            got = np.asarray(st[f][r], dtype=np.longdouble)
            ref = np.asarray(want[f], dtype=np.longdouble)
            if f == "std":
                ref = np.where(equal & (n > 0), np.longdouble(0), ref)     # all values equal: exactly 0
            with np.errstate(all="ignore"):
                bad = (np.isnan(got) != np.isnan(ref)) | (np.abs(got - ref) > tol)
                bad &= ~(np.isnan(got) & np.isnan(ref))
            if got.shape != ref.shape or bad.any():
                vals = [float(x) for x in flat[:, 0][:6]]
                ctx.fail("failing-input", f"{label}: collapse(reference={o['ref']}): {o['other']}/p_{f} of reference point "
                         f"{o['ref_ids'][r]} is {np.asarray(got, dtype=float).tolist()!r}; the NaN-ignoring {f} over the values "
                         f"{vals!r}{'...' if flat.shape[0] > 6 else ''} of its partner points "
                         f"{[other_ids[j] for j in plist[r]][:8]} is {np.asarray(ref, dtype=float).tolist()!r} "
                         f"(p = {hc.get('offset')} + {abs(hc.get('offset', 0)) / hc.get('ratio', 1):g} * {hc.get('shape')}; "
                         f"tolerance {np.asarray(tol).max():.3g} = 8 x the error bound of the two-pass algorithm in binary64)",
                         case=case, impl=np.asarray(got, dtype=float).tolist(), model=np.asarray(ref, dtype=float).tolist(),
                         signature=f"collapse-{f}-conditioning")
                return


# ----------------------------------------------------------------------------- judging one dataset

def judge_dataset(ctx, case, ds, names, obs, val, label):
    """val = run_dataset ... evaluated in Coq. Returns True when the case counted as non-trivial."""
    pairs = ds["Collocations/pairs"].values
    pr, sr = [int(x) for x in pairs[0]], [int(x) for x in pairs[1]]
    if val is None:
        ctx.fail("correspondence", "Coq evaluation of the model failed", case=case, signature="coq-eval")
        return False
    okb, ex_model, ex_spec, cp, cs, (names_rec, names_std, names_plain) = val
    # cp / cs = (model ids, spec ids, (height, columns, all columns of that height), model counts, spec counts)
    if not okb:
        ctx.fail("correspondence", f"{label}: the generated dataset does not satisfy compact_ok (harness error)",
                 case=case, signature="harness-not-compact")
        return False
    if ex_model != ex_spec or cp[0] != cp[1] or cs[0] != cs[1] or not cp[2][2] or not cs[2][2] \
            or cp[3] != cp[4] or cs[3] != cs[4]:
        ctx.fail("proof", "model and specification disagree inside Coq (cannot happen while the theorems stand)",
                 case=case, signature="model-vs-spec")
    kind = "failing-input"            # compact_ok holds, the model provably equals the specification
    # ---- expand
    e = obs["expand"]
    expect_rows = [[k, a, b] for k, (a, b) in enumerate(ex_spec)]
    tag0 = int(np.min(ds["Collocations/interval"].values)) if len(pr) else 0
    if isinstance(e, str):
        ctx.fail(kind, f"{label}: expand raised {e}", case=case, impl=e, signature="expand-error")
    else:
        rows = [[t - tag0, a, b] for t, a, b in e["rows"]]
        if e["n"] != len(pr) or rows != expect_rows:
            ctx.fail(kind, f"{label}: expand returned rows (pair, primary point, secondary point) {rows[:12]}..., "
                     f"expected one row per pair {expect_rows[:12]}... for pairs {[pr[:12], sr[:12]]}",
                     case=case, impl=rows[:50], model=expect_rows[:50], signature="expand-rows")
        elif e["values"]:
            ctx.fail(kind, f"{label}: expand: {e['values']}", case=case, impl=e["values"], signature="expand-values")
    if obs["input_changed"]:
        ctx.fail(kind, f"{label}: expand/collapse changed Collocations/pairs of their input", case=case,
                 signature="input-changed")
    # ---- collapse
    for ref, o in obs["collapse"].items():
        if isinstance(o, str):
            ctx.fail(kind, f"{label}: collapse(reference={ref}) raised {o}", case=case, impl=o, signature="collapse-error")
            continue
        ref_secondary = o["ref"] == names[1]
        cols_spec = (cs if ref_secondary else cp)[1]
        n_ref = len(cols_spec)
        if o["nrows"] != n_ref or sorted(o["ref_ids"]) != sorted(obs["ids"][o["ref"]]):
            ctx.fail(kind, f"{label}: collapse(reference={o['ref']}) returned {o['nrows']} rows for reference points "
                     f"{o['ref_ids'][:20]}, expected one row per stored reference point ({n_ref})", case=case,
                     impl=o["nrows"], model=n_ref, signature="collapse-shape")
            continue
        if o["root"]:
            ctx.fail(kind, f"{label}: collapse(reference={o['ref']}): {o['root']}", case=case, signature="collapse-root")
        if o.get("history"):
            ctx.fail(kind, f"{label}: collapse(reference={o['ref']}): {o['history']}", case=case, signature="collapse-history")
        if o.get("override"):
            ctx.fail(kind, f"{label}: {o['override']}", case=case, signature="collapse-custom-override")
        if o.get("order"):
            ctx.fail(kind, f"{label}: collapse(): {o['order']}", case=case, signature="collapse-pair-order")
        # the output fields of a call: {**defaults, **custom} of that call only (Coq: collapser_names)
        for key, want_names, what in (("names_rec", names_rec, "collapser={'rec': f, 'first': f1, 'last': f2, 'mid': f3}"),
                                      ("names_std", names_std, "collapser={'std': f, 'first': f1}"),
                                      ("names_plain", names_plain, "no custom collapser")):
            got_names = o.get(key)
            if got_names is None:
                continue
            for v in ("u", "w", "k"):
                if got_names[v] != sorted(want_names):
                    # a missing field is a failure of the property; an additional one only a difference to the model
                    missing = sorted(set(want_names) - set(got_names[v]))
                    ctx.fail(kind if missing else "correspondence",
                             f"{label}: collapse(reference={o['ref']}, {what}) returns the fields {got_names[v]} for variable "
                             f"{o['other']}/{v}, the model (collapser_names) has {sorted(want_names)}"
                             + (f": {missing} missing" if missing else ""), case=case, impl=got_names[v],
                             model=sorted(want_names), signature="collapse-fields-missing" if missing else "collapse-fields")
                    break
        other_ids = obs["ids"][o["other"]]
        rowpos = [obs["pos"][o["ref"]][i] for i in o["ref_ids"]]     # output row -> stored reference point
        # the bin matrix as the custom collapser saw it
        mat = o["mat"]
        if mat is None or mat.shape[1] != n_ref:
            ctx.fail(kind, f"{label}: collapse(reference={o['ref']}) handed {o['nmats']} matrices of variable u to the "
                     f"custom collapser / wrong number of columns", case=case, signature="collapse-bins")
        else:
            lanes = int(np.prod(mat.shape[2:])) if mat.ndim > 2 else 1
            m3 = mat.reshape(mat.shape[0], mat.shape[1], lanes)
            for r in range(n_ref):
                want = sorted(other_ids[j] for j in cols_spec[rowpos[r]])
                for ln in range(lanes):
                    col = m3[:, r, ln]
                    got = col[~np.isnan(col)].astype(np.int64) - UBASE
                    if sorted((got // lanes).tolist()) != want or (got % lanes != ln).any():
                        ctx.fail(kind, f"{label}: collapse(reference={o['ref']}): the bin of reference point "
                                 f"{o['ref_ids'][r]} holds points {sorted((got // lanes).tolist())} (lane {ln}), its "
                                 f"partners are {want}; pairs {[pr[:20], sr[:20]]}", case=case,
                                 impl=sorted((got // lanes).tolist()), model=want, signature="collapse-bins")
                        break
                else:
                    continue
                break
        # custom functions that return a view of the matrix they are handed (slot k of the NaN-padded column = the
        # (k+1)-th partner in pair order, NaN below the last partner; theorem collapse_custom_function): every variable
        # holds ITS OWN values, also after the other variables and the later calls of the history have been collapsed
        arrs = obs["arrays"][o["other"]]
        height = int((cs if ref_secondary else cp)[2][0])
        plist = [cols_spec[rowpos[r]] for r in range(n_ref)]
        view_bad = False
        for f, which in [(f, "") for f in VIEWS] + [("first", " (call with {'std': f, 'first': f1} later in the history)")]:
            slot = VIEW_SLOT[f](height)
            idx = np.array([pp[slot] if slot < len(pp) else -1 for pp in plist], dtype=int)
            for v in VIEW_VARS:
                got = (o.get("first_again") or {}).get(v) if which else o["stats"][v].get(f)
                if which and "first_again" not in o:
                    continue
                if got is None or got.shape[0] != n_ref:
                    ctx.fail(kind, f"{label}: collapse(reference={o['ref']}) returned no usable {o['other']}/{v}_{f}{which}",
                             case=case, signature="collapse-missing")
                    view_bad = True
                    break
                src = np.asarray(arrs[v], dtype=float)
                want = src[np.maximum(idx, 0)]
                want[idx < 0] = np.nan
                gotf = np.asarray(got, dtype=float)
                if not same(gotf, want):
                    r = 0
                    if gotf.shape == want.shape:
                        r = int(np.argwhere(~((gotf == want) | (np.isnan(gotf) & np.isnan(want))).reshape(n_ref, -1).all(axis=1))[0][0])
                    ctx.fail(kind, f"{label}: collapse(reference={o['ref']}, collapser={{'{f}': lambda m, a: m[{slot}]}}){which}: "
                             f"{o['other']}/{v}_{f} of reference point {o['ref_ids'][r]} is {np.asarray(gotf[r]).ravel()[:4].tolist()}; "
                             f"its partner points in the order of the pair list are {[other_ids[j] for j in plist[r]][:12]}, slot {slot} "
                             f"of its NaN-padded bin (height {height}) holds {np.asarray(want[r]).ravel()[:4].tolist()} of {o['other']}/{v}"
,
                             case=case, impl=np.asarray(gotf[r]).ravel()[:8].tolist(), model=np.asarray(want[r]).ravel()[:8].tolist(),
                             signature="collapse-custom-view")
                    view_bad = True
                    break
            if view_bad:
                break
        # the statistics
        done = False
        for v in ("u", "w", "k"):
            st = o["stats"][v]
            src = arrs[v].astype(float)
            scale = max(1.0, float(np.nanmax(np.abs(src))) if np.isfinite(src).any() else 1.0)
            for f in ("mean", "std", "number", "rec"):
                if st[f] is None or st[f].shape[0] != n_ref:
                    ctx.fail(kind, f"{label}: collapse(reference={o['ref']}) returned no usable {o['other']}/{v}_{f}",
                             case=case, signature="collapse-missing")
                    done = True
                    break
            if done:
                break
            # exactly: the count of valid partner values per lane as Coq states it (w: from the validity flags through
            # run_collapse_m; u, k hold no NaN: the number of partners), and NaN-ness of mean / std <-> that count is 0
            cnt_spec = (cs if ref_secondary else cp)[4]
            got_n = np.asarray(st["number"]).reshape(n_ref, -1)
            if v == "w":
                want_n = np.array([cnt_spec[rowpos[r]] for r in range(n_ref)], dtype=np.int64).reshape(n_ref, -1)
            else:
                want_n = np.repeat(np.array([[len(cols_spec[rowpos[r]])] for r in range(n_ref)], dtype=np.int64),
                                   max(1, got_n.shape[1]), axis=1)
            if got_n.shape != want_n.shape or not np.array_equal(got_n, want_n):
                bad = np.argwhere(got_n != want_n)[0] if got_n.shape == want_n.shape else [0, 0]
                r = int(bad[0])
                ctx.fail(kind, f"{label}: collapse(reference={o['ref']}): {o['other']}/{v}_number of reference point "
                         f"{o['ref_ids'][r]} is {got_n[r].tolist()}, its partner points "
                         f"{[other_ids[j] for j in cols_spec[rowpos[r]]]} hold {want_n[r].tolist() if got_n.shape == want_n.shape else want_n.shape} "
                         f"values that are not NaN (per lane)", case=case, impl=got_n[r].tolist(),
                         model=want_n[r].tolist() if got_n.shape == want_n.shape else None, signature="collapse-number-exact")
                break
            for f in ("mean", "std"):
                got_nan = np.isnan(np.asarray(st[f], dtype=float)).reshape(n_ref, -1)
                if got_nan.shape != want_n.shape or not np.array_equal(got_nan, want_n == 0):
                    bad = np.argwhere(got_nan != (want_n == 0))[0] if got_nan.shape == want_n.shape else [0, 0]
                    r = int(bad[0])
                    ctx.fail(kind, f"{label}: collapse(reference={o['ref']}): {o['other']}/{v}_{f} of reference point "
                             f"{o['ref_ids'][r]} is {np.asarray(st[f], dtype=float).reshape(n_ref, -1)[r].tolist()}; it has to be NaN "
                             f"exactly in the lanes without a valid partner value (valid values per lane: {want_n[r].tolist()})",
                             case=case, impl=got_nan[r].tolist(), model=(want_n[r] == 0).tolist(), signature="collapse-nan-exact")
                    done = True
                    break
            if done:
                break
            for r in range(n_ref):
                part = src[cols_spec[rowpos[r]]] if cols_spec[rowpos[r]] else src[:0]
                want = stats_ld(part)
                for f in ("number", "mean", "std", "rec"):
                    if not close(st[f][r], want[f], scale):
                        ctx.fail(kind, f"{label}: collapse(reference={o['ref']}): {o['other']}/{v}_{f} of reference point "
                                 f"{o['ref_ids'][r]} is {np.asarray(st[f][r]).tolist()}, the NaN-ignoring {f} over its "
                                 f"partner points {[other_ids[j] for j in cols_spec[rowpos[r]]]} is "
                                 f"{np.asarray(want[f], dtype=float).tolist()}", case=case,
                                 impl=np.asarray(st[f][r]).tolist(), model=np.asarray(want[f], dtype=float).tolist(),
                                 signature=f"collapse-{f}")
                        done = True
                        break
                if done:
                    break
            if done:
                break
        # the high-conditioning variable p (every third dataset): mean and std within the error bound of the two-pass
        # algorithm (see HC_RATIOS), number exactly, NaN-ness exactly; bins whose values are all equal: std exactly 0
        if "p" in arrs and "p" in o["stats"]:
            judge_hc(ctx, case, label, o, arrs["p"].astype(float), [cols_spec[rowpos[r]] for r in range(n_ref)], other_ids)
    mult_p = [pr.count(i) for i in set(pr)] if len(pr) < 400 else [2, 1]
    mult_s = [sr.count(i) for i in set(sr)] if len(sr) < 400 else [2, 1]
    return (max(mult_p) >= 2 and len(set(mult_p)) > 1) or (max(mult_s) >= 2 and len(set(mult_s)) > 1)


def check_ds_cases(ctx, cases, shard=40):
    built = []
    for c in cases:
        names = c["layout"]["names"]
        ds = build_dataset(c, c["layout"])
        refs = sorted({None, c["reference"], 1}, key=str)
        built.append((c, ds, names, observe_dataset(ds, names, refs)))
    vals, log = core.coq_eval(ctx.work / "cases", f"ds{shard}", PREAMBLE,
                              [ds_expr(c["np"], c["ns"], *c["pairs"], w_masks(ds, names)) for c, ds, names, _ in built],
                              shard=shard, timeout=900)
    if log:
        ctx.log(log[-2000:])
    nontrivial = set()
    for (c, ds, names, obs), v in zip(built, vals):
        ctx.cov["evaluations"] += 1
        if judge_dataset(ctx, c, ds, names, obs, v, f"dataset({c['style']}, {len(c['pairs'][0])} pairs)"):
            nontrivial.add(repr((c["pairs"], c["layout"]["u_extra"], c["layout"]["nan"])))
        if c["id"] % 37 == 0:
            ctx.sample({"dataset": {"np": c["np"], "ns": c["ns"], "pairs": [c["pairs"][0][:12], c["pairs"][1][:12]],
                                    "u_extra": c["layout"]["u_extra"], "nan": c["layout"]["nan"]},
                        "expand_rows": (v[2][:6] if v else None)})
    return len(nontrivial)


# ----------------------------------------------------------------------------- concat

def check_concat_cases(ctx, cases):
    from typhon.collocations.collocator import concat_collocations
    from typhon.collocations import expand
    exprs, built = [], []
    for c in cases:
        lay, names = c["layout"], c["layout"]["names"]
        objs, offp, offs, tag = [], 0, 0, 0
        for j, part in enumerate(c["parts"]):
            objs.append(build_dataset(part, lay, idbase=(1000 * j, 5000 + 1000 * j), tagbase=10000 * j, salt=j))
        lst = [objs[a] for a in c["alias"]]
        pristine = [o.copy(deep=True) for o in lst]
        o = {}
        try:
            with warnings.catch_warnings():
                warnings.simplefilter("ignore")
                cat = concat_collocations(lst)
            dts = ctx.cov.setdefault("pairs_dtype", {"collocate_results": {}, "concatenations": {}})["concatenations"]
            dts[str(cat["Collocations/pairs"].dtype)] = dts.get(str(cat["Collocations/pairs"].dtype), 0) + 1
            o["pairs"] = cat["Collocations/pairs"].values.astype(int).tolist()
            o["sizes"] = [int(cat.sizes[f"{names[0]}/collocation"]), int(cat.sizes[f"{names[1]}/collocation"])]
            o["groups"] = [str(x) for x in cat["Collocations/group"].values]
            arrays = {g: point_arrays(cat, g) for g in names}
            # rows of the expanded concatenation as (tag, primary id, secondary id): ids are unique per part, but a part
            # may occur twice (aliasing), so the expected rows are taken from the pristine copies in list order
            try:
                ex = expand(cat.copy(deep=True))
                o["rows"] = [[int(t), int(a), int(b)] for t, a, b in zip(
                    ex["Collocations/interval"].values, ex[f"{names[0]}/id"].values, ex[f"{names[1]}/id"].values)]
                bad = None
                for g in names:
                    stored = {}
                    for p in pristine:
                        pa = point_arrays(p, g)
                        for k, i in enumerate(pa["id"]):
                            stored[int(i)] = {v: a[k] for v, a in pa.items()}
                    known = set(point_arrays(pristine[0], g))
                    for v in arrays[g]:
                        if v not in known:
                            continue          # a variable without point dimension (not fixed by the property)
                        var = ex[f"{g}/{v}"]
                        got = np.moveaxis(np.asarray(var.values), var.dims.index("collocation"), 0)
                        for k, i in enumerate(ex[f"{g}/id"].values):
                            if not same(got[k], stored[int(i)][v]):
                                bad = f"{g}/{v} of row {k} is not the value of point {int(i)}"
                                break
                        if bad:
                            break
                    if bad:
                        break
                o["values"] = bad
            except Exception as e:  # noqa
                o["rows"] = err(e)
        except Exception as e:  # noqa
            o["error"] = err(e)
        # the inputs afterwards
        o["after"] = [x["Collocations/pairs"].values.astype(int).tolist() for x in lst]
        o["before"] = [x["Collocations/pairs"].values.astype(int).tolist() for x in pristine]
        expect = []
        for p in pristine:
            try:
                ex = expand(p.copy(deep=True))
                expect += [[int(t), int(a), int(b)] for t, a, b in zip(
                    ex["Collocations/interval"].values, ex[f"{names[0]}/id"].values, ex[f"{names[1]}/id"].values)]
            except Exception as e:  # noqa
                expect = err(e)
                break
        o["expect_from_expand"] = expect
        built.append(o)
        parts = [c["parts"][a] for a in c["alias"]]
        dsl = coq_list([f"mk_ids {zlist(p['pairs'][0])} {zlist(p['pairs'][1])} "
                        f"{zlist(range(1000 * a, 1000 * a + p['np']))} {zlist(range(5000 + 1000 * a, 5000 + 1000 * a + p['ns']))}"
                        for a, p in zip(c["alias"], parts)])
        # validity of the inputs as they are after the call (certified checker)
        after = coq_list([coq_list([f"compact_okb (ids_cds {zlit(p['np'])} {zlit(p['ns'])} {zlist(x[0])} {zlist(x[1])})"])
                          for p, x in zip(parts, o["after"])])
        exprs.append(f"(run_concat {dsl}, {after})")
    vals, log = core.coq_eval(ctx.work / "cases", "cc", PREAMBLE, exprs, shard=40)
    if log:
        ctx.log(log[-2000:])
    nontrivial = set()
    for c, o, v in zip(cases, built, vals):
        ctx.cov["evaluations"] += 1
        names = c["layout"]["names"]
        if v is None:
            ctx.fail("correspondence", "Coq evaluation of concat_c failed", case=c, signature="coq-eval")
            continue
        okb, ex_model, ex_spec, (mp, ms), after_ok = v
        after_ok = [x[0] for x in after_ok]
        if not okb:
            ctx.fail("correspondence", "generated concat case is not compact (harness error)", case=c,
                     signature="harness-not-compact")
            continue
        if ex_model != ex_spec:
            ctx.fail("proof", "expand(concat_c ds) and concat(map expand ds) disagree inside Coq", case=c,
                     signature="model-vs-spec")
        aliased = len(set(c["alias"])) < len(c["alias"])
        desc = f"concat_collocations of {len(c['alias'])} datasets" + (" (one dataset listed twice)" if aliased else "")
        if "error" in o:
            ctx.fail("failing-input", f"{desc} raised {o['error']}", case=c, impl=o["error"], signature="concat-error")
            continue
        # expected rows: ids named by the specification, tags from the pristine copies
        want_ids = [[a, b] for a, b in ex_spec]
        if isinstance(o["expect_from_expand"], str):
            ctx.fail("failing-input", f"expand of an input raised {o['expect_from_expand']}", case=c, signature="expand-error")
            continue
        if [[a, b] for _, a, b in o["expect_from_expand"]] != want_ids:
            ctx.fail("failing-input", "expand of the inputs differs from the specification", case=c,
                     impl=o["expect_from_expand"][:40], model=want_ids[:40], signature="expand-rows")
            continue
        sig = "concat-same-dataset-twice" if aliased else "concat-expand"
        if isinstance(o["rows"], str):
            ctx.fail("failing-input", f"expand({desc}) raised {o['rows']}; result pairs {o['pairs']}", case=c,
                     impl=o["rows"], model=want_ids[:40], signature=sig)
        elif sorted(o["rows"]) != sorted(o["expect_from_expand"]):
            ctx.fail("failing-input", f"expand({desc}) has rows (pair tag, primary id, secondary id) {sorted(o['rows'])[:16]}..., "
                     f"the concatenation of the expanded inputs is {sorted(o['expect_from_expand'])[:16]}...; "
                     f"result pairs {[o['pairs'][0][:16], o['pairs'][1][:16]]}, input pairs {[b for b in o['before']]}"[:900],
                     case=c, impl=sorted(o["rows"])[:60], model=sorted(o["expect_from_expand"])[:60], signature=sig)
        elif o["values"]:
            ctx.fail("failing-input", f"expand({desc}): {o['values']}", case=c, impl=o["values"], signature="concat-values")
        elif o["groups"] != names:
            ctx.fail("failing-input", f"{desc}: Collocations/group is {o['groups']}", case=c, signature="concat-group")
        # the inputs must still be collocation results (first sentence of the property)
        for j, (ok, before, after) in enumerate(zip(after_ok, o["before"], o["after"])):
            if not ok:
                ctx.fail("failing-input", f"after {desc}, input dataset {j} is no longer consistent: its Collocations/pairs "
                         f"{[after[0][:12], after[1][:12]]} (before the call {[before[0][:12], before[1][:12]]}) are not valid "
                         f"indices into its {c['parts'][c['alias'][j]]['np']} primary / {c['parts'][c['alias'][j]]['ns']} secondary points",
                         case=c, impl=after, model=before, signature="concat-corrupts-input")
                break
        if len(c["alias"]) >= 2 and any(len(set(p["pairs"][0])) < len(p["pairs"][0]) for p in c["parts"]):
            nontrivial.add(repr((c["parts"], c["alias"])))
        if c["id"] % 23 == 0:
            ctx.sample({"concat": [p["pairs"] for p in c["parts"]][:3], "alias": c["alias"], "expanded_ids": ex_spec[:6]}, limit=8)
    return len(nontrivial)


# ----------------------------------------------------------------------------- Collocator.collocate

def build_points(c):
    import xarray as xr
    nrng = np.random.default_rng([c["cseed"], 7])
    lay = c["layout"]
    centres = [(-60 + 25 * i, -150 + 60 * i) for i in range(c["clusters"])]
    out = []
    for g, n in ((0, c["n_p"]), (1, c["n_s"])):
        cl = nrng.integers(0, len(centres) + (1 if g == 0 else 0), size=n)     # primaries may sit in an empty cluster
        lat = np.array([centres[i][0] if i < len(centres) else 70.0 for i in cl]) + nrng.uniform(-0.01, 0.01, n)
        lon = np.array([centres[i][1] if i < len(centres) else 100.0 + 7 * g for i in cl]) + nrng.uniform(-0.01, 0.01, n)
        sec = nrng.integers(0, 1800, size=n)
        sec[nrng.random(n) < c["late"]] += 6 * 3600
        gv = group_vars(n, g, lay, 0, nrng)
        gv.pop("freq", None)
        ds = xr.Dataset()
        for v, (dims, arr) in gv.items():
            ds[v] = ([("t" if d == "P" else d) for d in dims], arr)
        ds["time"] = ("t", np.datetime64("2001-01-01") + sec.astype("m8[s]"))
        ds["lat"] = ("t", lat)
        ds["lon"] = ("t", lon)
        out.append(ds)
    return out


def build_sparse_points(c):
    """the two datasets of a sparse case (see gen_sparse_case), the expected pairs (track id, station id) by construction
    and the smallest margin of the brute-force decision (km to the distance threshold)"""
    import xarray as xr
    sp, lay = c["sparse"], c["layout"]
    nrng = np.random.default_rng([c["cseed"], 11])
    n, at, width = sp["n_track"], sp["at"], sp["grid"]
    g_track = 0 if sp["role"] == "long_primary" else 1
    pos = np.array([track_position(k, n) for k in range(n)])
    tsec = np.arange(n, dtype=np.int64)
    if sp["time_reversed"]:
        tsec = tsec[::-1].copy()
    gv = group_vars(n, g_track, lay, 0, nrng)
    gv.pop("freq", None)
    track = xr.Dataset()
    if width:
        lines = n // width
        for v, (dims, arr) in gv.items():
            ax = dims.index("P")
            arr = np.asarray(arr)
            track[v] = (dims[:ax] + ["scnline", "scnpos"] + dims[ax + 1:],
                        arr.reshape(arr.shape[:ax] + (lines, width) + arr.shape[ax + 1:]))
        track["time"] = ("scnline", np.datetime64("2001-01-01") + tsec.reshape(lines, width)[:, 0].astype("m8[s]"))
        track["lat"] = (("scnline", "scnpos"), pos[:, 0].reshape(lines, width))
        track["lon"] = (("scnline", "scnpos"), pos[:, 1].reshape(lines, width))
        ttime = np.repeat(tsec.reshape(lines, width)[:, 0], width)
    else:
        for v, (dims, arr) in gv.items():
            track[v] = ([("t" if d == "P" else d) for d in dims], arr)
        track["time"] = ("t", np.datetime64("2001-01-01") + tsec.astype("m8[s]"))
        track["lat"] = ("t", pos[:, 0])
        track["lon"] = ("t", pos[:, 1])
        ttime = tsec
    m = len(at)
    slat = np.array([88.0 if a is None else pos[a, 0] for a in at]) + nrng.uniform(-0.02, 0.02, m)
    slon = np.array([(37.0 * j) % 360 - 180 if a is None else pos[a, 1] for j, a in enumerate(at)]) + nrng.uniform(-0.02, 0.02, m)
    ssec = np.arange(m, dtype=np.int64) * 60
    for j in sp["late"]:
        ssec[j] += 6 * 3600
    gs = group_vars(m, 1 - g_track, lay, 0, nrng)
    gs.pop("freq", None)
    st = xr.Dataset()
    for v, (dims, arr) in gs.items():
        st[v] = ([("t" if d == "P" else d) for d in dims], arr)
    st["time"] = ("t", np.datetime64("2001-01-01") + ssec.astype("m8[s]"))
    st["lat"] = ("t", slat)
    st["lon"] = ("t", slon)
    # brute force: great-circle distance < 30 km (and |dt| < 2 h)
    la1, lo1 = np.deg2rad(pos[:, 0])[:, None], np.deg2rad(pos[:, 1])[:, None]
    la2, lo2 = np.deg2rad(slat)[None, :], np.deg2rad(slon)[None, :]
    h = np.sin((la2 - la1) / 2) ** 2 + np.cos(la1) * np.cos(la2) * np.sin((lo2 - lo1) / 2) ** 2
    dist = 2 * 6371.0 * np.arcsin(np.sqrt(h))
    near = dist < 30.0
    margin = float(np.abs(dist - 30.0).min())
    if c["mode"] == "both":
        dt = np.abs(ttime[:, None] - ssec[None, :])
        near &= dt < 7200
        margin = min(margin, float(np.abs(dt - 7200).min()) / 100.0)
    expected = sorted((int(i), int(j)) for i, j in zip(*np.nonzero(near)))
    if g_track == 1:
        expected = sorted((j, i) for i, j in expected)
    out = [track, st] if g_track == 0 else [st, track]
    return out[0], out[1], expected, margin


def source_points(src, v):
    """variable v of an input dataset with the point axis first (a gridded swath flattened line by line); None when v does
    not depend on all point dimensions"""
    if v not in src:
        return None
    sv = src[v]
    if "t" in sv.dims:
        return np.moveaxis(np.asarray(sv.values), sv.dims.index("t"), 0)
    if "scnline" in sv.dims and "scnpos" in sv.dims:
        sv = sv.transpose("scnline", "scnpos", ...)
        a = np.asarray(sv.values)
        return a.reshape((a.shape[0] * a.shape[1],) + a.shape[2:])
    return None


def check_collocate_cases(ctx, cases, tag=""):
    from typhon.collocations import Collocator
    exprs, built, dsx = [], [], []
    skipped = 0
    for c in cases:
        names = c["layout"]["names"]
        expected = None
        if "sparse" in c:
            P, S, expected, margin = build_sparse_points(c)
            if margin < 5.0:
                expected = None                 # (never: the generated geometry decides every pair with a wide margin)
        else:
            P, S = build_points(c)
        col = Collocator()
        rec = {}
        orig = col._create_return

        def wrap(*a, _orig=orig, _rec=rec, **k):
            raw = np.array(a[4]).astype(int).copy()
            # `original_pairs` index the datasets handed to _create_return, i.e. the points after collocate's own
            # preparation (selection of the common period, sorting by time); the `id` variable those datasets carry
            # names the points of the input, so the raw pairs are expressed in input positions through it
            try:
                pid = np.asarray(a[0]["id"].values).astype(int).ravel()
                sid = np.asarray(a[1]["id"].values).astype(int).ravel()
                if raw.size:
                    raw = np.vstack([pid[raw[0]], sid[raw[1]]])
            except Exception:  # noqa
                pass
            _rec["raw"] = raw
            return _orig(*a, **k)
        col._create_return = wrap
        kw = {"max_distance": "30 km"}
        if c["mode"] == "both":
            kw["max_interval"] = "2h"
        try:
            with warnings.catch_warnings():
                warnings.simplefilter("ignore")
                np.random.seed(c["cseed"] % (2 ** 31))
                r = col.collocate((names[0], P), (names[1], S), **kw)
        except Exception as e:  # noqa   (the search itself is C04's business)
            skipped += 1
            built.append(None)
            continue
        if "raw" not in rec or r is None or "Collocations/pairs" not in getattr(r, "variables", {}):
            skipped += 1          # nothing found (or the single pair (0,0), design defect #5 of C04/C06)
            built.append(None)
            continue
        raw = rec["raw"]
        dts = ctx.cov.setdefault("pairs_dtype", {"collocate_results": {}, "concatenations": {}})["collocate_results"]
        dts[str(r["Collocations/pairs"].dtype)] = dts.get(str(r["Collocations/pairs"].dtype), 0) + 1
        out_pairs = r["Collocations/pairs"].values.astype(int)
        # Collocations/interval becomes the per-pair tag by which expanded rows are matched
        r["Collocations/interval"] = ("Collocations/collocation", np.arange(out_pairs.shape[1], dtype=float))
        idp = [int(i) for i in r[f"{names[0]}/id"].values]
        ids = [int(i) for i in r[f"{names[1]}/id"].values]
        # are the stored values those of the original points?
        bad = None
        for g, src, idl in ((names[0], P, idp), (names[1], S, ids)):
            pa = point_arrays(r, g)
            for v, arr in pa.items():
                want = source_points(src, v)
                if want is None:
                    continue                     # an index variable added by collocate for gridded data
                want = want[np.array(idl, dtype=int)]
                if not same(arr, want):
                    bad = f"{g}/{v} does not hold the values of the original points {idl[:10]}"
        built.append({"raw": raw.tolist(), "out": out_pairs.tolist(), "idp": idp, "ids": ids, "values": bad,
                      "ds": r, "names": names, "expected": expected})
        exprs.append((len(built) - 1,
                      f"(check_compaction {zlist(raw[0])} {zlist(raw[1])} {zlist(idp)} {zlist(ids)} "
                      f"{zlist(out_pairs[0])} {zlist(out_pairs[1])}, run_compact {zlist(raw[0])}, run_compact {zlist(raw[1])})"))
    vals, log = core.coq_eval(ctx.work / "cases", "col" + tag, PREAMBLE, [e for _, e in exprs], shard=40)
    if log:
        ctx.log(log[-2000:])
    nontrivial = set()
    identical = 0
    follow = []
    for (bi, _), v in zip(exprs, vals):
        c, o = cases[bi], built[bi]
        ctx.cov["evaluations"] += 1
        if v is None:
            ctx.fail("correspondence", "Coq evaluation of the compaction failed", case=c, signature="coq-eval")
            continue
        okb, same_points, once, (mu_p, mi_p), (mu_s, mi_s) = v
        label = f"Collocator.collocate({c['n_p']} x {c['n_s']} points, {len(o['raw'][0])} raw pairs)"
        if not okb:
            ctx.fail("failing-input", f"{label}: Collocations/pairs {o['out']} are not valid indices into the "
                     f"{len(o['idp'])} / {len(o['ids'])} stored points, or a stored point takes part in no pair "
                     f"(raw pairs {o['raw']})", case=c, impl=o["out"], model=[mi_p, mi_s], signature="compaction-invalid")
            continue
        if not same_points or not once or o["values"]:
            ctx.fail("failing-input", f"{label}: the compact pairs {o['out']} with stored points {o['idp']} / {o['ids']} do not "
                     f"name the original pairs {o['raw']} ({o['values'] or 'index mismatch'})", case=c, impl=o["out"],
                     model=[mi_p, mi_s], signature="compaction-points")
            continue
        if (o["idp"], o["out"][0], o["ids"], o["out"][1]) == (mu_p, mi_p, mu_s, mi_s):
            identical += 1
        if len(set(o["raw"][0])) < len(o["raw"][0]) or len(set(o["raw"][1])) < len(o["raw"][1]):
            nontrivial.add(repr(o["raw"]))
        follow.append((c, o))
        if c["id"] % 11 == 0:
            ctx.sample({"collocate_raw_pairs": [o["raw"][0][:12], o["raw"][1][:12]], "stored": [o["idp"][:8], o["ids"][:8]],
                        "compact_pairs": [o["out"][0][:12], o["out"][1][:12]]}, limit=9)
    # the results of collocate go through expand / collapse like every other compact dataset
    obs = [observe_dataset(o["ds"], o["names"], [None, 1]) for _, o in follow]
    vals, log = core.coq_eval(ctx.work / "cases", "colds" + tag, PREAMBLE,
                              [ds_expr(len(o["idp"]), len(o["ids"]), o["out"][0], o["out"][1], w_masks(o["ds"], o["names"]))
                               for _, o in follow], shard=40)
    if log:
        ctx.log(log[-2000:])
    for (c, o), ob, v in zip(follow, obs, vals):
        ctx.cov["evaluations"] += 1
        judge_dataset(ctx, c, o["ds"], o["names"], ob, v, f"result of Collocator.collocate ({len(o['raw'][0])} pairs)")
        # sparse cases: the expanded rows are the pairs of the brute-force search (the geometry of these cases decides
        # every pair by a margin of kilometres / minutes), carrying the original data (the id travels with the data)
        e = ob["expand"]
        if o.get("expected") is not None and not isinstance(e, str):
            found = sorted((o["idp"][a], o["ids"][b]) for _, a, b in e["rows"] if a >= 0 and b >= 0)
            if found != o["expected"]:
                ctx.fail("failing-input", f"Collocator.collocate({c['n_p']} x {c['n_s']} points, sparse): the expanded rows connect the "
                         f"original points {found[:14]}; the points within 30 km"
                         + (" and 2 h" if c["mode"] == "both" else "") + f" of each other are {o['expected'][:14]} "
                         f"(stored points {o['idp'][:14]} / {o['ids'][:14]}, Collocations/pairs {o['out']})"[:700],
                         case=c, impl=found[:60], model=o["expected"][:60], signature="collocate-bruteforce")
    ctx.cov.setdefault("collocate" + ("_sparse" if tag else ""), {}).update(
        {"cases": len(cases), "without_result_or_search_error": skipped,
         "stored_order_identical_to_model": identical, "checked": len(exprs)})
    return len(nontrivial)


# ----------------------------------------------------------------------------- concat of collocate results

def expanded_table(ex, names):
    """rows of an expanded dataset sorted by the per-pair tag: (tags, {variable: array with the row axis first})"""
    tags = np.asarray(ex["Collocations/interval"].values, dtype=float)
    order = np.argsort(tags, kind="stable")
    tab = {}
    for name, var in ex.variables.items():
        name = str(name)
        if "collocation" in var.dims and name.split("/")[0] in names:
            tab[name] = np.moveaxis(np.asarray(var.values), var.dims.index("collocation"), 0)[order]
    return tags[order], tab


def np_compact_ok(pairs, sizes):
    """compact_ok evaluated with numpy (only for the case that is too big for the certified checker)"""
    pairs = np.asarray(pairs)
    if pairs.ndim != 2 or pairs.shape[0] != 2:
        return False
    for row, n in zip(pairs.astype(np.int64), sizes):
        if row.size and (row.min() < 0 or row.max() >= n):
            return False
        if np.unique(row).size != n:
            return False
    return True


def check_ccol_cases(ctx, cases):
    from typhon.collocations import Collocator, expand
    from typhon.collocations.collocator import concat_collocations
    dtypes = ctx.cov.setdefault("pairs_dtype", {"collocate_results": {}, "concatenations": {}})
    exprs, built = [], []
    for c in cases:
        names = c["layout"]["names"]
        kw = {"max_distance": "30 km"}
        if c["mode"] == "both":
            kw["max_interval"] = "2h"
        o = {"parts": [], "harness": None}
        built.append(o)
        tagbase = 0
        for j in range(len(c["parts"])):
            P, S = build_cloud(c, j)
            try:
                with warnings.catch_warnings():
                    warnings.simplefilter("ignore")
                    np.random.seed(c["cseed"] % (2 ** 31))
                    r = Collocator().collocate((names[0], P), (names[1], S), **kw)
            except Exception as e:  # noqa
                o["harness"] = f"Collocator.collocate raised {err(e)}"
                break
            if r is None or "Collocations/pairs" not in getattr(r, "variables", {}):
                o["harness"] = "Collocator.collocate found nothing"
                break
            dt = str(r["Collocations/pairs"].dtype)
            dtypes["collocate_results"][dt] = dtypes["collocate_results"].get(dt, 0) + 1
            npairs = int(r["Collocations/pairs"].shape[1])
            r["Collocations/interval"] = ("Collocations/collocation", np.arange(npairs, dtype=float) + tagbase)
            tagbase += npairs
            o["parts"].append(r)
        if o["harness"]:
            continue
        parts = o["parts"]
        o["sizes"] = [[int(r.sizes[f"{g}/collocation"]) for g in names] for r in parts]
        o["pairs_in"] = [r["Collocations/pairs"].values.astype(np.int64) for r in parts]
        o["ids"] = [[[int(i) for i in r[f"{g}/id"].values] for g in names] for r in parts]
        o["npairs"] = sum(x.shape[1] for x in o["pairs_in"])
        # the oracle is computed BEFORE the concatenation, from deep copies of the single parts
        try:
            o["expect"] = [expanded_table(expand(r.copy(deep=True)), names) for r in parts]
        except Exception as e:  # noqa
            o["expect"] = err(e)
        try:
            with warnings.catch_warnings():
                warnings.simplefilter("ignore")
                cat = concat_collocations([r.copy(deep=True) for r in parts])
            dt = str(cat["Collocations/pairs"].dtype)
            dtypes["concatenations"][dt] = dtypes["concatenations"].get(dt, 0) + 1
            o["cat_pairs"] = cat["Collocations/pairs"].values.astype(np.int64)
            o["cat_sizes"] = [int(cat.sizes[f"{g}/collocation"]) for g in names]
            o["groups"] = [str(x) for x in cat["Collocations/group"].values]
            try:
                o["got"] = expanded_table(expand(cat.copy(deep=True)), names)
            except Exception as e:  # noqa
                o["got"] = err(e)
        except Exception as e:  # noqa
            o["error"] = err(e)
        if o["npairs"] <= CCOL_COQ_LIMIT:
            dsl = coq_list([f"mk_ids {zlist(pin[0])} {zlist(pin[1])} {zlist(ids[0])} {zlist(ids[1])}"
                            for pin, ids in zip(o["pairs_in"], o["ids"])])
            cat_ok = "true"
            if "cat_pairs" in o:
                cat_ok = (f"compact_okb (ids_cds {zlit(o['cat_sizes'][0])} {zlit(o['cat_sizes'][1])} "
                          f"{zlist(o['cat_pairs'][0])} {zlist(o['cat_pairs'][1])})")
            exprs.append((len(built) - 1, f"(run_concat {dsl}, [{cat_ok}])"))
    vals, log = core.coq_eval(ctx.work / "cases", "ccol", PREAMBLE, [e for _, e in exprs], shard=1, timeout=600)
    if log:
        ctx.log(log[-2000:])
    coqval = {bi: v for (bi, _), v in zip(exprs, vals)}
    nontrivial = set()
    for bi, (c, o) in enumerate(zip(cases, built)):
        ctx.cov["evaluations"] += 1
        names = c["layout"]["names"]
        if o["harness"]:
            ctx.fail("correspondence", f"directed concat-of-collocate case: {o['harness']} (the search is C04's business)", case=c,
                     signature="harness-collocate")
            continue
        sizes = o["sizes"]
        desc = (f"concat_collocations of {len(sizes)} results of Collocator.collocate with {[x[0] for x in sizes]} / "
                f"{[x[1] for x in sizes]} stored points")
        in_coq = bi in coqval
        if in_coq:
            v = coqval[bi]
            if v is None:
                ctx.fail("correspondence", "Coq evaluation of run_concat failed", case=c, signature="coq-eval")
                continue
            okb, ex_model, ex_spec, (mp, ms), (cat_ok,) = v
            if okb and ex_model != ex_spec:
                ctx.fail("proof", "expand(concat_c ds) and concat(map expand ds) disagree inside Coq", case=c,
                         signature="model-vs-spec")
        else:
            okb = all(np_compact_ok(pin, sz) for pin, sz in zip(o["pairs_in"], sizes))
            ex_spec = None
            cat_ok = np_compact_ok(o["cat_pairs"], o["cat_sizes"]) if "cat_pairs" in o else True
        if not okb:
            ctx.fail("failing-input", f"{desc}: a single result does not satisfy compact_ok (valid indices, every stored point in "
                     f"a pair): pairs {[x[:, :8].tolist() for x in o['pairs_in']]}", case=c, signature="compaction-invalid")
            continue
        if isinstance(o["expect"], str):
            ctx.fail("failing-input", f"expand of a result of Collocator.collocate raised {o['expect']}", case=c,
                     signature="expand-error")
            continue
        # expand of the single parts is what the specification says (ids named by Coq), in pair order
        if ex_spec is not None:
            got_ids = [[int(a), int(b)] for tags, tab in o["expect"]
                       for a, b in zip(tab[f"{names[0]}/id"], tab[f"{names[1]}/id"])]
            if got_ids != [list(x) for x in ex_spec]:
                ctx.fail("failing-input", f"{desc}: expand of the single results differs from the specification", case=c,
                         impl=got_ids[:40], model=ex_spec[:40], signature="expand-rows")
                continue
        if "error" in o:
            ctx.fail("failing-input", f"{desc} raised {o['error']}", case=c, impl=o["error"], signature="concat-error")
            continue
        if not cat_ok:
            used = [int(np.unique(row).size) for row in o["cat_pairs"]]
            ctx.fail("failing-input", f"{desc}: in the concatenation only {used} of the {o['cat_sizes']} stored points take part in "
                     f"a pair, or Collocations/pairs holds invalid indices (largest indices {o['cat_pairs'].max(axis=1).tolist()}); "
                     f"every single result is compact", case=c, impl=used, model=o["cat_sizes"], signature="concat-collocate-invalid")
        if isinstance(o["got"], str):
            ctx.fail("failing-input", f"expand({desc}) raised {o['got']}", case=c, impl=o["got"], signature="concat-collocate-expand")
            continue
        want_tags = np.concatenate([t for t, _ in o["expect"]])
        tags, tab = o["got"]
        if tags.shape != want_tags.shape or not np.array_equal(tags, want_tags):
            ctx.fail("failing-input", f"expand({desc}) has {tags.size} rows, the expanded single results have {want_tags.size} "
                     f"(or the per-pair variables differ)", case=c, impl=int(tags.size), model=int(want_tags.size),
                     signature="concat-collocate-expand")
            continue
        for name in sorted(o["expect"][0][1]):
            want = np.concatenate([t[name] for _, t in o["expect"]])
            if name not in tab or not same(tab[name], want):
                rows = "?"
                first = ""
                if name in tab and tab[name].shape == want.shape:
                    g, w = tab[name].reshape(want.shape[0], -1), want.reshape(want.shape[0], -1)
                    eq = (g == w) | ((g != g) & (w != w)) if g.dtype.kind == "f" else (g == w)
                    wrong = np.nonzero(~eq.all(axis=1))[0]
                    rows = int(wrong.size)
                    k0 = int(wrong[0])
                    j = int(np.searchsorted(np.cumsum([x.shape[1] for x in o["pairs_in"]]), k0, side="right"))
                    before = [sum(x[q] for x in sizes[:j]) for q in (0, 1)]
                    first = (f"; first wrong row {k0} (part {j + 1}): {g[k0][:3].tolist()}, expected {w[k0][:3].tolist()}; "
                             f"Collocations/pairs of that row {o['cat_pairs'][:, k0].tolist()}, stored points before its part {before}")
                ctx.fail("failing-input", f"expand({desc}): {rows} of {want.shape[0]} rows of {name} differ from expand(part 1) ++ "
                         f"expand(part 2) ...{first}"[:900], case=c, signature="concat-collocate-expand")
                break
        else:
            if o["groups"] != names:
                ctx.fail("failing-input", f"{desc}: Collocations/group is {o['groups']}", case=c, signature="concat-group")
        nontrivial.add(repr(sizes))
        ctx.sample({"concat_of_collocate_results": sizes, "pairs": o["npairs"], "evaluated_in_coq": in_coq,
                    "largest_pair_index": o["cat_pairs"].max(axis=1).tolist() if "cat_pairs" in o else None}, limit=12)
    ctx.cov.setdefault("concat_of_collocate", {}).update(
        {"cases": len(cases), "evaluated_in_coq": len(exprs),
         "stored_points_per_part": [o.get("sizes") for o in built]})
    return len(nontrivial)


# ----------------------------------------------------------------------------- check

def run(ctx):
    ctx.prove("Props/C13.v")
    import typhon.collocations.common as cm
    n_ds, n_big = ctx.n(160, 2400), ctx.n(3, 14)
    n_cc, n_col = ctx.n(60, 700), ctx.n(40, 400)
    ds_cases = [gen_ds_case(ctx.rng, k) for k in range(n_ds)]
    big_cases = [gen_ds_case(ctx.rng, 100000 + k, big=True) for k in range(n_big)]
    cc_cases = [gen_concat_case(ctx.rng, 200000 + k) for k in range(n_cc)]
    col_cases = [gen_collocate_case(ctx.rng, 300000 + k) for k in range(n_col)]
    # sparse, unordered results of collocate: directed (the same for every seed) and random ones (generated last: the cases
    # above are what they were for every seed)
    n_sp = ctx.n(16, 240)
    sp_cases = [gen_sparse_case(ctx.rng, 400000 + k, directed=d) for k, d in enumerate(SPARSE_DIRECTED)] \
        + [gen_sparse_case(ctx.rng, 410000 + k) for k in range(n_sp)]
    # concatenated results of collocate passing 255 / 65535 stored points: directed only (no random number drawn)
    ccol_cases = [gen_ccol_case(500000 + k, parts, mode) for k, (parts, mode) in enumerate(CCOL_DIRECTED)]
    a = check_ds_cases(ctx, ds_cases)
    ctx.log(f"datasets done ({n_ds})")
    b = check_ds_cases(ctx, big_cases, shard=1)
    ctx.log(f"big datasets done ({n_big})")
    c = check_concat_cases(ctx, cc_cases)
    ctx.log(f"concat done ({n_cc})")
    d = check_collocate_cases(ctx, col_cases)
    ctx.log(f"collocate done ({n_col})")
    d += check_collocate_cases(ctx, sp_cases, tag="sp")
    d += check_ccol_cases(ctx, ccol_cases)
    ctx.log(f"concat of collocate results done ({len(ccol_cases)})")
    ctx.cov["distinct_nontrivial"] = a + b + c + d
    ctx.cov["rule"] = ("harness-built compact datasets (1-1300 pairs; one-to-many, many-to-one, identity, full, skewed and random "
                       "multiplicities; shuffled / sorted pair order; arbitrary point numbering; variables with 0-2 extra "
                       "dimensions, transposed layout, NaNs incl. all-NaN points, integer data; default and named reference; a "
                       "custom collapser, view-returning custom collapsers first / last / middle slot on five variables per group (two scalar, two of one extra-dimension shape), a custom function overriding std, the pair list rearranged), lists of 1-4 datasets for concat (incl. the same dataset listed twice) and results "
                       "of Collocator.collocate on clustered points and on sparse, unordered track / station geometries (8 directed + random: 300-3000 track points, 3-12 stations, "
                       "both roles, flat and gridded) and directed concatenations of two / three dense results of collocate (120-200 stored points per group and part, running total "
                       "past 255; one case of 2 x 33000 points past 65535); every third dataset carries the high-conditioning variable p (|offset| / spread 1e5, 1e7, 1e9; "
                       "noise, two lanes, plateaus, constant); a dataset is non-trivial when some point has >= 2 partners "
                       "and the multiplicities are not all equal, a concat case when it has >= 2 entries and a repeated "
                       "primary, a collocate case when a point occurs in >= 2 raw pairs, every directed concat-of-collocate case; distinct by input")
    styles = {}
    for x in ds_cases + big_cases:
        styles[x["style"]] = styles.get(x["style"], 0) + 1
    ctx.cov["input_distribution"] = {
        "datasets": n_ds, "datasets_with_1000+_pairs": n_big, "concat_cases": n_cc, "collocate_cases": n_col,
        "sparse_collocate_cases": len(sp_cases), "sparse_directed": len(SPARSE_DIRECTED),
        "concat_of_collocate_directed": len(ccol_cases),
        "datasets_with_high_conditioning_variable": sum(1 for x in ds_cases + big_cases + col_cases + sp_cases + ccol_cases
                                                        if x["layout"].get("hc")),
        "high_conditioning": {"offset_over_spread": HC_RATIOS, "offsets": HC_OFFSETS, "shapes": HC_SHAPES,
                              "share": "case number divisible by 3 (seed-independent)"},
        "styles": styles, "numba_available": bool(getattr(cm, "_has_numba", False)),
        "row_assignment_variant_exercised": "numba" if getattr(cm, "_has_numba", False) else "pure Python (also for >= 1000 pairs)",
        "pairs_per_dataset": {"min": min(len(x["pairs"][0]) for x in ds_cases + big_cases),
                              "max": max(len(x["pairs"][0]) for x in ds_cases + big_cases)},
    }
    ctx.assumptions += [
        "hypothesis of the bin / expand / concat theorems: the pair rows satisfy compact_ok (valid indices, every stored point in a "
        "pair) -- decided per case by the certified checker compact_okb inside Coq; theorems compact_valid / compact_surjective / "
        "concat_compact_ok show that collocate and concat establish it",
        "data values are an abstract type in the bin theorems (a NaN-ignoring collapser is a function of the non-padding cells "
        "of a column); in the statistics theorems a lane of a value is `option R` (None = NaN, no infinities) and mean / std are "
        "the exact real-valued functions; the floating-point evaluation of mean/std is compared numerically (1e-9 relative to "
        "the data magnitude), <var>_number and the NaN-ness exactly",
        "collapse_custom_function / collapse_slot_function: hypotheses length refrow = length otherrow, row_ok n refrow, c < n follow from "
        "compact_ok (certified per case); that the code gives every variable a matrix of its own (no value of another variable shows "
        "through a view) is tied by the view-returning collapsers on datasets with several variables of one shape",
        "compaction_check_sound: its hypothesis (the three verdicts of check_compaction are true) is evaluated per collocate case inside Coq; "
        "a false verdict is reported as a failing input",
        "concat theorems: indices are unbounded naturals; concat_fits_width_iff / expand_concat_any_width: the same holds in an integer type of W values "
        "iff the total numbers of stored points are <= W (W = 2^63 for the int64 the code uses; hypotheses compact_ok of the parts certified per case by compact_okb "
        "up to 1500 pairs, evaluated with numpy for the 66000-pair case); the dtype actually met is recorded in coverage.pairs_dtype",
        "<var>_std / <var>_mean of the high-conditioning variable p: tolerance 4 (n eps M + (n + 4) eps std) per bin of n values of magnitude M, eight times the "
        "error bound of the two-pass algorithm in binary64 (derivation in the comment above HC_RATIOS); bins whose values are all equal: expected std exactly 0, mean the value",
        "collapse_call_independent is a statement about the model (a call is a function of dataset, reference and custom "
        "functions); that the code keeps no state between calls is tied by the call histories (custom `rec`, custom `std`, "
        "plain, rearranged pairs, then the other reference) run on every dataset",
    ]
    # report the smallest failing case of every signature (the library prints the first one)
    ctx.failures.sort(key=lambda f: len(json.dumps(f.case, default=str)) if f.case is not None else 0)
    return ctx.finish(trusted_base=TRUSTED)


def replay(ctx, rec):
    case = rec["case"]
    kind = case.get("kind")
    if kind == "ds":
        check_ds_cases(ctx, [case], shard=1)
    elif kind == "cc":
        check_concat_cases(ctx, [case])
    elif kind == "col":
        check_collocate_cases(ctx, [case])
    elif kind == "ccol":
        check_ccol_cases(ctx, [case])
    else:
        print("unknown case kind", kind)
        return 2
    for f in ctx.failures:
        print("still fails:", f.what[:400])
    return 1 if ctx.failures else 0
