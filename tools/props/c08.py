"""C08 -- Planck radiance, brightness temperature, spectral units, Snell, Fresnel.

T-route: coq/gen/em.v is regenerated from typhon/physics/em.py on every run; Props/C08.v is about those
definitions (and the list model Model/C08_spectra.v of the four per*2per* converters, tied element-wise).
Tie: interval enclosures around the floats the implementation returns. Failing-input search: numeric sweep
of the stated laws on the implementation only.
"""
import math

import numpy as np

from lib import core, encl

NEEDED = ["em." + f for f in (
    "planck", "planck_wavelength", "planck_wavenumber", "rayleighjeans", "rayleighjeans_wavelength",
    "radiance2planckTb", "radiance2rayleighjeansTb", "frequency2wavelength", "frequency2wavenumber",
    "wavelength2frequency", "wavelength2wavenumber", "wavenumber2frequency", "wavenumber2wavelength",
    "snell", "snell_complex_n2", "fresnel", "fresnel_complex_n2")]
REQ = "From Coq Require Import List.\nImport ListNotations.\nFrom TyphonGen Require Import em.\nFrom Typhon Require Import Model.C08_spectra."
# enclosure of fresnel_complex_n2 in three stages (the argument y of asin, then theta2 = asin y, then the quotient with
# theta2 as a variable carrying its enclosure): the one-shot `interval` on the zeta-expanded term costs 6 s per case
# because theta2 occurs a dozen times; falls back to the one-shot form if the shape of snell_complex_n2 changes
REQ += """
Open Scope R_scope.
Ltac c08_cprep_staged :=
  match goal with |- context [fresnel_complex_n2 ?a ?b ?c ?d] =>
    let e := eval cbv beta zeta delta [snell_complex_n2] in (snell_complex_n2 a b c d) in
    match e with asin ?y * 180 / PI =>
      let yy := fresh "yy" in let Hy := fresh "Hy" in let H := fresh "H" in let Hb := fresh "Hb" in let th := fresh "th" in
      interval_intro y with (i_prec 80) as Hy;
      assert (H : snell_complex_n2 a b c d = asin y * 180 / PI) by reflexivity;
      set (yy := y) in Hy, H; clearbody yy;
      rewrite (Ratan.asin_atan yy) in H by lra;
      interval_intro (atan (yy / sqrt (1 - yy²)) * 180 / PI) with (i_prec 80) as Hb;
      rewrite <- H in Hb; clear H Hy;
      unfold fresnel_complex_n2; set (th := snell_complex_n2 a b c d) in *; clearbody th; clear yy;
      cbv zeta; cbn [fst snd]
    end end.
Ltac c08_cprep := try first [ c08_cprep_staged
  | unfold fresnel_complex_n2, snell_complex_n2; cbv zeta; cbn [fst snd]; rewrite Ratan.asin_atan by (split; interval) ].
"""
CONSTS = "c_planck, c_boltzmann, c_speed_of_light"
TRUSTED = [
    "translator tools/translate (Python-ast -> Coq over R), fail-closed; float literals read as decimals (<= 2^-53 relative)",
    "IEEE-754 rounding is bridged pointwise by interval enclosures (tolerance scaled by the conditioning 1/x of exp(x)-1)",
    "per*2per* converters: hand model on lists (reshape / [::-1] / broadcasting of extra dimensions modelled, not translated)",
    "complex refractive index n2: the translator writes the complex arithmetic of fresnel() out on pairs of reals (n2 = n2_re + i n2_im; "
    "+ - * / only, quotient as ((ac+bd) + i(bc-ad))/(cc+dd)); numpy's complex division is bridged by the enclosures of Re/Im of Rv, Rh",
]
H, K, C = 6.62607015e-34, 1.380649e-23, 299792458.0


def gen_fT(ctx, n):
    rng = ctx.rng
    out = []
    for i in range(n):
        x = 10 ** rng.uniform(-6, math.log10(600))
        if i < 6:
            x = [1e-6, 600.0, 1.0, 1e-3, 50.0, 599.0][i]
        f = 10 ** rng.uniform(8, 15)
        T = H * f / (K * x)
        if not (2 <= T <= 1e4):
            T = 10 ** rng.uniform(math.log10(2), 4)
            f = x * K * T / H
            if not (1e8 <= f <= 1e15):
                continue
        out.append((f, T, x))
    return out


def enclosure_cases(ctx, em):
    cases = []

    def add(fn, expr, args, value, prep, rtol, atol=1e-320):
        v = float(value)
        cases.append({"expr": expr, "value": v, "tol": max(abs(v) * rtol, atol), "prep": prep,
                      "meta": {"fn": fn, "args": [float(a) for a in args], "value": v}})
    r = encl.rlit
    for k, (f, T, x) in enumerate(gen_fT(ctx, ctx.n(24, 300))):
        rt = 1e-11 * (1 + 1 / x) * 10
        fa = np.asarray([f]) if k % 3 == 1 else f                  # scalar / array / broadcast inputs
        Ta = np.asarray([[T]]) if k % 3 == 2 else T
        pick = (lambda v: float(np.asarray(v).ravel()[0]))
        b = pick(em.planck(fa, Ta))
        add("planck", f"planck {r(f)} {r(T)}", [f, T], b, f"unfold planck, {CONSTS}; cbv zeta.", rt)
        lam, wn = C / f, f / C
        add("planck_wavelength", f"planck_wavelength {r(lam)} {r(T)}", [lam, T], pick(em.planck_wavelength(lam, Ta)),
            f"unfold planck_wavelength, {CONSTS}; cbv zeta.", rt)
        add("planck_wavenumber", f"planck_wavenumber {r(wn)} {r(T)}", [wn, T], pick(em.planck_wavenumber(wn, Ta)),
            f"unfold planck_wavenumber, {CONSTS}; cbv zeta.", rt)
        add("rayleighjeans", f"rayleighjeans {r(f)} {r(T)}", [f, T], pick(em.rayleighjeans(fa, Ta)),
            f"unfold rayleighjeans, {CONSTS}; cbv zeta.", 1e-12)
        add("rayleighjeans_wavelength", f"rayleighjeans_wavelength {r(lam)} {r(T)}", [lam, T],
            pick(em.rayleighjeans_wavelength(lam, Ta)), f"unfold rayleighjeans_wavelength, {CONSTS}; cbv zeta.", 1e-12)
        if b > 1e-300:
            add("radiance2planckTb", f"radiance2planckTb {r(f)} {r(b)}", [f, b], pick(em.radiance2planckTb(fa, b)),
                f"unfold radiance2planckTb, {CONSTS}; cbv zeta.", rt)
        add("radiance2rayleighjeansTb", f"radiance2rayleighjeansTb {r(f)} {r(b)}", [f, b],
            pick(em.radiance2rayleighjeansTb(fa, b)), f"unfold radiance2rayleighjeansTb, {CONSTS}; cbv zeta.", 1e-12)
        for fn, arg in (("frequency2wavelength", f), ("frequency2wavenumber", f), ("wavelength2frequency", lam),
                        ("wavelength2wavenumber", lam), ("wavenumber2frequency", wn), ("wavenumber2wavelength", wn)):
            if k % 4 == 0:
                add(fn, f"{fn} {r(arg)}", [arg], getattr(em, fn)(arg), f"unfold {fn}, c_speed_of_light.", 1e-13)
    rng = ctx.rng
    ASIN = "rewrite Ratan.asin_atan by (split; interval)."
    for _ in range(ctx.n(10, 120)):
        n1 = rng.choice([1.0, 1.0, 1.33, rng.uniform(0.5, 3)])
        n2 = rng.choice([1.33, 1.5, rng.uniform(0.5, 4)])
        t = rng.choice([0.5, 10.0, 45.0, 89.0, rng.uniform(0.1, 89.9)])
        if n1 * math.sin(math.radians(t)) >= 0.999 * n2:
            continue
        add("snell", f"snell {r(n1)} {r(n2)} {r(t)}", [n1, n2, t], em.snell(n1, n2, t), f"unfold snell; cbv zeta. {ASIN}", 1e-10)
        rv, rh = em.fresnel(n1, n2, t)
        add("fresnel.Rv", f"fst (fresnel {r(n1)} {r(n2)} {r(t)})", [n1, n2, t], rv,
            f"unfold fresnel, snell; cbv zeta; cbn [fst snd]. {ASIN}", 1e-9, 1e-12)
        add("fresnel.Rh", f"snd (fresnel {r(n1)} {r(n2)} {r(t)})", [n1, n2, t], rh,
            f"unfold fresnel, snell; cbv zeta; cbn [fst snd]. {ASIN}", 1e-9, 1e-12)
        ni = rng.uniform(0.01, 2)
        v = em.snell(n1, complex(n2, ni), t)
        add("snell_complex_n2", f"snell_complex_n2 {r(n1)} {r(n2)} {r(ni)} {r(t)}", [n1, n2, ni, t], v,
            f"unfold snell_complex_n2; cbv zeta. {ASIN}", 1e-10)
        # fresnel with the complex n2: real and imaginary parts of both amplitude coefficients
        rvc, rhc = em.fresnel(n1, complex(n2, ni), t)
        for nm, proj, val in (("Rv.re", "fst (fst", complex(rvc).real), ("Rv.im", "snd (fst", complex(rvc).imag),
                              ("Rh.re", "fst (snd", complex(rhc).real), ("Rh.im", "snd (snd", complex(rhc).imag)):
            add("fresnel_complex_n2." + nm, f"{proj} (fresnel_complex_n2 {r(n1)} {r(n2)} {r(ni)} {r(t)}))", [n1, n2, ni, t], val,
                "c08_cprep.", 1e-9, 1e-12)
    # per*2per* converters against the list model, element by element (1-3 extra dimensions: each lane is a 1-d case)
    for k in range(ctx.n(4, 40)):
        m = rng.randint(1, 5)
        grid = sorted(10 ** rng.uniform(9, 14) for _ in range(m))
        extra = [(), (2,), (2, 1), (1, 2, 1)][k % 4]
        spec = np.asarray([[10 ** rng.uniform(-20, -10) for _ in range(int(np.prod(extra)) or 1)] for _ in range(m)])
        arr = spec.reshape((m,) + extra)
        g = np.asarray(grid)
        glist = "[" + "; ".join(r(x) for x in grid) + "]"
        for fn, conv in (("perfrequency2perwavelength", em.perfrequency2perwavelength),
                         ("perwavelength2perfrequency", em.perwavelength2perfrequency),
                         ("perfrequency2perwavenumber", em.perfrequency2perwavenumber),
                         ("perwavenumber2perfrequency", em.perwavenumber2perfrequency)):
            gg = g if "perfrequency2" in fn else (C / g[::-1] if "perwavelength2" in fn else g / C)
            gl = "[" + "; ".join(r(x) for x in gg) + "]"
            out, og = conv(arr, gg)
            out2 = np.asarray(out).reshape(m, -1)
            lane = rng.randrange(out2.shape[1])
            ylist = "[" + "; ".join(r(x) for x in spec[:, lane]) + "]"
            i = rng.randrange(m)
            prep = (f"cbv [{fn} map2 map rev app nth fst snd frequency2wavelength wavelength2frequency "
                    "frequency2wavenumber wavenumber2frequency c_speed_of_light].")
            add(fn + ".spectrum", f"nth {i} (fst ({fn} {ylist} {gl})) 0", [i, lane] + list(spec[:, lane]), out2[i, lane], prep, 1e-12)
            add(fn + ".grid", f"nth {i} (snd ({fn} {ylist} {gl})) 0", [i] + list(gg), np.asarray(og)[i], prep, 1e-12)
    return cases


def law_sweep(ctx, em):
    out = []
    rng = np.random.default_rng(ctx.seed)
    n = ctx.n(3000, 300000)

    def rel(a, b):
        return np.abs(a - b) / np.maximum(np.maximum(np.abs(a), np.abs(b)), 1e-320)

    def law(name, bad, args, what):
        bad = np.asarray(bad)
        if bad.any():
            i = int(np.argmax(bad))
            vals = [float(np.asarray(a).ravel()[i]) for a in args]
            out.append((name, f"{what} fails at {vals}", {"law": name, "args": vals}))
    x = np.concatenate([[1e-6, 600.0, 1.0], 10 ** rng.uniform(-6, math.log10(600), n)])
    T = 10 ** rng.uniform(math.log10(2), 4, x.size)
    f = x * K * T / H
    ok = (f >= 1e8) & (f <= 1e15)
    x, T, f = x[ok], T[ok], f[ok]
    B = em.planck(f, T)
    amp = 1 + 1 / x
    law("tb-inverts-planck", rel(em.radiance2planckTb(f, B), T) > 1e-10 * amp * 20, [f, T], "radiance2planckTb(f, planck(f,T)) = T")
    rj = em.rayleighjeans(f, T)
    law("tb-inverts-rj", rel(em.radiance2rayleighjeansTb(f, rj), T) > 1e-12, [f, T], "radiance2rayleighjeansTb inverts rayleighjeans")
    law("planck-positive", ~(B > 0), [f, T], "planck > 0")
    law("planck<=rj", B > rj * (1 + 1e-10 * amp), [f, T], "planck <= rayleighjeans")
    small = x < 1
    law("planck->rj", small & (B < (1 - x) * rj * (1 - 1e-10 * amp)), [f, T], "(1 - x) rayleighjeans < planck for x < 1")
    law("planck-increasing-T", em.planck(f, T * 1.001) <= B * (1 + 1e-4 * np.minimum(x, 1) * 0.5), [f, T], "planck increasing in T")
    law("wavelength-form", rel(em.planck_wavelength(C / f, T), B * f ** 2 / C) > 1e-10 * amp * 20, [f, T],
        "planck_wavelength(c/f, T) = planck(f, T) f^2/c")
    law("wavenumber-form", rel(em.planck_wavenumber(f / C, T), C * B) > 1e-10 * amp * 20, [f, T], "planck_wavenumber(f/c, T) = c planck(f, T)")
    # broadcasting: column of frequencies against row of temperatures
    fb, Tb = f[:40].reshape(-1, 1), T[:30].reshape(1, -1)
    ok2 = (H * fb / (K * Tb) > 1e-6) & (H * fb / (K * Tb) < 600)
    law("broadcast", ok2 & (rel(em.planck(fb, Tb), em.planck(np.broadcast_to(fb, ok2.shape).copy(), np.broadcast_to(Tb, ok2.shape).copy())) > 0),
        [np.broadcast_to(fb, ok2.shape), np.broadcast_to(Tb, ok2.shape)], "broadcast inputs = element-wise")
    # the inversions under every broadcast combination the statement names: frequency on one axis, temperature on another,
    # rectangular AND square shapes (numpy's rule: trailing axes are aligned), scalars against arrays, an extra unit axis
    for nf, nt in ((3, 4), (4, 4), (5, 5), (1, 6), (6, 1), (7, 7)):
        f1 = np.sort(10 ** rng.uniform(9, 13, nf))
        for tshape in ((nt, 1), (nt, 1, 1), (1, nt), (nt,)):
            try:
                np.broadcast_shapes((nf,), tshape)
            except ValueError:
                continue
            Tn = (10 ** rng.uniform(1.5, 3.3, nt)).reshape(tshape)
            for fwd, inv, nm in ((em.planck, em.radiance2planckTb, "planck"),
                                 (em.rayleighjeans, em.radiance2rayleighjeansTb, "rayleighjeans")):
                full_f, full_T = np.broadcast_arrays(f1, Tn)
                okb = (H * full_f / (K * full_T) > 1e-4) & (H * full_f / (K * full_T) < 300)
                rad = fwd(f1, Tn)
                back = inv(f1, rad)
                cond = np.where(okb, 1e-9 * (1 + K * full_T / (H * full_f)), np.inf) if nm == "planck" else 1e-12
                law(f"tb-inverse-broadcast:{nm}", okb & ((np.shape(back) != full_T.shape) | (rel(np.broadcast_to(back, full_T.shape), full_T) > cond)),
                    [full_f, full_T], f"radiance2{nm}Tb(f, {nm}(f, T)) = T for f of shape {f1.shape} against T of shape {tshape}")
    # array calls as a user makes them: float64 ndarrays the caller goes on using.  Every function of the property must
    # leave its arguments as they are and answer alike when called again with the same arrays (round trips such as
    # perwavenumber2perfrequency(perfrequency2perwavenumber(I)) = I are statements about the I the caller holds)
    fq = 10 ** rng.uniform(9, 14, 12)
    Tq = 10 ** rng.uniform(1.5, 3.3, 12)
    Iq = rng.uniform(0.1, 5.0, 12) * 1e-12
    th = rng.uniform(0.0, 80.0, 12)
    pure_calls = [(nm, [fq]) for nm in ("frequency2wavelength", "frequency2wavenumber")] + \
        [(nm, [C / fq]) for nm in ("wavelength2frequency", "wavelength2wavenumber")] + \
        [(nm, [fq / C]) for nm in ("wavenumber2frequency", "wavenumber2wavelength")] + \
        [("planck", [fq, Tq]), ("rayleighjeans", [fq, Tq]), ("planck_wavelength", [C / fq, Tq]), ("planck_wavenumber", [fq / C, Tq]),
         ("rayleighjeans_wavelength", [C / fq, Tq]), ("radiance2planckTb", [fq, Iq * 1e-3]), ("radiance2rayleighjeansTb", [fq, Iq * 1e-3]),
         ("perfrequency2perwavelength", [Iq, fq]), ("perwavelength2perfrequency", [Iq, C / fq]),
         ("perfrequency2perwavenumber", [Iq, fq]), ("perwavenumber2perfrequency", [Iq, fq / C]),
         ("snell", [np.full(12, 1.0), np.full(12, 1.33), th]), ("fresnel", [np.full(12, 1.0), np.full(12, 1.33), th])]
    for name, args in pure_calls:
        arrs = [np.array(a, dtype=np.float64) for a in args]
        before = [a.copy() for a in arrs]
        try:
            r1 = np.array(getattr(em, name)(*arrs), dtype=complex, copy=True)
            changed = [k for k, (a, b) in enumerate(zip(arrs, before)) if not np.array_equal(a, b)]
            if changed:
                k = changed[0]
                law(f"arguments-modified:{name}", np.array([True]), [before[k][:3]],
                    f"{name} modified the float64 array handed in as argument {k}: it held {before[k][:3].tolist()}..., now "
                    f"{arrs[k][:3].tolist()}...")
                continue
            r2 = np.asarray(getattr(em, name)(*arrs), dtype=complex)
            law(f"repeated-call-differs:{name}", np.array([r1.shape != r2.shape or not np.array_equal(r1, r2, equal_nan=True)]), [before[0][:3]],
                f"two identical consecutive calls of {name} on the same arrays agree")
        except Exception as e:  # noqa
            law(f"array-call-raises:{name}", np.array([True]), [before[0][:3]], f"{name} on ordinary float64 arrays raised {type(e).__name__}: {e}")
    # a grid the caller updates IN PLACE between two calls (f *= 1e3, f += df, f[:] = ...): the second call is the function of the
    # current values -- compared with the same call on a fresh copy and, for planck, with scalar calls
    for name, second in (("planck", Tq), ("rayleighjeans", Tq), ("radiance2planckTb", Iq * 1e-3), ("radiance2rayleighjeansTb", Iq * 1e-3),
                         ("planck_wavelength", Tq), ("planck_wavenumber", Tq)):
        fnc = getattr(em, name)
        grid0 = {"planck_wavelength": C / fq, "planck_wavenumber": fq / C}.get(name, fq)
        for step, upd in (("scaled by 3", lambda a: a.__imul__(3.0)), ("shifted", lambda a: a.__iadd__(0.1 * a[0])),
                          ("refilled", lambda a: a.__setitem__(slice(None), a[::-1].copy()))):
            buf = np.array(grid0, dtype=np.float64)
            try:
                fnc(buf, second)
                upd(buf)
                got = np.asarray(fnc(buf, second), dtype=float)
                want = np.asarray(fnc(buf.copy(), np.array(second, dtype=float)), dtype=float)
                sc0 = float(fnc(float(buf[0]), float(second[0])))
            except Exception as e:  # noqa
                law(f"inplace-grid-raises:{name}", np.array([True]), [grid0[:1]], f"{name} raised {type(e).__name__}: {e} on a grid updated in place")
                continue
            law(f"inplace-grid:{name}", (rel(got, want) > 1e-14) | np.concatenate([[abs(got[0] - sc0) > 1e-12 * abs(sc0)], np.zeros(got.size - 1, bool)]),
                [buf, second], f"{name} on a grid {step} in place between two calls = {name} on a fresh copy of the current values")
    v = 10 ** rng.uniform(-7, 15, n)
    # the unit converters on integer-typed input (a Python int, a numpy integer, an integer array): the same numbers as floats
    vi = np.unique(rng.integers(1, 10 ** 6, 40))
    for name in ("frequency2wavelength", "wavelength2frequency", "frequency2wavenumber", "wavenumber2frequency",
                 "wavelength2wavenumber", "wavenumber2wavelength"):
        fnc = getattr(em, name)
        want = fnc(vi.astype(float))
        got_arr = np.asarray(fnc(vi), dtype=float)
        got_int = np.array([float(fnc(int(x))) for x in vi[:10]])
        got_np = np.array([float(fnc(np.int64(x))) for x in vi[:10]])
        law(f"units-integer-input:{name}", (rel(got_arr, want) > 1e-14), [vi.astype(float)], f"{name}(integer array) = {name}(the same values as floats)")
        law(f"units-integer-input:{name}", (rel(got_int, want[:10]) > 1e-14) | (rel(got_np, want[:10]) > 1e-14), [vi[:10].astype(float)],
            f"{name}(int) = {name}(float)")
    for a, b in (("frequency2wavelength", "wavelength2frequency"), ("frequency2wavenumber", "wavenumber2frequency"),
                 ("wavelength2wavenumber", "wavenumber2wavelength")):
        law(f"units:{b}.{a}", rel(getattr(em, b)(getattr(em, a)(v)), v) > 1e-14, [v], f"{b}({a}(v)) = v")
        law(f"units:{a}.{b}", rel(getattr(em, a)(getattr(em, b)(v)), v) > 1e-14, [v], f"{a}({b}(v)) = v")
    law("units:triangle", rel(em.wavelength2wavenumber(em.frequency2wavelength(v)), em.frequency2wavenumber(v)) > 1e-14, [v],
        "wavelength2wavenumber(frequency2wavelength(v)) = frequency2wavenumber(v)")
    # density converters: inverse to each other, map Planck forms onto each other, any extra dimensionality
    for k in range(ctx.n(20, 400)):
        m = int(rng.integers(1, 30))
        grid = np.sort(10 ** rng.uniform(9, 14, m))
        # grids as users have them: ascending, descending (c / an ascending wavelength grid), in no order (two bands
        # concatenated) -- element i of the returned spectrum belongs to element i of the returned grid in every case
        grid_order = k % 3
        if grid_order == 1:
            grid = grid[::-1].copy()
        elif grid_order == 2:
            grid = grid[rng.permutation(m)]
        extra = [(), (3,), (2, 2), (1, 3, 2)][k % 4]
        spec = 10 ** rng.uniform(-20, -10, (m,) + extra)
        pm, lam = em.perfrequency2perwavelength(spec, grid)
        back, g2 = em.perwavelength2perfrequency(pm, lam)
        law("density:f->l->f", [np.max(rel(back, spec)) > 1e-13 or np.max(rel(g2, grid)) > 1e-13], [grid[:1]], "perwavelength2perfrequency inverts perfrequency2perwavelength")
        law("density:grid-ascending", [np.any(np.diff(lam) <= 0)] if (m > 1 and grid_order == 0) else [False], [grid[:1]], "wavelength grid ascending (reversed)")
        law("density:grid-values", [np.max(rel(np.sort(lam), np.sort(C / grid))) > 1e-13], [grid[:1]], "the returned wavelength grid holds c / f of every frequency")
        pw, wn = em.perfrequency2perwavenumber(spec, grid)
        back, g2 = em.perwavenumber2perfrequency(pw, wn)
        law("density:f->n->f", [np.max(rel(back, spec)) > 1e-13 or np.max(rel(g2, grid)) > 1e-13], [grid[:1]], "perwavenumber2perfrequency inverts perfrequency2perwavenumber")
        Tk = float(10 ** rng.uniform(1.5, 3.5))
        xk = H * grid / (K * Tk)
        if xk.min() > 1e-4 and xk.max() < 500:
            Bf = em.planck(grid, Tk)
            pm, lam = em.perfrequency2perwavelength(Bf, grid)
            law("density:planck-forms", [np.max(rel(pm, em.planck_wavelength(lam, Tk))) > 1e-9 * (1 + 1 / xk.min())], [grid[:1], [Tk]],
                "perfrequency2perwavelength maps planck onto planck_wavelength")
            pw, wn = em.perfrequency2perwavenumber(Bf, grid)
            law("density:planck-forms-wn", [np.max(rel(pw, em.planck_wavenumber(wn, Tk))) > 1e-9 * (1 + 1 / xk.min())], [grid[:1], [Tk]],
                "perfrequency2perwavenumber maps planck onto planck_wavenumber")
        # multi-dimensional spectra: a stack of Planck spectra for several temperatures (asymmetric in the extra axes)
        Ts = np.array([80.0, 300.0, 1200.0, 2500.0])[:int(rng.integers(2, 5))]
        xs_ = H * grid.reshape(-1, 1) / (K * Ts.reshape(1, -1))
        if xs_.min() > 1e-4 and xs_.max() < 500:
            for shape in ((m, Ts.size), (m, 1, Ts.size)):
                Bs = em.planck(grid.reshape(-1, 1), Ts.reshape(1, -1)).reshape(shape)
                tolk = 1e-9 * (1 + 1 / xs_.min())
                pm, lam = em.perfrequency2perwavelength(Bs, grid)
                want = em.planck_wavelength(lam.reshape(-1, 1), Ts.reshape(1, -1)).reshape(shape)
                law("density:planck-forms-nd", [pm.shape != want.shape or np.max(rel(pm, want)) > tolk], [grid[:1], Ts],
                    f"perfrequency2perwavelength maps a {shape} stack of planck spectra onto planck_wavelength, spectrum by spectrum")
                bf, fr = em.perwavelength2perfrequency(want, lam)
                law("density:planck-forms-nd-back", [bf.shape != Bs.shape or np.max(rel(bf, Bs)) > tolk], [grid[:1], Ts],
                    f"perwavelength2perfrequency maps a {shape} stack of planck_wavelength spectra onto planck")
                pw, wn = em.perfrequency2perwavenumber(Bs, grid)
                wantn = em.planck_wavenumber(wn.reshape(-1, 1), Ts.reshape(1, -1)).reshape(shape)
                law("density:planck-forms-wn-nd", [pw.shape != wantn.shape or np.max(rel(pw, wantn)) > tolk], [grid[:1], Ts],
                    f"perfrequency2perwavenumber maps a {shape} stack of planck spectra onto planck_wavenumber")
                bf, fr = em.perwavenumber2perfrequency(wantn, wn)
                law("density:planck-forms-wn-nd-back", [bf.shape != Bs.shape or np.max(rel(bf, Bs)) > tolk], [grid[:1], Ts],
                    f"perwavenumber2perfrequency maps a {shape} stack of planck_wavenumber spectra onto planck")
    # Snell / Fresnel
    n1 = rng.uniform(0.5, 3, n)
    n2 = rng.uniform(0.5, 4, n)
    t = np.concatenate([[0.0, 90.0], rng.uniform(0, 90, n - 2)])
    s1 = n1 * np.sin(np.radians(t))
    for i in range(0, min(n, ctx.n(400, 20000))):
        a, b, th = float(n1[i]), float(n2[i]), float(t[i])
        with np.errstate(all="ignore"):
            th2 = em.snell(a, b, th)
        if s1[i] <= b * (1 - 1e-9):
            if not abs(a * math.sin(math.radians(th)) - b * math.sin(math.radians(th2))) <= 1e-9 * max(a, b):
                out.append(("snell-law", f"n1 sin(t1) != n2 sin(t2) at {[a, b, th]}", {"law": "snell-law", "args": [a, b, th]}))
            if th < 89.999:
                rv, rh = em.fresnel(a, b, th)
                if not (abs(rv) <= 1 + 1e-12 and abs(rh) <= 1 + 1e-12):
                    out.append(("fresnel-bounded", f"|R| > 1 at {[a, b, th]}", {"law": "fresnel-bounded", "args": [a, b, th]}))
        elif s1[i] > b * (1 + 1e-9):
            if not np.isnan(th2):
                out.append(("snell-nan", f"snell beyond total reflection is not NaN at {[a, b, th]}", {"law": "snell-nan", "args": [a, b, th]}))
        rv, rh = em.fresnel(a, b, 0.0)
        if abs(abs(rv) - abs(rh)) > 1e-12:
            out.append(("fresnel-normal", f"|Rv| != |Rh| at normal incidence {[a, b]}", {"law": "fresnel-normal", "args": [a, b]}))
        rv, _ = em.fresnel(a, b, math.degrees(math.atan2(b, a)))
        if abs(rv) > 1e-12:
            out.append(("fresnel-brewster", f"Rv != 0 at the Brewster angle {[a, b]}", {"law": "fresnel-brewster", "args": [a, b]}))
        nc = complex(b, float(rng.uniform(0, 2)))
        th2 = em.snell(a, nc, th)
        # complex n2: n1 sin(t1) = n2 sin(t2c) with a complex t2c; the real angle of refraction psi satisfies
        # tan(psi) = n1 sin(t1) / Re sqrt(n2^2 - n1^2 sin(t1)^2)  (independent oracle in Python complex arithmetic)
        import cmath
        sa = a * math.sin(math.radians(th))
        q = cmath.sqrt(nc * nc - sa * sa)
        if q.real > 1e-6 and th > 0:
            psi = math.degrees(math.atan2(sa, q.real))
            if not abs(th2 - psi) <= 1e-7 * (1 + abs(psi)):
                out.append(("snell-law-complex", f"snell({a}, {nc}, {th}) = {th2!r} deg, Snell's law for complex n2 gives {psi!r} deg",
                            {"law": "snell-law-complex", "args": [a, str(nc), th]}))
        # ... and continues the real law: an imaginary part of 1e-13 changes nothing visible (away from total reflection)
        if s1[i] <= b * (1 - 1e-3):
            thr, thc = em.snell(a, b, th), em.snell(a, complex(b, 1e-13 * b), th)
            if not abs(thr - thc) <= 1e-6:
                out.append(("snell-complex-limit", f"snell({a}, {b}+1e-13j*{b}, {th}) = {thc!r} but snell with real n2 = {thr!r}",
                            {"law": "snell-complex-limit", "args": [a, b, th]}))
        rv, rh = em.fresnel(a, nc, min(th, 89.9))
        if not (abs(rv) <= 1 + 1e-9 and abs(rh) <= 1 + 1e-9):
            out.append(("fresnel-bounded-complex", f"|R| > 1 for complex n2 at {[a, nc, th]}", {"law": "fresnel-bounded-complex", "args": [a, str(nc), th]}))
        rv, rh = em.fresnel(a, nc, 0.0)
        if not abs(abs(rv) - abs(rh)) <= 1e-12:
            out.append(("fresnel-normal-complex", f"|Rv| != |Rh| at normal incidence for complex n2 {[a, nc]}: {abs(rv)!r} vs {abs(rh)!r}",
                        {"law": "fresnel-normal-complex", "args": [a, str(nc)]}))
        # the complex evaluation continues the real one (theorem fresnel_complex_reduces_to_real): Im n2 = 1e-13 n2 is invisible
        if s1[i] <= b * (1 - 1e-3) and th < 89.9:
            (rvr, rhr), (rvc, rhc) = em.fresnel(a, b, th), em.fresnel(a, complex(b, 1e-13 * b), th)
            if not (abs(rvc - rvr) <= 1e-6 and abs(rhc - rhr) <= 1e-6):
                out.append(("fresnel-complex-limit", f"fresnel({a}, {b}+1e-13j*{b}, {th}) = {(rvc, rhc)!r} but with real n2 = {(rvr, rhr)!r}",
                            {"law": "fresnel-complex-limit", "args": [a, b, th]}))
    # a lossless medium given in complex TYPE (imaginary part exactly 0) is inside the domain "real or complex n2 with positive
    # real part": snell / fresnel must return what they return for the same n2 given as a float (NaN beyond total reflection)
    def same(u, v):
        u, v = np.asarray(u, dtype=complex).ravel(), np.asarray(v, dtype=complex).ravel()
        return u.shape == v.shape and bool(np.all((np.isnan(u) & np.isnan(v)) | (np.abs(u - v) <= 1e-9)))
    for i in range(0, min(n, ctx.n(60, 2000))):
        a, b, th = float(n1[i]), float(n2[i]), float(min(t[i], 89.9))
        b2 = float(n2[(i + 1) % n])
        with np.errstate(all="ignore"):
            want_s, want_f = em.snell(a, b, th), em.fresnel(a, b, th)
            want_sa = np.array([em.snell(a, b, th), em.snell(a, b2, th)])
            want_fa = np.array([em.fresnel(a, b, th), em.fresnel(a, b2, th)]).T
            for label, arg, ws, wf in (("complex(b, 0)", complex(b, 0.0), want_s, want_f), ("np.complex128(b)", np.complex128(b), want_s, want_f),
                                       ("all-lossless complex array", np.array([b + 0j, b2 + 0j]), want_sa, want_fa)):
                try:
                    got_s, got_f = em.snell(a, arg, th), em.fresnel(a, arg, th)
                    bad = None if same(got_s, ws) and same(got_f, wf) else f"returns {got_s!r}, {got_f!r} instead of {ws!r}, {wf!r}"
                except Exception as e:  # noqa
                    bad = f"raises {type(e).__name__}: {str(e)[:90]}"
                if bad:
                    out.append(("snell-complex-typed-real", f"snell/fresnel(n1={a}, n2={label} with b={b}, theta1={th}) {bad}; the same medium as a float works",
                                {"law": "snell-complex-typed-real", "args": [a, b, b2, th], "form": label}))
    for bad in ((0.0, 1.3), (1.0, -1.0)):
        try:
            em.snell(bad[0], bad[1], 10.0)
            out.append(("snell-rejects", f"snell{bad} did not raise", {"law": "snell-rejects", "args": list(bad)}))
        except Exception:  # noqa
            pass
    return out, 12 * x.size + 7 * v.size + 8 * min(n, ctx.n(400, 20000)) + 6 * min(n, ctx.n(60, 2000))


def run(ctx):
    from typhon.physics import em
    missing = encl.translate(ctx, ["em"], NEEDED)
    ctx.prove("Props/C08.v")
    if not missing:
        core.coq_build([core.THEORIES / "Model" / "C08_spectra.v"])
        cases = enclosure_cases(ctx, em)
        res, log = encl.enclosure_check(ctx.work / "encl", "c08", REQ, cases)
        if log:
            ctx.log(log[-1500:])
        fns = {}
        for c, r in zip(cases, res):
            ctx.cov["evaluations"] += 1
            fns.setdefault(c["meta"]["fn"], [0, 0])[0 if r == "OK" else 1] += 1
            if r != "OK":
                ctx.fail("correspondence", f"enclosure {r}: the real-valued model of {c['meta']['fn']} at {c['meta']['args']} is not "
                         f"within tolerance of the implementation's {c['meta']['value']!r}", case=c["meta"],
                         signature=f"enclosure:{c['meta']['fn']}")
        ctx.cov["enclosures"] = {k: {"ok": v[0], "failed": v[1]} for k, v in fns.items()}
        ctx.cov["distinct_nontrivial"] += len({(c["meta"]["fn"], tuple(c["meta"]["args"])) for c, r in zip(cases, res) if r == "OK"})
        for c in cases[:2] + cases[-2:]:
            ctx.sample(c["meta"])
    fails, n = law_sweep(ctx, em)
    ctx.cov["evaluations"] += n
    ctx.cov["law_evaluations"] = n
    for sig, what, case in fails:
        ctx.fail("failing-input", what, case=case, signature=sig)
    ctx.cov["rule"] = ("enclosure cases: (function, arguments) with h f / k T spread log-uniformly over [1e-6, 600] (scalar, array and "
                       "broadcast inputs), incidence angles and refractive indices, spectra with 0-3 extra dimensions; distinct and "
                       "non-trivial = Coq proved the enclosure for a distinct (function, arguments); law_evaluations counts the "
                       "numeric law sweep on the implementation")
    ctx.assumptions += ["domain of the statement: 1e8 <= f <= 1e15 Hz, 2 <= T <= 1e4 K, 1e-6 <= h f / k T <= 600; real n1 > 0, real or complex n2 with positive real part, incidence below 90 degrees for the Fresnel bounds"]
    return ctx.finish(trusted_base=TRUSTED)


def replay(ctx, rec):
    from typhon.physics import em
    fails, _ = law_sweep(ctx, em)
    hit = [f for f in fails if f[0] == rec.get("signature")]
    for f in hit:
        print("still fails:", f[1])
    if rec.get("kind") != "failing-input":
        ctx.prove("Props/C08.v")
        return 1 if ctx.failures else 0
    return 1 if hit else 0
