"""C15 -- the file-info cache survives restarts and interrupted saves.

Theorems: coq/theories/Props/C15.v (crash safety at every prefix of the I/O sequence of save_cache and over all
histories of saves; strptime(strftime(t)) = t for every datetime; save + restart restores the cache; a malformed
document changes nothing and warns -- all or nothing; find() is the same with a consistent cache).

Tie to the source, every run (tools/harness/c15_crash.py, children forked from a pristine interpreter):
 * crash sweeps: save_cache is killed (os._exit) after every single primitive (open, each half of each write,
   close, rename) over several previous states of the two files; after each death the main file is classified
   and loaded by a fresh FileSet(info_cache=...).  The model's prefix_states are evaluated in Coq on the same
   number of primitives and compared point by point.
 * histories of saves (completing, dying anywhere, raising while serialising) against run_history.
 * save/restart round trips of caches with times from datetime.min to datetime.max against load (doc_of c).
 * corruption stream: structurally damaged documents (wrong JSON types, missing keys, null / short / bad
   times, damaged entry in any position), truncation at every byte, byte damage, unreadable files, against
   load / load_file evaluated in Coq (json.loads is the oracle for "json.load rejects it").
 * real interpreter sessions with atexit saving: find() without cache = first run = run after restart, and the
   restart restores what the first run had cached.

Because the model provably meets the specification under hypotheses that every generated case carries
(valid datetimes, one entry per path, attributes a dictionary), a disagreement there is a failing input.
Forms the property does not fix (lenient acceptances of the present code such as "2018-1-1T0:0:0.5", an
attr that is not a dictionary, `{}` as a document) are compared too, but a disagreement there is only noted.
"""
import json
import shutil
import tempfile
from concurrent.futures import ThreadPoolExecutor
from pathlib import Path

from lib import core
from lib.core import zlit, zlist, coq_list, coq_bool

PREAMBLE = "From Typhon Require Import Model.C15_cache.\n"
HARNESS = core.VERIF / "tools" / "harness" / "c15_crash.py"
TRUSTED = [
    "correspondence harness tools/props/c15.py + tools/harness/c15_crash.py (generators, crash injection by wrapping "
    "open / write / close / shutil.move / os.rename / os.replace from outside, classification of the files)",
    "POSIX rename replaces the destination atomically (the model's Rename primitive); no power-failure / fsync model",
    "the json module: json.load(json.dump(v)) = v for JSON-native values and json.load rejects every proper prefix "
    "of a dumped list (hypotheses of save_load_roundtrip / truncated_file; exercised by the round trips and by "
    "truncation at every byte, json.loads being the oracle for 'rejected')",
    "datetime.strftime / strptime of CPython + glibc behave as the digit-level model (exercised on every generated time "
    "and time string); only ASCII time strings are generated (\\d also matches other Unicode digits)",
    "a process forked from an interpreter that has only imported typhon stands for a new interpreter; "
    "real interpreter restarts with atexit are exercised by the session cases",
]

TMIN = [1, 1, 1, 0, 0, 0, 0]
TMAX = [9999, 12, 31, 23, 59, 59, 999999]


# ----------------------------------------------------------------------------- Coq terms

def jterm(v):
    if v is None:
        return "JNull"
    if isinstance(v, bool):
        return f"(JBool {coq_bool(v)})"
    if isinstance(v, int):
        return f"(JNum {zlit(v)})"
    if isinstance(v, str):
        return f"(JStr {zlist([ord(c) for c in v])})"
    if isinstance(v, list):
        return "(JArr " + coq_list([jterm(x) for x in v]) + ")"
    if isinstance(v, dict):
        return "(JObj " + coq_list([f"({zlist([ord(c) for c in k])}, {jterm(x)})" for k, x in v.items()]) + ")"
    raise ValueError(f"not a JSON value the model knows: {v!r}")


def unj(t):
    """Parsed Coq json -> Python value."""
    if t == "JNull":
        return None
    tag = t[0]
    if tag == "JBool":
        return bool(t[1])
    if tag == "JNum":
        return int(t[1])
    if tag == "JStr":
        return "".join(chr(c) for c in t[1])
    if tag == "JArr":
        return [unj(x) for x in t[1]]
    if tag == "JObj":
        return {"".join(chr(c) for c in k): unj(x) for k, x in t[1]}
    raise ValueError(t)


def cache_term(entries):
    return coq_list([f"mk_entry {jterm(e['path'])} {zlist(e['t0'])} {zlist(e['t1'])} {jterm(e['attr'])}"
                     for e in entries])


def canon_entries(entries):
    """Order-free canonical form of a cache: sorted JSON texts of (path, t0, t1, attr)."""
    return sorted(json.dumps([e["path"], e["t0"], e["t1"], e["attr"]], sort_keys=True) for e in entries)


def canon_model(shown):
    return sorted(json.dumps([unj(p), list(a), list(b), unj(at)], sort_keys=True) for (p, a, b, at) in shown)


def canon_observed(load):
    if load is None or load.get("cache") is None:
        return None
    out = []
    for x in load["cache"]:
        if "bad" in x:
            out.append(json.dumps(["BAD", x]))
        else:
            out.append(json.dumps([x["path"], x["t0"], x["t1"], x["attr"]], sort_keys=True))
    return sorted(out)


# ----------------------------------------------------------------------------- generators

def days_in_month(y, m):
    if m == 2:
        return 29 if (y % 4 == 0 and y % 100 != 0) or y % 400 == 0 else 28
    return 30 if m in (4, 6, 9, 11) else 31


def gen_time(rng, modern=False):
    style = rng.random()
    if not modern:
        if style < 0.07:
            return list(TMIN)
        if style < 0.14:
            return list(TMAX)
        if style < 0.24:
            y = rng.choice([1, 2, 9, 10, 99, 100, 476, 999])
        elif style < 0.30:
            y = rng.choice([1000, 1001, 9999])
        else:
            y = rng.randint(1950, 2030)
    else:
        y = rng.choice([1000, 1583, 1970, 2000, 2016, 2018, 2024, 9999]) if style < 0.3 else rng.randint(1950, 2030)
    m = rng.randint(1, 12)
    d = rng.choice([1, days_in_month(y, m), rng.randint(1, days_in_month(y, m))])
    if rng.random() < 0.1:
        y2 = y if days_in_month(y, 2) == 29 else (2016 if y >= 1000 or modern else 4)
        y, m, d = y2, 2, 29
    h, mi, s = rng.choice([(0, 0, 0), (23, 59, 59), (rng.randint(0, 23), rng.randint(0, 59), rng.randint(0, 59))])
    us = rng.choice([0, 0, 1, 10, 100, 1000, 10000, 100000, 999999, 500000, 123456, 7, rng.randint(0, 999999)])
    return [y, m, d, h, mi, s, us]


ATTRS = [{}, {}, {"sat": "noaa18"}, {"sat": "metop-a", "orbit": "04711"}, {"name": "abc"},
         {"n": 3, "flag": True, "none": None}, {"nested": {"a": [1, 2, "x"]}, "list": ["u", "v"]},
         {"quote": "he said \"hi\" \\ there", "uni": "gr\u00fc\u00df dich \u2603"}, {"": ""}]
PATH_STYLES = ["/data/{i:03d}.dat", "/data/sub dir/{i}.nc", "/d/\u00fcml\u00e4ut/{i}.h5", "C:\\\\win\\\\{i}.txt",
               "/data/\"q\"/{i}", "rel/{i}.dat"]


def gen_cache(rng, n, modern=False, tag=""):
    style = rng.choice(PATH_STYLES)
    out = []
    for i in range(n):
        t0 = gen_time(rng, modern)
        t1 = gen_time(rng, modern) if rng.random() < 0.7 else list(t0)
        if tuple(t1) < tuple(t0):
            t0, t1 = t1, t0
        out.append({"path": tag + style.format(i=i), "t0": t0, "t1": t1, "attr": dict(rng.choice(ATTRS))})
    if n and rng.random() < 0.35 and not modern:
        out[rng.randrange(n)].update(t0=list(TMIN), t1=list(TMAX))   # a non-temporal file
    return out


def fmt(t):
    return "%04d-%02d-%02dT%02d:%02d:%02d.%06d" % tuple(t)


def doc_value(entries):
    return [{"path": e["path"], "times": [fmt(e["t0"]), fmt(e["t1"])], "attr": e["attr"]} for e in entries]


BAD_TIMES = ["", "garbage", "2018-13-01T00:00:00.000000", "2018-00-10T00:00:00.000000", "2018-01-32T00:00:00.000000",
             "2018-02-30T00:00:00.000000", "2019-02-29T00:00:00.000000", "1900-02-29T00:00:00.000000",
             "2018-01-00T00:00:00.000000", "2018-01-01T24:00:00.000000", "2018-01-01T00:60:00.000000",
             "2018-01-01T00:00:60.000000", "2018-01-01T00:00:61.000000", "2018-01-01T00:00:00.0000001",
             "2018-01-01T00:00:00", "2018-01-01T00:00:00.", "2018-01-01", "2018-01-01 00:00:00.000000",
             " 2018-01-01T00:00:00.000000", "2018-01-01T00:00:00.000000 ", "2018-01-01T00:00:00.000000Z",
             "0000-01-01T00:00:00.000000", "10000-01-01T00:00:00.000000", "999-01-01T00:00:00.000000",
             "1-01-01T00:00:00.000000", "18-01-01T00:00:00.000000", "2018-001-01T00:00:00.000000",
             "2018-01-001T00:00:00.000000", "2018/01/01T00:00:00.000000", "2018-01-01T00-00-00.000000",
             "2018-01-01T00:00:00,000000", "-018-01-01T00:00:00.000000", "2018-01-01T00:00:00.-00001",
             "2018-01-01T00:00:0x.000000", "2018-1a-01T00:00:00.000000", "20180101T000000.000000",
             "2018-01-01T00:00:00.000000\n", "2018-01--1T00:00:00.000000", "2018-04-31T00:00:00.000000"]
GOOD_TIMES = ["0001-01-01T00:00:00.000000", "9999-12-31T23:59:59.999999", "2016-02-29T23:59:59.000001",
              "2000-02-29T00:00:00.100000", "0999-12-31T23:59:59.999999", "1000-01-01T00:00:00.000010"]
LENIENT_TIMES = ["2018-1-1T0:0:0.0", "2018-01-01t00:00:00.000000", "2018-01- 1T00:00:00.000000",
                 "2018-01-01T00:00:00.5", "2018-01-01T00:00:00.12345", "2018-12-9T7:05:3.25"]


def gen_corrupt(rng, k):
    """A structurally damaged (or deliberately intact) document as a JSON value.
    Returns dict(kind, value, lenient)."""
    n = rng.choice([1, 1, 2, 3, 4, 6])
    entries = gen_cache(rng, n, modern=rng.random() < 0.5)
    doc = doc_value(entries)
    pos = rng.choice([0, n - 1, rng.randrange(n)])
    kind = rng.choice(["ok", "drop-key", "null-time", "times-short", "times-long", "times-type", "time-type",
                       "entry-type", "top-type", "top-empty", "path-type", "path-unhashable", "attr-null", "attr-type",
                       "dup-path", "extra-key", "bad-time", "bad-time", "bad-time-prefix", "good-time", "lenient-time"])
    lenient = False
    e = doc[pos]
    if kind == "ok":
        pass
    elif kind == "drop-key":
        del e[rng.choice(["path", "times", "attr"])]
    elif kind == "null-time":
        which = rng.choice([(0,), (1,), (0, 1)])
        for i in which:
            e["times"][i] = None
    elif kind == "times-short":
        e["times"] = e["times"][:rng.choice([0, 1])]
    elif kind == "times-long":
        e["times"] = e["times"] + [rng.choice(["x", None, 3])]
        lenient = True
    elif kind == "times-type":
        e["times"] = rng.choice([None, 7, "2018-01-01T00:00:00.000000", {"0": e["times"][0], "1": e["times"][1]}, True,
                                 "ab", {}])
    elif kind == "time-type":
        e["times"][rng.choice([0, 1])] = rng.choice([0, 20180101, True, [e["times"][0]], {"t": 1}, False])
    elif kind == "entry-type":
        doc[pos] = rng.choice([None, 5, "path", [], ["path", "times", "attr"], True, [e]])
    elif kind == "top-type":
        doc = rng.choice([None, 3, True, "abc", {"path": "x"}, {"a": doc}, "p", -1, False])
    elif kind == "top-empty":
        doc = rng.choice([{}, "", []])
        lenient = doc != []
    elif kind == "path-type":
        e["path"] = rng.choice([None, 17, -4])
        lenient = True
    elif kind == "path-unhashable":
        e["path"] = rng.choice([[], ["a"], {}, {"p": 1}])
    elif kind == "attr-null":
        e["attr"] = None
        lenient = True
    elif kind == "attr-type":
        e["attr"] = rng.choice([5, "attr", [1, 2], True])
        lenient = True
    elif kind == "dup-path":
        other = dict(doc[rng.randrange(n)])
        other["times"] = [fmt(gen_time(rng, True))] * 2
        doc.append(other)
        lenient = True
    elif kind == "extra-key":
        e["fs"] = "local"
        e["zzz"] = [1, None]
        lenient = True
    elif kind == "bad-time":
        e["times"][rng.choice([0, 1])] = rng.choice(BAD_TIMES)
    elif kind == "bad-time-prefix":
        s = e["times"][0]
        e["times"][rng.choice([0, 1])] = s[:rng.randrange(len(s))]
    elif kind == "good-time":
        e["times"] = [rng.choice(GOOD_TIMES), rng.choice(GOOD_TIMES)]
    elif kind == "lenient-time":
        e["times"][rng.choice([0, 1])] = rng.choice(LENIENT_TIMES)
        lenient = True
    return {"id": k, "kind": kind, "value": doc, "lenient": lenient, "pos": pos}


# ----------------------------------------------------------------------------- running the harness

def run_jobs(ctx, jobs, workers=None):
    """Distribute jobs over several harness children (each forks its own grandchildren)."""
    if not jobs:
        return []
    workers = workers or core.NPROC
    order = sorted(range(len(jobs)), key=lambda i: -jobs[i].get("_cost", 1))
    buckets = [[] for _ in range(min(workers, len(jobs)))]
    loads = [0] * len(buckets)
    for i in order:
        b = loads.index(min(loads))
        buckets[b].append(i)
        loads[b] += jobs[i].get("_cost", 1)
    results = [None] * len(jobs)

    def run(bucket):
        payload = json.dumps({"jobs": [{k: v for k, v in jobs[i].items() if not k.startswith("_")} for i in bucket]})
        r = core.run_py(HARNESS, timeout=840, stdin=payload)
        try:
            res = json.loads(r.stdout)["results"]
        except Exception:
            res = [{"error": f"harness child failed rc={r.returncode}: {(r.stderr or r.stdout)[-400:]}"}] * len(bucket)
        return bucket, res
    with ThreadPoolExecutor(max_workers=len(buckets)) as ex:
        for bucket, res in ex.map(run, buckets):
            for i, x in zip(bucket, res):
                results[i] = x
    return results


def run_sessions(root, template, cachefile, start, end, placeholder, init_cov=None, then_cov=None):
    r = core.run_py(HARNESS, ["session", root, template, cachefile or "-",
                              json.dumps(start) if start else "-", json.dumps(end) if end else "-",
                              json.dumps(placeholder), json.dumps({"init_cov": init_cov, "then_cov": then_cov})],
                    timeout=300)
    try:
        return json.loads(r.stdout.strip().splitlines()[-1])
    except Exception:
        return {"error": f"session failed rc={r.returncode}: {(r.stderr or r.stdout)[-400:]}"}


# ----------------------------------------------------------------------------- model evaluation

def eval_roundtrips(ctx, caches, name="rt"):
    """Model: what a restart makes of the document save_cache writes for each cache.
    Returns list of (warned, canonical cache) or None."""
    vals, log = core.coq_eval(ctx.work / "cases", name, PREAMBLE, [f"run_roundtrip {cache_term(c)}" for c in caches], shard=8)
    if log:
        ctx.log(log[-1500:])
    out = []
    for v in vals:
        if v is None:
            out.append(None)
        else:
            strings, (warned, shown) = v
            out.append((bool(warned), canon_model(shown),
                        [["".join(map(chr, a)), "".join(map(chr, b))] for a, b in strings]))
    return out


def note_format(ctx, predicted, doc_text):
    """Statistic, not a verdict: are the time strings in the file the ones fmt_time of the model writes?
    (The property fixes the round trip, not the spelling; a differing spelling is only noted.)"""
    st = ctx.cov.setdefault("time_strings", {"documents_compared": 0, "spelled_as_model": 0})
    try:
        written = [e["times"] for e in json.loads(doc_text)]
    except Exception:
        return
    st["documents_compared"] += 1
    if predicted is not None and written == predicted[2]:
        st["spelled_as_model"] += 1
    elif len(ctx.notes) < 20:
        ctx.notes.append(f"time strings in the saved document differ from the model's fmt_time: {str(written)[:120]}")


def cache_hyp(entries):
    """Hypotheses of save_load_roundtrip: one entry per path, attributes a dictionary (times are valid by
    construction: the real datetime constructor accepted them in the saver)."""
    paths = [e["path"] for e in entries]
    return len(set(paths)) == len(paths) and all(isinstance(e["attr"], dict) and isinstance(e["path"], str)
                                                  for e in entries)


def describe_rt(entries, load):
    low = [e for e in entries if e["t0"][0] < 1000 or e["t1"][0] < 1000]
    if load.get("raised"):
        return "load-raised", f"FileSet(info_cache=...) raised {load['raised']}"
    if load.get("warned") and low:
        return "roundtrip-year-below-1000", (f"a cache holding a time with a year below 1000 (e.g. {low[0]['t0']} of "
                                             f"{low[0]['path']!r}) is not restored after save_cache + restart: "
                                             f"{(load.get('msg') or ['warning'])[0][-140:]!r}, cache empty")
    return "roundtrip", "save_cache + restart does not restore the cache"


def check_load_of(ctx, what, entries, predicted, load, case, nontrivial_key=None):
    """Compare an observed load with the model's prediction for a complete document of `entries`."""
    if predicted is None:
        ctx.fail("correspondence", "Coq evaluation of the model failed", case=case, signature="coq-eval")
        return False
    warned, canon = predicted[0], predicted[1]
    hyp = cache_hyp(entries)
    if hyp and (warned or canon != canon_entries(entries)):
        ctx.fail("proof", "model round trip differs from the identity inside Coq (cannot happen while the theorems stand)",
                 case=case, model=[warned, canon], signature="model-vs-spec")
    obs = canon_observed(load)
    if load.get("raised") or obs != canon or bool(load.get("warned")) != warned:
        sig, text = describe_rt(entries, load)
        ctx.fail("failing-input" if hyp else "correspondence", f"{what}: {text}", case=case,
                 impl={"warned": load.get("warned"), "raised": load.get("raised"), "cache": load.get("cache")},
                 model={"warned": warned, "cache": canon}, signature=sig)
        return False
    return True


# ----------------------------------------------------------------------------- crash sweeps

def canonical_shape(events):
    if len(events) < 4:
        return False
    names = [e[0] for e in events]
    return (names[0].startswith("open:w") and events[0][1].endswith(".backup") and names[-1] == "rename"
            and names[-2] == "close" and all(n == "write" for n in names[1:-2])
            and all(e[1].endswith(".backup") for e in events[:-1]) and not events[-1][1].endswith(".backup"))


def make_sweep(rng, k, n, variant):
    new = gen_cache(rng, n, tag="/new")
    job = {"kind": "sweep", "id": k, "entries": new, "old_entries": None, "stale_backup": None,
           "_cost": 40 * n + 10, "variant": variant}
    if variant in ("old", "old+stale"):
        job["old_entries"] = gen_cache(rng, rng.choice([0, 1, 2, 5]), tag="/old")
    if variant in ("stale", "old+stale"):
        job["stale_backup"] = rng.choice(["[{\"path\": \"/stale\", \"times\": [\"2001-01-01T00:00:00.000000\", ",
                                          "[]", "x" * 5000, ""])
    return job


def check_sweeps(ctx, jobs, results):
    caches = []
    for j in jobs:
        caches.append(j["entries"])
        caches.append(j["old_entries"] or [])
    preds = eval_roundtrips(ctx, caches, "rtsweep")
    exprs = []
    for j, r in zip(jobs, results):
        if "error" in r:
            exprs.append("run_crash_sweep false 0 0 None")
            continue
        n = len(r["events"])
        stale = "None" if j["stale_backup"] is None else "(Some 3)"
        exprs.append(f"run_crash_sweep {coq_bool(j['old_entries'] is not None)} 7 {zlit(max(n - 3, 0))} {stale}")
    vals, log = core.coq_eval(ctx.work / "cases", "sweep", PREAMBLE, exprs, shard=6)
    if log:
        ctx.log(log[-1500:])
    points = 0
    nontrivial = set()
    for idx, (j, r) in enumerate(zip(jobs, results)):
        case = {"kind": "sweep", "job": {k: v for k, v in j.items() if not k.startswith("_")}}
        if "error" in r:
            ctx.fail("failing-input", f"save_cache of a valid cache failed outright: {r['error']}", case=case,
                     signature="save-failed")
            continue
        events, pts = r["events"], r["points"]
        n = len(events)
        shape = canonical_shape(events)
        model = vals[idx]
        if model is None:
            ctx.fail("correspondence", "Coq evaluation of the crash model failed", case=case, signature="coq-eval")
            continue
        if not shape:
            ctx.notes.append(f"sweep {j['id']}: primitives {[e[0] for e in events][:3]}..{[e[0] for e in events][-3:]} "
                             "are not open/write*/close/rename; only the property itself is checked there")
        pred_new, pred_old = preds[2 * idx], preds[2 * idx + 1]
        note_format(ctx, pred_new, r.get("new_doc") or "")
        has_old = j["old_entries"] is not None
        want_old = "old" if has_old else "missing"
        ok_all = True
        for p in pts:
            points += 1
            ctx.cov["evaluations"] += 1
            k, cls, load = p["k"], p["main"], p["load"]
            sub = dict(case, crash_after=k, of=n)
            # the property itself (theorem crash_safe): the previous file or the complete new one
            if cls not in (want_old, "new"):
                ctx.fail("failing-input",
                         f"save_cache interrupted after {k} of {n} primitives ({events[k-1][0] if k else 'start'}) leaves the "
                         f"cache file {cls!r} (neither the previous file nor the complete new document): "
                         f"{(p.get('main_text') or '')[:120]!r}", case=sub, impl=p, signature="crash-main-corrupt")
                ok_all = False
                continue
            if k == n and cls != "new":
                ctx.fail("failing-input", "save_cache ran to its end but the cache file is not the new document",
                         case=sub, impl=p, signature="save-did-not-save")
                ok_all = False
                continue
            if shape and k < len(model):
                want = {-1: "missing", 0: "old", 1: "new", 2: "other"}[model[k]]
                if want != cls:
                    ctx.fail("correspondence", f"after {k} of {n} primitives the model has the {want} file, the code the {cls} one",
                             case=sub, impl=p, model=want, signature="crash-sequence-differs")
                    ok_all = False
            # what the next interpreter sees
            if cls == "missing":
                if load.get("raised") or load.get("cache"):       # a warning is neither required nor forbidden here
                    ctx.fail("failing-input", f"a missing cache file does not give an empty cache: {load}", case=sub,
                             impl=load, signature="missing-file")
                    ok_all = False
            else:
                ent = j["entries"] if cls == "new" else j["old_entries"]
                ok_all &= check_load_of(ctx, f"restart after a save interrupted at primitive {k}/{n} ({cls} file)", ent,
                                        pred_new if cls == "new" else pred_old, load, sub)
        if n > 4 and (has_old or j["stale_backup"] is not None or len(j["entries"]) > 0):
            nontrivial.add(json.dumps(case, sort_keys=True))
        ctx.sample({"sweep": {"entries": len(j["entries"]), "variant": j["variant"], "primitives": n,
                              "classes": "".join({"missing": "-", "old": "o", "new": "N", "other": "X"}[p["main"]] for p in pts)[-12:]}},
                   limit=3)
    return points, len(nontrivial)


# ----------------------------------------------------------------------------- histories

def make_history(rng, k):
    steps = []
    for i in range(rng.randint(2, 7)):
        st = {"entries": gen_cache(rng, rng.choice([0, 1, 2, 3, 5]), tag=f"/s{i}")}
        style = rng.random()
        if style < 0.35:
            st["crash"] = None
        elif style < 0.55:
            st["crash"] = rng.choice([0, 1, 2, 3])
        elif style < 0.8:
            st["crash"] = {"fromend": rng.choice([0, 1, 1, 2, 3])}
        elif style < 0.9 and st["entries"]:
            st["crash"] = None
            st["entries"][rng.randrange(len(st["entries"]))]["poison"] = True
        else:
            st["crash"] = rng.randint(4, 40)
        steps.append(st)
    init = gen_cache(rng, rng.choice([0, 1, 3]), tag="/init") if rng.random() < 0.6 else None
    return {"kind": "history", "id": k, "init_entries": init, "steps": steps, "_cost": 12 * len(steps)}


def check_histories(ctx, jobs, results):
    caches = []
    for j in jobs:
        caches.append(j["init_entries"] or [])
        for st in j["steps"]:
            caches.append([dict(e, poison=False) for e in st["entries"]])
    preds = eval_roundtrips(ctx, caches, "rthist")
    exprs = []
    for j, r in zip(jobs, results):
        if "error" in r:
            exprs.append("run_history_classes false 0 []")
            continue
        evs = []
        for st, o in zip(j["steps"], r["steps"]):
            n = o["n_events"]
            # an attribute json cannot serialise makes json.dump raise after the backup was opened: as far as the
            # files go that is a save that died early (if the code under test did not raise, the save completed)
            poisoned = any(e.get("poison") for e in st["entries"]) and o.get("raised")
            k = 1 if poisoned else (-1 if o["k"] is None else o["k"])
            evs.append(f"({zlit(max(n - 3, 0))}, {zlit(k)})")
        exprs.append(f"run_history_classes {coq_bool(j['init_entries'] is not None)} 7 {coq_list(evs)}")
    vals, log = core.coq_eval(ctx.work / "cases", "hist", PREAMBLE, exprs, shard=40)
    if log:
        ctx.log(log[-1500:])
    nontrivial = set()
    pi = 0
    for idx, (j, r) in enumerate(zip(jobs, results)):
        case = {"kind": "history", "job": {k: v for k, v in j.items() if not k.startswith("_")}}
        base = pi
        pi += 1 + len(j["steps"])
        ctx.cov["evaluations"] += 1
        if "error" in r:
            ctx.fail("failing-input", f"save_cache of a valid cache failed outright: {r['error']}", case=case,
                     signature="save-failed")
            continue
        model = vals[idx]
        if model is None:
            ctx.fail("correspondence", "Coq evaluation of the history model failed", case=case, signature="coq-eval")
            continue
        kinds = set()
        for i, (st, o, m) in enumerate(zip(j["steps"], r["steps"], model)):
            sub = dict(case, step=i)
            if o["missing"]:
                got, ent, pred = {-1}, None, None
            elif o["equals_step"]:
                got = set(o["equals_step"])
                ent = [dict(e, poison=False) for e in j["steps"][o["equals_step"][0]]["entries"]]
                pred = preds[base + 1 + o["equals_step"][0]]
            else:
                got = set()
            if o["is_init"]:
                got.add(-2)
                ent, pred = j["init_entries"], preds[base]
            if not got:
                ctx.fail("failing-input", f"after step {i} of a history of saves (crash point {o['k']}, raised {o['raised']}) the "
                         f"cache file is none of the documents saved so far: {(o.get('main_text') or '')[:120]!r}",
                         case=sub, impl=o, signature="crash-main-corrupt")
                continue
            if m not in got:
                # the spec (history_safe): the document of the last save that ran to its end
                ctx.fail("failing-input", f"after step {i} the cache file holds the document of step(s) {sorted(got)} "
                         f"(-2 = initial, -1 = missing) but the last completed save is {m}", case=sub, impl=o, model=m,
                         signature="history-wrong-document")
                continue
            kinds.add("crash" if o["status"] == 77 else "raise" if o["raised"] else "done")
            load = o["load"]
            if ent is None:
                if load.get("raised") or load.get("cache"):       # a warning is neither required nor forbidden here
                    ctx.fail("failing-input", f"a missing cache file does not give an empty cache: {load}", case=sub,
                             impl=load, signature="missing-file")
            else:
                check_load_of(ctx, f"restart after step {i} of a history", ent, pred, load, sub)
        if len(kinds) >= 2:
            nontrivial.add(json.dumps(case, sort_keys=True))
        if idx % 9 == 0:
            ctx.sample({"history": [(len(st["entries"]), o["k"], o["raised"] and "raises") for st, o in zip(j["steps"], r["steps"])],
                        "main_after_each_step": model}, limit=5)
    return len(nontrivial)


# ----------------------------------------------------------------------------- corruption stream

def make_load_jobs(rng, n_struct, trunc_docs, n_bytes):
    jobs = []
    for k in range(n_struct):
        c = gen_corrupt(rng, k)
        via = rng.choice(["init", "init", "load_cache"])
        c0 = None
        if via == "load_cache":
            c0 = gen_cache(rng, rng.choice([1, 2, 3]), modern=True, tag="/c0")
            v = c["value"]
            if isinstance(v, list) and v and isinstance(v[0], dict) and isinstance(v[0].get("path"), str) and rng.random() < 0.5:
                c0[0]["path"] = v[0]["path"]                  # an existing key that a good document overrides
        jobs.append({"kind": "load", "id": k, "file": {"text": json.dumps(c["value"])}, "via": via, "c0": c0,
                     "_meta": c, "_value": c["value"], "_parsed": True})
    k = n_struct
    for d in range(trunc_docs):
        entries = gen_cache(rng, rng.choice([0, 1, 2, 3]), modern=rng.random() < 0.5)
        text = json.dumps(doc_value(entries))
        for cut in range(len(text) + 1):
            jobs.append(text_job(k, text[:cut], {"kind": "truncate", "at": cut, "of": len(text), "lenient": False}))
            k += 1
    specials = [(None, "missing"), ({"dir": True}, "directory"), ({"hex": "fffe0041"}, "not-utf8"), ({"text": ""}, "empty"),
                ({"hex": "00" * 16}, "nul-bytes"), ({"text": "\n"}, "newline"), ({"text": "[] []"}, "two-docs"),
                ({"text": "[]\n"}, "list-newline"), ({"text": "NaN"}, "nan")]
    for spec, name in specials:
        jobs.append({"kind": "load", "id": k, "file": spec, "via": "init", "c0": None,
                     "_meta": {"kind": name, "lenient": False}, "_parsed": False})
        if spec and "text" in spec:
            jobs[-1] = text_job(k, spec["text"], {"kind": name, "lenient": False})
        k += 1
    for _ in range(n_bytes):
        entries = gen_cache(rng, rng.choice([1, 2]), modern=True)
        text = json.dumps(doc_value(entries))
        i = rng.randrange(len(text))
        style = rng.random()
        if style < 0.4:
            text2 = text[:i] + rng.choice("0123456789:-T.,[]{}\" xn") + text[i + 1:]
        elif style < 0.7:
            text2 = text[:i] + text[i + 1:]
        else:
            j = rng.randrange(len(text))
            text2 = text[:min(i, j)] + text[max(i, j):]
        jobs.append(text_job(k, text2, {"kind": "byte-damage", "lenient": False}))
        k += 1
    return jobs


def safe_value(v):
    """Is the value inside the model's JSON (no floats, no huge numbers)?"""
    if isinstance(v, float):
        return False
    if isinstance(v, list):
        return all(safe_value(x) for x in v)
    if isinstance(v, dict):
        return all(safe_value(x) for x in v.values())
    return True


def text_job(k, text, meta):
    job = {"kind": "load", "id": k, "file": {"text": text}, "via": "init", "c0": None, "_meta": meta}
    try:
        job["_value"] = json.loads(text)
        job["_parsed"] = True
    except Exception:
        job["_parsed"] = False
    return job


def check_loads(ctx, jobs, results):
    exprs, where = [], []
    for i, j in enumerate(jobs):
        if j["_parsed"] and safe_value(j["_value"]):
            exprs.append(f"show_load (load {cache_term(j['c0'] or [])} {jterm(j['_value'])})")
            where.append(i)
    vals, log = core.coq_eval(ctx.work / "cases", "load", PREAMBLE, exprs, shard=80)
    if log:
        ctx.log(log[-1500:])
    model = {i: v for i, v in zip(where, vals)}
    nontrivial = set()
    kinds = {}
    for i, (j, r) in enumerate(zip(jobs, results)):
        meta = j["_meta"]
        case = {"kind": "load", "job": {k: v for k, v in j.items() if not k.startswith("_")}, "damage": meta.get("kind")}
        ctx.cov["evaluations"] += 1
        kinds[meta["kind"]] = kinds.get(meta["kind"], 0) + 1
        c0 = canon_entries(j["c0"] or [])
        if j["_parsed"] and not safe_value(j["_value"]):
            continue
        if j["_parsed"]:
            if model.get(i) is None:
                ctx.fail("correspondence", "Coq evaluation of load failed", case=case, signature="coq-eval")
                continue
            warned, shown = model[i]
            want = (bool(warned), canon_model(shown))
        elif j["file"] is None:
            want = (False, c0)                 # theorem damaged_file: missing -> silent, untouched
        else:
            want = (True, c0)                  # unreadable / rejected by json.load -> warning, untouched
        if "error" in r:
            ctx.fail("correspondence", f"harness error: {r['error']}", case=case, signature="harness")
            continue
        obs = canon_observed(r)
        good = (not r.get("raised")) and obs == want[1] and (bool(r.get("warned")) == want[0] or j["file"] is None)
        if want[0]:
            nontrivial.add(json.dumps(case, sort_keys=True))
        if good:
            continue
        if meta.get("lenient"):
            ctx.notes.append(f"lenient form {meta['kind']}: code and model differ (not fixed by the property): "
                             f"{json.dumps(j['file'])[:160]}")
            continue
        if r.get("raised"):
            ctx.fail("failing-input", f"loading a damaged cache file ({meta['kind']}) raises {r['raised']} instead of warning",
                     case=case, impl=r, model=want, signature="load-raised")
        elif want[0]:
            # the model (= the specification, theorem malformed_warns) says: malformed -> warning, cache untouched
            what = "is accepted without a warning" if not r.get("warned") else "warns but changes the cache"
            extra = ""
            if meta["kind"] == "null-time" or (obs and any("BAD" in x for x in obs)):
                extra = " -- a null time ends up in the cache as the list [None]"
            ctx.fail("failing-input", f"a malformed cache document ({meta['kind']}) {what}{extra}: file "
                     f"{json.dumps(j['file'])[:200]}, cache afterwards {str(r.get('cache'))[:200]}", case=case, impl=r,
                     model={"warned": True, "cache": want[1]},
                     signature="malformed-accepted:" + meta["kind"] if not r.get("warned") else "malformed-partial-update")
        else:
            ctx.fail("failing-input", f"a well-formed cache document ({meta['kind']}) is not loaded as written: "
                     f"{json.dumps(j['file'])[:200]} -> warned={r.get('warned')} {(r.get('msg') or [''])[0][-100:]!r}",
                     case=case, impl=r, model={"warned": False, "cache": want[1]}, signature="wellformed-rejected")
    return len(nontrivial), kinds


# ----------------------------------------------------------------------------- real sessions (restart, atexit)

def make_e2e(rng, k):
    kind = ["static", "temporal", "start-only", "static", "temporal"][k % 5]
    files = []
    if kind == "static":
        template = "static/{name}.txt"
        placeholder = {"name": "[a-z]+"}
        names = rng.sample(["abc", "xyz", "foo", "bar", "qux", "noaa", "metop"], rng.randint(1, 5))
        files = [f"static/{n}.txt" for n in names]
        start = end = None
    elif kind == "temporal":
        template = "t/{year}/{month}/{day}/{hour}{minute}{second}-{end_hour}{end_minute}{end_second}_{sat}.dat"
        placeholder = {"sat": "[a-z0-9]+"}
        for _ in range(rng.randint(2, 8)):
            d = rng.randint(1, 5)
            h, m, s = rng.randint(0, 23), rng.randint(0, 59), rng.randint(0, 59)
            h2, m2, s2 = rng.randint(0, 23), rng.randint(0, 59), rng.randint(0, 59)
            files.append(f"t/2018/02/{d:02d}/{h:02d}{m:02d}{s:02d}-{h2:02d}{m2:02d}{s2:02d}_{rng.choice(['noaa18', 'metopa'])}.dat")
        start, end = [2018, 2, rng.randint(1, 3)], [2018, 2, rng.randint(4, 7)]
    else:
        template = "s/{year}{month}{day}_{hour}{minute}.nc"
        placeholder = None
        for _ in range(rng.randint(2, 8)):
            files.append(f"s/2017{rng.randint(1, 12):02d}{rng.randint(1, 28):02d}_{rng.randint(0, 23):02d}{rng.randint(0, 59):02d}.nc")
        start, end = [2017, rng.randint(1, 6), 1], [2017, rng.randint(7, 12), 28]
    return {"kind": "e2e", "id": k, "style": kind, "template": template, "placeholder": placeholder,
            "files": sorted(set(files)), "start": start, "end": end,
            "coverage": rng.choice(["1 hour", "90 minutes", "2 days"]) if kind == "start-only" else None}


def run_e2e(case):
    root = tempfile.mkdtemp(prefix="verif_c15_e2e_")
    try:
        for f in case["files"]:
            p = Path(root) / f
            p.parent.mkdir(parents=True, exist_ok=True)
            p.touch()
        cf = str(Path(root) / "info_cache.json")
        args = (root, case["template"])
        q = (case["start"], case["end"], case["placeholder"])
        cov = case.get("coverage")
        s0 = run_sessions(*args, None, *q)
        out = {}
        if cov:
            # the answers change with time_coverage: the cache must be reset when it is set, and a restart with the
            # new setting must find what a cache-less fileset with that setting finds
            out["s0c"] = run_sessions(*args, None, *q, init_cov=cov)
        s1 = run_sessions(*args, cf, *q, then_cov=cov)
        saved = Path(cf).read_text() if Path(cf).exists() else None
        s2 = run_sessions(*args, cf, *q, init_cov=cov)
        out.update({"s0": s0, "s1": s1, "s2": s2, "saved": saved and saved.replace(root, "<root>")[:600]})
        return out
    finally:
        shutil.rmtree(root, ignore_errors=True)


def check_e2e(ctx, cases):
    with ThreadPoolExecutor(max_workers=min(8, max(1, len(cases)))) as ex:
        results = list(ex.map(run_e2e, cases))
    nontrivial = 0
    for c, r in zip(cases, results):
        ctx.cov["evaluations"] += 1
        case = {"kind": "e2e", "job": c}
        errs = [r[s]["error"] for s in ("s0", "s1", "s2", "s0c") if s in r and "error" in r[s]]
        if errs:
            ctx.fail("failing-input", f"a session with an info_cache file failed: {errs[0]}", case=case, impl=r,
                     signature="session-failed")
            continue

        def found(s, key="found"):
            return sorted(json.dumps(x, sort_keys=True) for x in r[s][key])

        def cached(xs):
            return canon_observed({"cache": xs})
        if c.get("coverage"):
            same = found("s0") == found("s1") and found("s0c") == found("s1", "found_after") == found("s2")
        else:
            same = found("s0") == found("s1") == found("s2")
        if not same:
            ctx.fail("failing-input", "find() answers differ between no cache, first run and run after restart"
                     + (" (time_coverage set between two searches)" if c.get("coverage") else ""),
                     case=case, impl=r, signature="e2e-find-differs")
            continue
        if cached(r["s2"]["restored"]) != cached(r["s1"]["final"]) or r["s2"]["warned"]:
            low = any(x.get("t0", [9999])[0] < 1000 for x in r["s1"]["final"] if "bad" not in x)
            ctx.fail("failing-input",
                     f"interpreter restart ({c['style']} fileset {c['template']!r}, {len(c['files'])} files): the first session "
                     f"cached {len(r['s1']['final'])} files and saved them at exit, the next session restored "
                     f"{len(r['s2']['restored'])} (warning: {(r['s2'].get('msg') or [''])[0][-130:]!r})", case=case, impl=r,
                     signature="roundtrip-year-below-1000" if low else "e2e-restart-loses-cache")
            continue
        if r["s1"]["final"]:
            nontrivial += 1
        ctx.sample({"e2e": c["style"], "files": len(c["files"]), "found": len(r["s0"]["found"]),
                    "restored_after_restart": len(r["s2"]["restored"])}, limit=7)
    return nontrivial


# ----------------------------------------------------------------------------- check

def run(ctx):
    ctx.notes = []
    ctx.prove("Props/C15.v")
    rng = ctx.rng
    # 1. every crash point of caches with 0..20 entries (both tiers), over several previous states
    variants = ["fresh", "old", "old+stale", "stale"]
    sweeps = []
    for n in range(0, 21):
        reps = ctx.n(1, 4)
        for rep in range(reps):
            sweeps.append(make_sweep(rng, len(sweeps), n, variants[(n + rep) % 4]))
    histories = [make_history(rng, k) for k in range(ctx.n(40, 400))]
    loads = make_load_jobs(rng, ctx.n(500, 6000), ctx.n(3, 12), ctx.n(150, 2000))
    for j in loads:
        j["_cost"] = 1
    e2e = [make_e2e(rng, k) for k in range(ctx.n(5, 15))]

    all_jobs = sweeps + histories + loads
    ctx.log(f"harness: {len(sweeps)} crash sweeps, {len(histories)} histories, {len(loads)} damaged files, {len(e2e)} session cases")
    with ThreadPoolExecutor(max_workers=2) as ex:
        fut_e2e = ex.submit(check_e2e, ctx, e2e)
        results = run_jobs(ctx, all_jobs, workers=max(4, core.NPROC - 4))
        nt_e2e = fut_e2e.result()
    ctx.log("harness done")
    for i, r in enumerate(results):
        if r is None:
            results[i] = {"error": "no result from the harness"}
    rs, rh, rl = results[:len(sweeps)], results[len(sweeps):len(sweeps) + len(histories)], results[len(sweeps) + len(histories):]
    points, nt_s = check_sweeps(ctx, sweeps, rs)
    nt_h = check_histories(ctx, histories, rh)
    nt_l, kinds = check_loads(ctx, loads, rl)

    ctx.cov["distinct_nontrivial"] = nt_s + nt_h + nt_l + nt_e2e
    ctx.cov["rule"] = ("crash sweep: a save with more than one write over a non-trivial state (non-empty cache, previous file "
                       "or stale backup), every primitive a crash point; history: at least two different outcomes among "
                       "completed / died / raised; damaged file: the specification demands a warning; session case: the "
                       "first run cached at least one file; distinct by input")
    ctx.cov["input_distribution"] = {
        "crash_sweeps": len(sweeps), "crash_points": points, "entries_per_cache": "0..20 (each size in both tiers)",
        "previous_state": variants, "histories": len(histories), "damaged_files": len(loads), "damage_kinds": kinds,
        "session_cases": len(e2e),
        "times": "datetime.min, datetime.max, years 1..999, 1000, 9999, leap days, month ends, microseconds 0/1/10/.../999999",
    }
    if ctx.notes:
        ctx.cov["notes"] = ctx.notes[:20]
        ctx.log(f"{len(ctx.notes)} note(s), e.g. {ctx.notes[0][:200]}")
    ctx.assumptions += [
        "cached times are valid naive datetimes, one entry per path, attributes a JSON-native dictionary: hypotheses of "
        "save_load_roundtrip, true of every generated cache and checked per case",
        "a crash is the death of the process between two primitives of save_cache (open, write, close, rename), each write "
        "call being cut once in the middle; data is flushed per primitive (the theorem covers every prefix at the granularity "
        "of the atoms written, which may be single bytes)",
        "a missing cache file gives an empty cache (the code is silent there: the normal first run; the check accepts a "
        "warning as well); a warning is required for unreadable and malformed files",
        "the present code's lenient acceptances (one-digit fields, 't', extra list elements, non-dictionary attr, non-string "
        "path, {} or \"\" as a document) are modelled as they are and compared, but not required by the property",
    ]
    return ctx.finish(trusted_base=TRUSTED)


def replay(ctx, rec):
    ctx.notes = []
    case = rec["case"]
    kind = case["kind"]
    if kind == "e2e":
        check_e2e(ctx, [case["job"]])
    else:
        job = dict(case["job"])
        if kind == "sweep":
            if "crash_after" in case:
                job["points"] = sorted({case["crash_after"], case["of"]})
            res = run_jobs(ctx, [job], workers=1)
            check_sweeps(ctx, [job], res)
        elif kind == "history":
            res = run_jobs(ctx, [job], workers=1)
            check_histories(ctx, [job], res)
        elif kind == "load":
            j = text_job(job["id"], job["file"]["text"], {"kind": case.get("damage") or "replay", "lenient": False}) \
                if job.get("file") and "text" in job["file"] else dict(job, _meta={"kind": case.get("damage") or "replay",
                                                                                    "lenient": False}, _parsed=False)
            j["via"], j["c0"] = job.get("via", "init"), job.get("c0")
            res = run_jobs(ctx, [j], workers=1)
            check_loads(ctx, [j], res)
    for f in ctx.failures:
        print("still fails:", f.what[:300])
    return 1 if ctx.failures else 0
