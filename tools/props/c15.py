"""C15 -- the file-info cache survives restarts and interrupted saves.

Theorems: coq/theories/Props/C15.v (crash safety at every prefix of the I/O sequence of save_cache and over all
histories of saves; strptime(strftime(t)) = t for every datetime; save + restart restores the cache; a malformed
document changes nothing and warns -- all or nothing; find() is the same with a consistent cache).

Tie to the source, every run (tools/harness/c15_crash.py, children forked from a pristine interpreter):
 * crash sweeps: save_cache is killed (os._exit) after every single primitive (open, each half of each write,
   close, rename) over several previous states of the two files; after each death the main file is classified
   and loaded by a fresh FileSet(info_cache=...).  The model's prefix_states are evaluated in Coq on the same
   number of primitives and compared point by point.
 * histories of saves (completing, dying anywhere, raising while serialising) against run_history.
 * save/restart round trips of caches with times from datetime.min to datetime.max against load (doc_of c).
 * corruption stream: structurally damaged documents (wrong JSON types, missing keys, null / short / bad
   times, damaged entry in any position), truncation at every byte, byte damage, unreadable files, against
   load / load_file evaluated in Coq (json.loads is the oracle for "json.load rejects it").
 * real interpreter sessions with atexit saving: find() without cache = first run = run after restart, and the
   restart restores what the first run had cached.

 * the json module (tools of the extension, Model/C15_json.v): for every generated cache -- the caches of the sweeps
   and histories and a stream of caches whose paths and attributes hold quotes, backslashes, control characters,
   DEL, non-ASCII, astral characters, lone surrogates, big integers, nested attributes -- the bytes save_cache wrote
   are compared with `json_dump (doc_of c)` evaluated in Coq, the restart with `load_file json_load`, and json.load's
   accept / reject (and value) with `json_load`'s on every truncation, every damaged file and every prefix of the
   written documents.  A difference is reported with its input (signature json-dump-bytes / json-load-verdict /
   json-load-value).

Because the model provably meets the specification under hypotheses that every generated case carries
(valid datetimes, one entry per path, attributes a dictionary), a disagreement there is a failing input.
Forms the property does not fix (lenient acceptances of the present code such as "2018-1-1T0:0:0.5", an
attr that is not a dictionary, `{}` as a document) are compared too, but a disagreement there is only noted.
"""
import json
import shutil
import tempfile
from concurrent.futures import ThreadPoolExecutor
from pathlib import Path

from lib import core
from lib.core import zlit, zlist, coq_list, coq_bool

PREAMBLE = "From Typhon Require Import Model.C15_cache Model.C15_json.\n"
HARNESS = core.VERIF / "tools" / "harness" / "c15_crash.py"
TRUSTED = [
    "correspondence harness tools/props/c15.py + tools/harness/c15_crash.py (generators, crash injection by wrapping "
    "open / write / close / shutil.move / os.rename / os.replace from outside, classification of the files)",
    "POSIX rename replaces the destination atomically (the model's Rename primitive); no power-failure / fsync model",
    "the json module of CPython behaves as Model/C15_json.v (json_dump = json.dump with default arguments, json_load = "
    "json.load, for null / booleans / integers / strings / lists / dictionaries): no longer a hypothesis of the theorems "
    "(json_roundtrip, json_prefix_free are proved about the model) but a correspondence, compared on every run byte for "
    "byte on every written cache file and verdict for verdict on every truncation / damaged file / prefix; outside the "
    "model: floats (number syntax with fraction or exponent, NaN, Infinity -- texts whose value holds a float are skipped "
    "and counted), the 4300-digit limit of int(), the recursion limit of the scanner, the text decoding of open()",
    "datetime.strftime / strptime of CPython + glibc behave as the digit-level model (exercised on every generated time "
    "and time string); only ASCII time strings are generated (\\d also matches other Unicode digits)",
    "a process forked from an interpreter that has only imported typhon stands for a new interpreter; "
    "real interpreter restarts with atexit are exercised by the session cases",
]

TMIN = [1, 1, 1, 0, 0, 0, 0]
TMAX = [9999, 12, 31, 23, 59, 59, 999999]


# ----------------------------------------------------------------------------- Coq terms

def jterm(v):
    if v is None:
        return "JNull"
    if isinstance(v, bool):
        return f"(JBool {coq_bool(v)})"
    if isinstance(v, int):
        return f"(JNum {zlit(v)})"
    if isinstance(v, str):
        return f"(JStr {zlist([ord(c) for c in v])})"
    if isinstance(v, list):
        return "(JArr " + coq_list([jterm(x) for x in v]) + ")"
    if isinstance(v, dict):
        return "(JObj " + coq_list([f"({zlist([ord(c) for c in k])}, {jterm(x)})" for k, x in v.items()]) + ")"
    raise ValueError(f"not a JSON value the model knows: {v!r}")


def unj(t):
    """Parsed Coq json -> Python value."""
    if t == "JNull":
        return None
    tag = t[0]
    if tag == "JBool":
        return bool(t[1])
    if tag == "JNum":
        return int(t[1])
    if tag == "JStr":
        return "".join(chr(c) for c in t[1])
    if tag == "JArr":
        return [unj(x) for x in t[1]]
    if tag == "JObj":
        return {"".join(chr(c) for c in k): unj(x) for k, x in t[1]}
    raise ValueError(t)


def cache_term(entries):
    return coq_list([f"mk_entry {jterm(e['path'])} {zlist(e['t0'])} {zlist(e['t1'])} {jterm(e['attr'])}"
                     for e in entries])


def canon_entries(entries):
    """Order-free canonical form of a cache: sorted JSON texts of (path, t0, t1, attr)."""
    return sorted(json.dumps([e["path"], e["t0"], e["t1"], e["attr"]], sort_keys=True) for e in entries)


def canon_model(shown):
    return sorted(json.dumps([unj(p), list(a), list(b), unj(at)], sort_keys=True) for (p, a, b, at) in shown)


def canon_observed(load):
    if load is None or load.get("cache") is None:
        return None
    out = []
    for x in load["cache"]:
        if "bad" in x:
            out.append(json.dumps(["BAD", x]))
        else:
            out.append(json.dumps([x["path"], x["t0"], x["t1"], x["attr"]], sort_keys=True))
    return sorted(out)


# ----------------------------------------------------------------------------- generators

def days_in_month(y, m):
    if m == 2:
        return 29 if (y % 4 == 0 and y % 100 != 0) or y % 400 == 0 else 28
    return 30 if m in (4, 6, 9, 11) else 31


def gen_time(rng, modern=False):
    style = rng.random()
    if not modern:
        if style < 0.07:
            return list(TMIN)
        if style < 0.14:
            return list(TMAX)
        if style < 0.24:
            y = rng.choice([1, 2, 9, 10, 99, 100, 476, 999])
        elif style < 0.30:
            y = rng.choice([1000, 1001, 9999])
        else:
            y = rng.randint(1950, 2030)
    else:
        y = rng.choice([1000, 1583, 1970, 2000, 2016, 2018, 2024, 9999]) if style < 0.3 else rng.randint(1950, 2030)
    m = rng.randint(1, 12)
    d = rng.choice([1, days_in_month(y, m), rng.randint(1, days_in_month(y, m))])
    if rng.random() < 0.1:
        y2 = y if days_in_month(y, 2) == 29 else (2016 if y >= 1000 or modern else 4)
        y, m, d = y2, 2, 29
    h, mi, s = rng.choice([(0, 0, 0), (23, 59, 59), (rng.randint(0, 23), rng.randint(0, 59), rng.randint(0, 59))])
    us = rng.choice([0, 0, 1, 10, 100, 1000, 10000, 100000, 999999, 500000, 123456, 7, rng.randint(0, 999999)])
    return [y, m, d, h, mi, s, us]


ATTRS = [{}, {}, {"sat": "noaa18"}, {"sat": "metop-a", "orbit": "04711"}, {"name": "abc"},
         {"n": 3, "flag": True, "none": None}, {"nested": {"a": [1, 2, "x"]}, "list": ["u", "v"]},
         {"quote": "he said \"hi\" \\ there", "uni": "gr\u00fc\u00df dich \u2603"}, {"": ""}]
PATH_STYLES = ["/data/{i:03d}.dat", "/data/sub dir/{i}.nc", "/d/\u00fcml\u00e4ut/{i}.h5", "C:\\\\win\\\\{i}.txt",
               "/data/\"q\"/{i}", "rel/{i}.dat"]


def gen_cache(rng, n, modern=False, tag=""):
    style = rng.choice(PATH_STYLES)
    out = []
    for i in range(n):
        t0 = gen_time(rng, modern)
        t1 = gen_time(rng, modern) if rng.random() < 0.7 else list(t0)
        if tuple(t1) < tuple(t0):
            t0, t1 = t1, t0
        out.append({"path": tag + style.format(i=i), "t0": t0, "t1": t1, "attr": dict(rng.choice(ATTRS))})
    if n and rng.random() < 0.35 and not modern:
        out[rng.randrange(n)].update(t0=list(TMIN), t1=list(TMAX))   # a non-temporal file
    return out


def fmt(t):
    return "%04d-%02d-%02dT%02d:%02d:%02d.%06d" % tuple(t)


def doc_value(entries):
    return [{"path": e["path"], "times": [fmt(e["t0"]), fmt(e["t1"])], "attr": e["attr"]} for e in entries]


BAD_TIMES = ["", "garbage", "2018-13-01T00:00:00.000000", "2018-00-10T00:00:00.000000", "2018-01-32T00:00:00.000000",
             "2018-02-30T00:00:00.000000", "2019-02-29T00:00:00.000000", "1900-02-29T00:00:00.000000",
             "2018-01-00T00:00:00.000000", "2018-01-01T24:00:00.000000", "2018-01-01T00:60:00.000000",
             "2018-01-01T00:00:60.000000", "2018-01-01T00:00:61.000000", "2018-01-01T00:00:00.0000001",
             "2018-01-01T00:00:00", "2018-01-01T00:00:00.", "2018-01-01", "2018-01-01 00:00:00.000000",
             " 2018-01-01T00:00:00.000000", "2018-01-01T00:00:00.000000 ", "2018-01-01T00:00:00.000000Z",
             "0000-01-01T00:00:00.000000", "10000-01-01T00:00:00.000000", "999-01-01T00:00:00.000000",
             "1-01-01T00:00:00.000000", "18-01-01T00:00:00.000000", "2018-001-01T00:00:00.000000",
             "2018-01-001T00:00:00.000000", "2018/01/01T00:00:00.000000", "2018-01-01T00-00-00.000000",
             "2018-01-01T00:00:00,000000", "-018-01-01T00:00:00.000000", "2018-01-01T00:00:00.-00001",
             "2018-01-01T00:00:0x.000000", "2018-1a-01T00:00:00.000000", "20180101T000000.000000",
             "2018-01-01T00:00:00.000000\n", "2018-01--1T00:00:00.000000", "2018-04-31T00:00:00.000000"]
GOOD_TIMES = ["0001-01-01T00:00:00.000000", "9999-12-31T23:59:59.999999", "2016-02-29T23:59:59.000001",
              "2000-02-29T00:00:00.100000", "0999-12-31T23:59:59.999999", "1000-01-01T00:00:00.000010"]
LENIENT_TIMES = ["2018-1-1T0:0:0.0", "2018-01-01t00:00:00.000000", "2018-01- 1T00:00:00.000000",
                 "2018-01-01T00:00:00.5", "2018-01-01T00:00:00.12345", "2018-12-9T7:05:3.25"]


def gen_corrupt(rng, k):
    """A structurally damaged (or deliberately intact) document as a JSON value.
    Returns dict(kind, value, lenient)."""
    n = rng.choice([1, 1, 2, 3, 4, 6])
    entries = gen_cache(rng, n, modern=rng.random() < 0.5)
    doc = doc_value(entries)
    pos = rng.choice([0, n - 1, rng.randrange(n)])
    kind = rng.choice(["ok", "drop-key", "null-time", "times-short", "times-long", "times-type", "time-type",
                       "entry-type", "top-type", "top-empty", "path-type", "path-unhashable", "attr-null", "attr-type",
                       "dup-path", "extra-key", "bad-time", "bad-time", "bad-time-prefix", "good-time", "lenient-time"])
    lenient = False
    e = doc[pos]
    if kind == "ok":
        pass
    elif kind == "drop-key":
        del e[rng.choice(["path", "times", "attr"])]
    elif kind == "null-time":
        which = rng.choice([(0,), (1,), (0, 1)])
        for i in which:
            e["times"][i] = None
    elif kind == "times-short":
        e["times"] = e["times"][:rng.choice([0, 1])]
    elif kind == "times-long":
        e["times"] = e["times"] + [rng.choice(["x", None, 3])]
        lenient = True
    elif kind == "times-type":
        e["times"] = rng.choice([None, 7, "2018-01-01T00:00:00.000000", {"0": e["times"][0], "1": e["times"][1]}, True,
                                 "ab", {}])
    elif kind == "time-type":
        e["times"][rng.choice([0, 1])] = rng.choice([0, 20180101, True, [e["times"][0]], {"t": 1}, False])
    elif kind == "entry-type":
        doc[pos] = rng.choice([None, 5, "path", [], ["path", "times", "attr"], True, [e]])
    elif kind == "top-type":
        doc = rng.choice([None, 3, True, "abc", {"path": "x"}, {"a": doc}, "p", -1, False])
    elif kind == "top-empty":
        doc = rng.choice([{}, "", []])
        lenient = doc != []
    elif kind == "path-type":
        e["path"] = rng.choice([None, 17, -4])
        lenient = True
    elif kind == "path-unhashable":
        e["path"] = rng.choice([[], ["a"], {}, {"p": 1}])
    elif kind == "attr-null":
        e["attr"] = None
        lenient = True
    elif kind == "attr-type":
        e["attr"] = rng.choice([5, "attr", [1, 2], True])
        lenient = True
    elif kind == "dup-path":
        other = dict(doc[rng.randrange(n)])
        other["times"] = [fmt(gen_time(rng, True))] * 2
        doc.append(other)
        lenient = True
    elif kind == "extra-key":
        e["fs"] = "local"
        e["zzz"] = [1, None]
        lenient = True
    elif kind == "bad-time":
        e["times"][rng.choice([0, 1])] = rng.choice(BAD_TIMES)
    elif kind == "bad-time-prefix":
        s = e["times"][0]
        e["times"][rng.choice([0, 1])] = s[:rng.randrange(len(s))]
    elif kind == "good-time":
        e["times"] = [rng.choice(GOOD_TIMES), rng.choice(GOOD_TIMES)]
    elif kind == "lenient-time":
        e["times"][rng.choice([0, 1])] = rng.choice(LENIENT_TIMES)
        lenient = True
    return {"id": k, "kind": kind, "value": doc, "lenient": lenient, "pos": pos}


# ----------------------------------------------------------------------------- running the harness

def run_jobs(ctx, jobs, workers=None):
    """Distribute jobs over several harness children (each forks its own grandchildren)."""
    if not jobs:
        return []
    workers = workers or core.NPROC
    order = sorted(range(len(jobs)), key=lambda i: -jobs[i].get("_cost", 1))
    buckets = [[] for _ in range(min(workers, len(jobs)))]
    loads = [0] * len(buckets)
    for i in order:
        b = loads.index(min(loads))
        buckets[b].append(i)
        loads[b] += jobs[i].get("_cost", 1)
    results = [None] * len(jobs)

    def run(bucket):
        payload = json.dumps({"jobs": [{k: v for k, v in jobs[i].items() if not k.startswith("_")} for i in bucket]})
        r = core.run_py(HARNESS, timeout=840, stdin=payload)
        if r.returncode == 124:
            # the time limit of the child, not an answer of the code under test (an overloaded machine): once more, with room
            r = core.run_py(HARNESS, timeout=3000, stdin=payload)
        try:
            res = json.loads(r.stdout)["results"]
        except Exception:
            res = [{"error": f"harness child failed rc={r.returncode}: {(r.stderr or r.stdout)[-400:]}",
                    "harness_failure": True}] * len(bucket)
        return bucket, res
    with ThreadPoolExecutor(max_workers=len(buckets)) as ex:
        for bucket, res in ex.map(run, buckets):
            for i, x in zip(bucket, res):
                results[i] = x
    return results


def run_sessions(root, template, cachefile, start, end, placeholder, init_cov=None, then_cov=None):
    r = core.run_py(HARNESS, ["session", root, template, cachefile or "-",
                              json.dumps(start) if start else "-", json.dumps(end) if end else "-",
                              json.dumps(placeholder), json.dumps({"init_cov": init_cov, "then_cov": then_cov})],
                    timeout=300)
    try:
        return json.loads(r.stdout.strip().splitlines()[-1])
    except Exception:
        return {"error": f"session failed rc={r.returncode}: {(r.stderr or r.stdout)[-400:]}"}


# ----------------------------------------------------------------------------- model evaluation

def eval_roundtrips(ctx, caches, name="rt"):
    """Model: what a restart makes of the document save_cache writes for each cache.
    Returns list of (warned, canonical cache, time strings, json) or None; `json` holds the same through the model of
    the json module: the bytes json_dump writes for the document, whether the cache is inside the subset of
    json_roundtrip, and what load_file json_load makes of those bytes."""
    exprs = [f"(fun c => (run_roundtrip c, (cache_subsetb c, run_json_roundtrip c))) {cache_term(c)}" for c in caches]
    pre = getattr(ctx, "pre", {}).get(name)
    if pre is not None and pre[0] == exprs:
        return pre[1]                      # evaluated beside the harness (see precompute)
    vals, log = core.coq_eval(ctx.work / "cases", name, PREAMBLE, exprs, shard=8)
    if log:
        ctx.log(log[-1500:])
    out = []
    for v in vals:
        if v is None:
            out.append(None)
        else:
            strings, (warned, shown), (subset, (mbytes, (jwarned, jshown))) = v
            out.append((bool(warned), canon_model(shown),
                        [["".join(map(chr, a)), "".join(map(chr, b))] for a, b in strings],
                        {"subset": bool(subset), "bytes": list(mbytes), "warned": bool(jwarned), "canon": canon_model(jshown)}))
    if hasattr(ctx, "pre"):
        ctx.pre[name] = (exprs, out)
    return out


def json_stats(ctx):
    return ctx.cov.setdefault("json_tie", {"documents_compared_byte_for_byte": 0, "bytes_compared": 0,
                                           "texts_given_to_json_load_and_model": 0, "accepted_by_both": 0,
                                           "prefixes_compared": 0, "float_texts_skipped": 0,
                                           "caches_outside_the_subset": 0})


def subset_ok(v):
    """The subset of json_roundtrip, decided here as well: no high surrogate directly followed by a low one."""
    if isinstance(v, str):
        return not any(0xD800 <= ord(a) <= 0xDBFF and 0xDC00 <= ord(b) <= 0xDFFF for a, b in zip(v, v[1:]))
    if isinstance(v, list):
        return all(subset_ok(x) for x in v)
    if isinstance(v, dict):
        return all(subset_ok(k) and subset_ok(x) for k, x in v.items())
    return not isinstance(v, float)


def check_doc_bytes(ctx, what, entries, predicted, doc, case):
    """The tie of json_dump: the bytes (or, for a text, the characters) of the cache file that save_cache wrote against
    json_dump (doc_of c) evaluated in Coq; and, inside the hypotheses of save_load_roundtrip_json, the model's own restart
    against the identity."""
    if predicted is None or doc is None:
        return False
    j = predicted[3]
    st = json_stats(ctx)
    st["documents_compared_byte_for_byte"] += 1
    written = list(doc) if isinstance(doc, (bytes, bytearray)) else [ord(ch) for ch in doc]
    st["bytes_compared"] += len(written)
    ok = True
    if written != j["bytes"]:
        i = next((k for k, (a, b) in enumerate(zip(written, j["bytes"])) if a != b), min(len(written), len(j["bytes"])))
        show = lambda xs: "".join(chr(x) if 32 <= x < 127 else f"<{x:02x}>" for x in xs[max(0, i - 25):i + 35])  # noqa: E731
        ctx.fail("correspondence", f"{what}: the bytes save_cache wrote differ from json_dump of the model (json.dump with default "
                 f"arguments) at offset {i} of {len(written)}/{len(j['bytes'])}: file ...{show(written)!r}, model ...{show(j['bytes'])!r}",
                 case=case, impl=show(written), model=show(j["bytes"]), signature="json-dump-bytes")
        ok = False
    inside = j["subset"] and cache_hyp(entries)
    if j["subset"] != all(subset_ok(e["path"]) and subset_ok(e["attr"]) for e in entries):
        ctx.fail("correspondence", "the harness and the model disagree on whether a cache is inside the subset of json_roundtrip",
                 case=case, signature="harness")
    if not j["subset"]:
        st["caches_outside_the_subset"] += 1
    if inside and (j["warned"] or j["canon"] != canon_entries(entries)):
        ctx.fail("proof", "load_file json_load (json_dump (doc_of c)) differs from the identity inside Coq (cannot happen while "
                 "save_load_roundtrip_json stands)", case=case, model=[j["warned"], j["canon"]], signature="model-vs-spec")
        ok = False
    if (j["warned"], j["canon"]) != (predicted[0], predicted[1]) and inside:
        ctx.fail("proof", "the restart through json_load / json_dump differs from the restart of the codec-free model",
                 case=case, signature="model-vs-spec")
        ok = False
    return ok


def eval_prefix_verdicts(ctx, texts, name):
    """prefix_verdicts of the model for these texts (memoised: most are evaluated beside the harness)."""
    memo = ctx.__dict__.setdefault("prefix_memo", {})
    todo = [t for t in dict.fromkeys(texts) if t not in memo]
    if todo:
        vals, log = core.coq_eval(ctx.work / "cases", name, PREAMBLE,
                                  [f"prefix_verdicts {zlist([ord(ch) for ch in t])}" for t in todo], shard=1)
        if log:
            ctx.log(log[-1500:])
        for t, v in zip(todo, vals):
            memo[t] = v
    return memo


def check_prefixes(ctx, docs, name="prefix"):
    """json.load's verdict on EVERY prefix of written cache documents against json_load's (theorem json_prefix_free says the
    model rejects all proper ones).  docs: list of (text, case)."""
    docs = [(t, c) for t, c in docs if t is not None]
    if not docs:
        return
    memo = eval_prefix_verdicts(ctx, [t for t, _ in docs], name)
    st = json_stats(ctx)
    for t, case in docs:
        v = memo.get(t)
        if v is None:
            ctx.fail("correspondence", "Coq evaluation of prefix_verdicts failed", case=case, signature="coq-eval")
            continue
        for k in range(len(t) + 1):
            try:
                json.loads(t[:k])
                acc = True
            except ValueError:
                acc = False
            st["prefixes_compared"] += 1
            if acc != bool(v[k]):
                ctx.fail("correspondence", f"json.load {'accepts' if acc else 'rejects'} the first {k} of {len(t)} characters of a "
                         f"written cache document, json_load of the model {'accepts' if v[k] else 'rejects'} them: {t[:k][-80:]!r}",
                         case={"kind": "load", "job": {"id": 0, "file": {"text": t[:k]}, "via": "init", "c0": None},
                               "damage": "truncate"}, signature="json-load-verdict")
                break
            if acc and k < len(t):
                ctx.fail("failing-input", f"a proper prefix ({k} of {len(t)} characters) of a cache document written by save_cache is "
                         f"a complete JSON document: a truncated cache file would be loaded: {t[:k][-80:]!r}",
                         case={"kind": "load", "job": {"id": 0, "file": {"text": t[:k]}, "via": "init", "c0": None},
                               "damage": "truncate"}, signature="prefix-accepted")
                break


def note_format(ctx, predicted, doc_text):
    """Statistic, not a verdict: are the time strings in the file the ones fmt_time of the model writes?
    (The property fixes the round trip, not the spelling; a differing spelling is only noted.)"""
    st = ctx.cov.setdefault("time_strings", {"documents_compared": 0, "spelled_as_model": 0})
    try:
        written = [e["times"] for e in json.loads(doc_text)]
    except Exception:
        return
    st["documents_compared"] += 1
    if predicted is not None and written == predicted[2]:
        st["spelled_as_model"] += 1
    elif len(ctx.notes) < 20:
        ctx.notes.append(f"time strings in the saved document differ from the model's fmt_time: {str(written)[:120]}")


def cache_hyp(entries):
    """Hypotheses of save_load_roundtrip: one entry per path, attributes a dictionary (times are valid by
    construction: the real datetime constructor accepted them in the saver)."""
    paths = [e["path"] for e in entries]
    return len(set(paths)) == len(paths) and all(isinstance(e["attr"], dict) and isinstance(e["path"], str)
                                                  for e in entries)


def describe_rt(entries, load):
    low = [e for e in entries if e["t0"][0] < 1000 or e["t1"][0] < 1000]
    if load.get("raised"):
        return "load-raised", f"FileSet(info_cache=...) raised {load['raised']}"
    if load.get("warned") and low:
        return "roundtrip-year-below-1000", (f"a cache holding a time with a year below 1000 (e.g. {low[0]['t0']} of "
                                             f"{low[0]['path']!r}) is not restored after save_cache + restart: "
                                             f"{(load.get('msg') or ['warning'])[0][-140:]!r}, cache empty")
    return "roundtrip", "save_cache + restart does not restore the cache"


def check_load_of(ctx, what, entries, predicted, load, case, nontrivial_key=None):
    """Compare an observed load with the model's prediction for a complete document of `entries`."""
    if predicted is None:
        ctx.fail("correspondence", "Coq evaluation of the model failed", case=case, signature="coq-eval")
        return False
    warned, canon = predicted[0], predicted[1]
    hyp = cache_hyp(entries)
    if hyp and (warned or canon != canon_entries(entries)):
        ctx.fail("proof", "model round trip differs from the identity inside Coq (cannot happen while the theorems stand)",
                 case=case, model=[warned, canon], signature="model-vs-spec")
    obs = canon_observed(load)
    if load.get("raised") or obs != canon or bool(load.get("warned")) != warned:
        sig, text = describe_rt(entries, load)
        ctx.fail("failing-input" if hyp else "correspondence", f"{what}: {text}", case=case,
                 impl={"warned": load.get("warned"), "raised": load.get("raised"), "cache": load.get("cache")},
                 model={"warned": warned, "cache": canon}, signature=sig)
        return False
    return True


# ----------------------------------------------------------------------------- crash sweeps

def canonical_shape(events):
    if len(events) < 4:
        return False
    names = [e[0] for e in events]
    return (names[0].startswith("open:w") and events[0][1].endswith(".backup") and names[-1] == "rename"
            and names[-2] == "close" and all(n == "write" for n in names[1:-2])
            and all(e[1].endswith(".backup") for e in events[:-1]) and not events[-1][1].endswith(".backup"))


def make_sweep(rng, k, n, variant):
    new = gen_cache(rng, n, tag="/new")
    job = {"kind": "sweep", "id": k, "entries": new, "old_entries": None, "stale_backup": None,
           "_cost": 40 * n + 10, "variant": variant}
    if variant in ("old", "old+stale"):
        job["old_entries"] = gen_cache(rng, rng.choice([0, 1, 2, 5]), tag="/old")
    if variant in ("stale", "old+stale"):
        job["stale_backup"] = rng.choice(["[{\"path\": \"/stale\", \"times\": [\"2001-01-01T00:00:00.000000\", ",
                                          "[]", "x" * 5000, ""])
    return job


def sweep_caches(jobs):
    caches = []
    for j in jobs:
        caches.append(j["entries"])
        caches.append(j["old_entries"] or [])
    return caches


def history_caches(jobs):
    caches = []
    for j in jobs:
        caches.append(j["init_entries"] or [])
        for st in j["steps"]:
            caches.append([dict(e, poison=False) for e in st["entries"]])
    return caches


def precompute(ctx, sweeps, histories, loads, codec):
    """Everything the model says that does not depend on an observation, evaluated in Coq while the harness children run
    (the checks pick the results up by name and recompute whatever is missing)."""
    ctx.pre = {}
    ps = eval_roundtrips(ctx, sweep_caches(sweeps), "rtsweep")
    eval_roundtrips(ctx, history_caches(histories), "rthist")
    pc = eval_roundtrips(ctx, [j["entries"] for j in codec], "rtcodec")
    eval_load_exprs(ctx, load_exprs(loads)[0])
    texts = []
    for k, j in enumerate(sweeps):
        if len(j["entries"]) <= ctx.n(6, 20) and ps[2 * k] is not None:
            texts.append("".join(map(chr, ps[2 * k][3]["bytes"])))
    for p in pc:
        if p is not None and len(p[3]["bytes"]) <= ctx.n(1500, 6000):
            texts.append("".join(map(chr, p[3]["bytes"])))
    eval_prefix_verdicts(ctx, texts, "prefix")
    ctx.log("model evaluated beside the harness")


def check_sweeps(ctx, jobs, results):
    preds = eval_roundtrips(ctx, sweep_caches(jobs), "rtsweep")
    exprs = []
    for j, r in zip(jobs, results):
        if "error" in r:
            exprs.append("run_crash_sweep false 0 0 None")
            continue
        n = len(r["events"])
        stale = "None" if j["stale_backup"] is None else "(Some 3)"
        exprs.append(f"run_crash_sweep {coq_bool(j['old_entries'] is not None)} 7 {zlit(max(n - 3, 0))} {stale}")
    vals, log = core.coq_eval(ctx.work / "cases", "sweep", PREAMBLE, exprs, shard=6)
    if log:
        ctx.log(log[-1500:])
    points = 0
    nontrivial = set()
    prefix_docs = []
    for idx, (j, r) in enumerate(zip(jobs, results)):
        case = {"kind": "sweep", "job": {k: v for k, v in j.items() if not k.startswith("_")}}
        if "error" in r:
            ctx.fail("correspondence" if r.get("harness_failure") else "failing-input",
                     (f"the harness child gave no result ({r['error']})" if r.get("harness_failure") else
                      f"save_cache of a valid cache failed outright: {r['error']}"), case=case,
                     signature="save-failed")
            continue
        events, pts = r["events"], r["points"]
        n = len(events)
        shape = canonical_shape(events)
        model = vals[idx]
        if model is None:
            ctx.fail("correspondence", "Coq evaluation of the crash model failed", case=case, signature="coq-eval")
            continue
        if not shape:
            ctx.notes.append(f"sweep {j['id']}: primitives {[e[0] for e in events][:3]}..{[e[0] for e in events][-3:]} "
                             "are not open/write*/close/rename; only the property itself is checked there")
        pred_new, pred_old = preds[2 * idx], preds[2 * idx + 1]
        note_format(ctx, pred_new, r.get("new_doc") or "")
        check_doc_bytes(ctx, "crash sweep, the new document", j["entries"], pred_new, r.get("new_doc"), case)
        if j["old_entries"] is not None:
            check_doc_bytes(ctx, "crash sweep, the previous document", j["old_entries"], pred_old, r.get("old_doc"), case)
        if len(j["entries"]) <= ctx.n(6, 20):
            prefix_docs.append((r.get("new_doc"), case))
        has_old = j["old_entries"] is not None
        want_old = "old" if has_old else "missing"
        ok_all = True
        for p in pts:
            points += 1
            ctx.cov["evaluations"] += 1
            k, cls, load = p["k"], p["main"], p["load"]
            sub = dict(case, crash_after=k, of=n)
            # the property itself (theorem crash_safe): the previous file or the complete new one
            if cls not in (want_old, "new"):
                ctx.fail("failing-input",
                         f"save_cache interrupted after {k} of {n} primitives ({events[k-1][0] if k else 'start'}) leaves the "
                         f"cache file {cls!r} (neither the previous file nor the complete new document): "
                         f"{(p.get('main_text') or '')[:120]!r}", case=sub, impl=p, signature="crash-main-corrupt")
                ok_all = False
                continue
            if k == n and cls != "new":
                ctx.fail("failing-input", "save_cache ran to its end but the cache file is not the new document",
                         case=sub, impl=p, signature="save-did-not-save")
                ok_all = False
                continue
            if shape and k < len(model):
                want = {-1: "missing", 0: "old", 1: "new", 2: "other"}[model[k]]
                if want != cls:
                    ctx.fail("correspondence", f"after {k} of {n} primitives the model has the {want} file, the code the {cls} one",
                             case=sub, impl=p, model=want, signature="crash-sequence-differs")
                    ok_all = False
            # what the next interpreter sees
            if cls == "missing":
                if load.get("raised") or load.get("cache"):       # a warning is neither required nor forbidden here
                    ctx.fail("failing-input", f"a missing cache file does not give an empty cache: {load}", case=sub,
                             impl=load, signature="missing-file")
                    ok_all = False
            else:
                ent = j["entries"] if cls == "new" else j["old_entries"]
                ok_all &= check_load_of(ctx, f"restart after a save interrupted at primitive {k}/{n} ({cls} file)", ent,
                                        pred_new if cls == "new" else pred_old, load, sub)
        if n > 4 and (has_old or j["stale_backup"] is not None or len(j["entries"]) > 0):
            nontrivial.add(json.dumps(case, sort_keys=True))
        ctx.sample({"sweep": {"entries": len(j["entries"]), "variant": j["variant"], "primitives": n,
                              "classes": "".join({"missing": "-", "old": "o", "new": "N", "other": "X"}[p["main"]] for p in pts)[-12:]}},
                   limit=3)
    check_prefixes(ctx, [(t, c) for t, c in prefix_docs if t is not None and t.isascii()], "sweepprefix")
    return points, len(nontrivial)


# ----------------------------------------------------------------------------- histories

def make_history(rng, k):
    steps = []
    for i in range(rng.randint(2, 7)):
        st = {"entries": gen_cache(rng, rng.choice([0, 1, 2, 3, 5]), tag=f"/s{i}")}
        style = rng.random()
        if style < 0.35:
            st["crash"] = None
        elif style < 0.55:
            st["crash"] = rng.choice([0, 1, 2, 3])
        elif style < 0.8:
            st["crash"] = {"fromend": rng.choice([0, 1, 1, 2, 3])}
        elif style < 0.9 and st["entries"]:
            st["crash"] = None
            st["entries"][rng.randrange(len(st["entries"]))]["poison"] = True
        else:
            st["crash"] = rng.randint(4, 40)
        steps.append(st)
    init = gen_cache(rng, rng.choice([0, 1, 3]), tag="/init") if rng.random() < 0.6 else None
    return {"kind": "history", "id": k, "init_entries": init, "steps": steps, "_cost": 12 * len(steps)}


def check_histories(ctx, jobs, results):
    preds = eval_roundtrips(ctx, history_caches(jobs), "rthist")
    exprs = []
    for j, r in zip(jobs, results):
        if "error" in r:
            exprs.append("run_history_classes false 0 []")
            continue
        evs = []
        for st, o in zip(j["steps"], r["steps"]):
            n = o["n_events"]
            # an attribute json cannot serialise makes json.dump raise after the backup was opened: as far as the
            # files go that is a save that died early (if the code under test did not raise, the save completed)
            poisoned = any(e.get("poison") for e in st["entries"]) and o.get("raised")
            k = 1 if poisoned else (-1 if o["k"] is None else o["k"])
            evs.append(f"({zlit(max(n - 3, 0))}, {zlit(k)})")
        exprs.append(f"run_history_classes {coq_bool(j['init_entries'] is not None)} 7 {coq_list(evs)}")
    vals, log = core.coq_eval(ctx.work / "cases", "hist", PREAMBLE, exprs, shard=40)
    if log:
        ctx.log(log[-1500:])
    nontrivial = set()
    pi = 0
    for idx, (j, r) in enumerate(zip(jobs, results)):
        case = {"kind": "history", "job": {k: v for k, v in j.items() if not k.startswith("_")}}
        base = pi
        pi += 1 + len(j["steps"])
        ctx.cov["evaluations"] += 1
        if "error" in r:
            ctx.fail("correspondence" if r.get("harness_failure") else "failing-input",
                     (f"the harness child gave no result ({r['error']})" if r.get("harness_failure") else
                      f"save_cache of a valid cache failed outright: {r['error']}"), case=case,
                     signature="save-failed")
            continue
        model = vals[idx]
        if model is None:
            ctx.fail("correspondence", "Coq evaluation of the history model failed", case=case, signature="coq-eval")
            continue
        if j["init_entries"] is not None:
            check_doc_bytes(ctx, "history, the initial document", j["init_entries"], preds[base], r.get("init_doc"), case)
        for i, (st, d) in enumerate(zip(j["steps"], r.get("ref_docs") or [])):
            check_doc_bytes(ctx, f"history, the document of step {i}", [dict(e, poison=False) for e in st["entries"]],
                            preds[base + 1 + i], d, dict(case, step=i))
        kinds = set()
        for i, (st, o, m) in enumerate(zip(j["steps"], r["steps"], model)):
            sub = dict(case, step=i)
            if o["missing"]:
                got, ent, pred = {-1}, None, None
            elif o["equals_step"]:
                got = set(o["equals_step"])
                ent = [dict(e, poison=False) for e in j["steps"][o["equals_step"][0]]["entries"]]
                pred = preds[base + 1 + o["equals_step"][0]]
            else:
                got = set()
            if o["is_init"]:
                got.add(-2)
                ent, pred = j["init_entries"], preds[base]
            if not got:
                ctx.fail("failing-input", f"after step {i} of a history of saves (crash point {o['k']}, raised {o['raised']}) the "
                         f"cache file is none of the documents saved so far: {(o.get('main_text') or '')[:120]!r}",
                         case=sub, impl=o, signature="crash-main-corrupt")
                continue
            if m not in got:
                # the spec (history_safe): the document of the last save that ran to its end
                ctx.fail("failing-input", f"after step {i} the cache file holds the document of step(s) {sorted(got)} "
                         f"(-2 = initial, -1 = missing) but the last completed save is {m}", case=sub, impl=o, model=m,
                         signature="history-wrong-document")
                continue
            kinds.add("crash" if o["status"] == 77 else "raise" if o["raised"] else "done")
            load = o["load"]
            if ent is None:
                if load.get("raised") or load.get("cache"):       # a warning is neither required nor forbidden here
                    ctx.fail("failing-input", f"a missing cache file does not give an empty cache: {load}", case=sub,
                             impl=load, signature="missing-file")
            else:
                check_load_of(ctx, f"restart after step {i} of a history", ent, pred, load, sub)
        if len(kinds) >= 2:
            nontrivial.add(json.dumps(case, sort_keys=True))
        if idx % 9 == 0:
            ctx.sample({"history": [(len(st["entries"]), o["k"], o["raised"] and "raises") for st, o in zip(j["steps"], r["steps"])],
                        "main_after_each_step": model}, limit=5)
    return len(nontrivial)


# ----------------------------------------------------------------------------- corruption stream

def make_load_jobs(rng, n_struct, trunc_docs, n_bytes):
    jobs = []
    for k in range(n_struct):
        c = gen_corrupt(rng, k)
        via = rng.choice(["init", "init", "load_cache"])
        c0 = None
        if via == "load_cache":
            c0 = gen_cache(rng, rng.choice([1, 2, 3]), modern=True, tag="/c0")
            v = c["value"]
            if isinstance(v, list) and v and isinstance(v[0], dict) and isinstance(v[0].get("path"), str) and rng.random() < 0.5:
                c0[0]["path"] = v[0]["path"]                  # an existing key that a good document overrides
        jobs.append({"kind": "load", "id": k, "file": {"text": json.dumps(c["value"])}, "via": via, "c0": c0,
                     "_meta": c, "_value": c["value"], "_parsed": True})
    k = n_struct
    for d in range(trunc_docs):
        entries = gen_cache(rng, rng.choice([0, 1, 2, 3]), modern=rng.random() < 0.5)
        text = json.dumps(doc_value(entries))
        for cut in range(len(text) + 1):
            jobs.append(text_job(k, text[:cut], {"kind": "truncate", "at": cut, "of": len(text), "lenient": False}))
            k += 1
    specials = [(None, "missing"), ({"dir": True}, "directory"), ({"hex": "fffe0041"}, "not-utf8"), ({"text": ""}, "empty"),
                ({"hex": "00" * 16}, "nul-bytes"), ({"text": "\n"}, "newline"), ({"text": "[] []"}, "two-docs"),
                ({"text": "[]\n"}, "list-newline"), ({"text": "NaN"}, "nan")]
    for spec, name in specials:
        jobs.append({"kind": "load", "id": k, "file": spec, "via": "init", "c0": None,
                     "_meta": {"kind": name, "lenient": False}, "_parsed": False})
        if spec and "text" in spec:
            jobs[-1] = text_job(k, spec["text"], {"kind": name, "lenient": False})
        k += 1
    for _ in range(n_bytes):
        entries = gen_cache(rng, rng.choice([1, 2]), modern=True)
        text = json.dumps(doc_value(entries))
        i = rng.randrange(len(text))
        style = rng.random()
        if style < 0.4:
            text2 = text[:i] + rng.choice("0123456789:-T.,[]{}\" xn") + text[i + 1:]
        elif style < 0.7:
            text2 = text[:i] + text[i + 1:]
        else:
            j = rng.randrange(len(text))
            text2 = text[:min(i, j)] + text[max(i, j):]
        jobs.append(text_job(k, text2, {"kind": "byte-damage", "lenient": False}))
        k += 1
    return jobs


def safe_value(v):
    """Is the value inside the model's JSON (no floats, no huge numbers)?"""
    if isinstance(v, float):
        return False
    if isinstance(v, list):
        return all(safe_value(x) for x in v)
    if isinstance(v, dict):
        return all(safe_value(x) for x in v.values())
    return True


def text_job(k, text, meta):
    job = {"kind": "load", "id": k, "file": {"text": text}, "via": "init", "c0": None, "_meta": meta}
    try:
        job["_value"] = json.loads(text)
        job["_parsed"] = True
    except Exception:
        job["_parsed"] = False
    return job


def job_text(j):
    """The text json.load is given when load_cache opens this file (None: missing, a directory, not UTF-8).
    open() in text mode hands "\r\n" and "\r" on as "\n"."""
    f = j.get("file")
    if not f or f.get("dir"):
        return None
    if "text" in f:
        t = f["text"]
    elif "hex" in f:
        try:
            t = bytes.fromhex(f["hex"]).decode("utf-8")
        except UnicodeDecodeError:
            return None
    else:
        return None
    return t.replace("\r\n", "\n").replace("\r", "\n")


def same_json(a, b):
    """Equality of JSON values that tells true from 1 and keeps the order of dictionaries."""
    try:
        return json.dumps(a) == json.dumps(b)
    except Exception:
        return False


def eval_load_exprs(ctx, exprs):
    pre = getattr(ctx, "pre", {}).get("load")
    if pre is not None and pre[0] == exprs:
        return pre[1]
    vals, log = core.coq_eval(ctx.work / "cases", "load", PREAMBLE, exprs, shard=80)
    if log:
        ctx.log(log[-1500:])
    if hasattr(ctx, "pre"):
        ctx.pre["load"] = (exprs, vals)
    return vals


def load_exprs(jobs):
    """The Coq terms for the files of these jobs: json_load's verdict / value and the whole load_file."""
    exprs, where = [], []
    texts = {}
    for i, j in enumerate(jobs):
        t = job_text(j)
        if t is None:
            continue
        try:
            pv = json.loads(t)
            acc = True
        except ValueError:
            pv, acc = None, False
        except RecursionError:
            continue
        texts[i] = (t, acc, pv)
        if acc and not safe_value(pv):
            continue
        exprs.append(f"(fun t => (match json_load t with Some v => [v] | None => [] end, "
                     f"show_load (load_file json_load {cache_term(j['c0'] or [])} (Content t)))) {zlist([ord(ch) for ch in t])}")
        where.append(i)
    return exprs, where, texts


def check_loads(ctx, jobs, results):
    """Every damaged (or intact) file: json.load's verdict and value against json_load's, and what load_cache makes of the
    file against load_file json_load evaluated in Coq."""
    exprs, where, texts = load_exprs(jobs)
    vals = eval_load_exprs(ctx, exprs)
    model = {i: v for i, v in zip(where, vals)}
    nontrivial = set()
    kinds = {}
    st = json_stats(ctx)
    for i, (j, r) in enumerate(zip(jobs, results)):
        meta = j["_meta"]
        case = {"kind": "load", "job": {k: v for k, v in j.items() if not k.startswith("_")}, "damage": meta.get("kind")}
        ctx.cov["evaluations"] += 1
        kinds[meta["kind"]] = kinds.get(meta["kind"], 0) + 1
        c0 = canon_entries(j["c0"] or [])
        if i in texts:
            t, acc, pv = texts[i]
            if acc and not safe_value(pv):
                st["float_texts_skipped"] += 1        # outside the modelled subset of JSON
                continue
            if model.get(i) is None:
                ctx.fail("correspondence", "Coq evaluation of json_load / load_file failed", case=case, signature="coq-eval")
                continue
            parsed, (warned, shown) = model[i]
            st["texts_given_to_json_load_and_model"] += 1
            # the tie of json_load: verdict and value
            if bool(parsed) != acc:
                ctx.fail("correspondence", f"json.load {'accepts' if acc else 'rejects'} a text that json_load of the model "
                         f"{'accepts' if parsed else 'rejects'} ({meta['kind']}): {t[:200]!r}", case=case,
                         impl=repr(pv)[:200] if acc else "rejected", model=repr(parsed)[:200], signature="json-load-verdict")
                continue
            if acc:
                st["accepted_by_both"] += 1
                if not same_json(unj(parsed[0]), pv):
                    ctx.fail("correspondence", f"json.load and json_load of the model read different values from {t[:200]!r}",
                             case=case, impl=repr(pv)[:300], model=repr(unj(parsed[0]))[:300], signature="json-load-value")
                    continue
            want = (bool(warned), canon_model(shown))
        elif j["file"] is None:
            want = (False, c0)                 # theorem damaged_file: missing -> silent, untouched
        else:
            want = (True, c0)                  # unreadable (a directory, not UTF-8): open / decoding raises -> warning, untouched
        if "error" in r:
            ctx.fail("correspondence", f"harness error: {r['error']}", case=case, signature="harness")
            continue
        obs = canon_observed(r)
        good = (not r.get("raised")) and obs == want[1] and (bool(r.get("warned")) == want[0] or j["file"] is None)
        if want[0]:
            nontrivial.add(json.dumps(case, sort_keys=True))
        if good:
            continue
        if meta.get("lenient"):
            ctx.notes.append(f"lenient form {meta['kind']}: code and model differ (not fixed by the property): "
                             f"{json.dumps(j['file'])[:160]}")
            continue
        if r.get("raised"):
            ctx.fail("failing-input", f"loading a damaged cache file ({meta['kind']}) raises {r['raised']} instead of warning",
                     case=case, impl=r, model=want, signature="load-raised")
        elif want[0]:
            # the model (= the specification, theorems malformed_warns / truncated_file_json) says: malformed -> warning,
            # cache untouched
            what = "is accepted without a warning" if not r.get("warned") else "warns but changes the cache"
            extra = ""
            if meta["kind"] == "null-time" or (obs and any("BAD" in x for x in obs)):
                extra = " -- a null time ends up in the cache as the list [None]"
            ctx.fail("failing-input", f"a malformed cache document ({meta['kind']}) {what}{extra}: file "
                     f"{json.dumps(j['file'])[:200]}, cache afterwards {str(r.get('cache'))[:200]}", case=case, impl=r,
                     model={"warned": True, "cache": want[1]},
                     signature="malformed-accepted:" + meta["kind"].split(":")[0] if not r.get("warned") else "malformed-partial-update")
        else:
            ctx.fail("failing-input", f"a well-formed cache document ({meta['kind']}) is not loaded as written: "
                     f"{json.dumps(j['file'])[:200]} -> warned={r.get('warned')} {(r.get('msg') or [''])[0][-100:]!r}",
                     case=case, impl=r, model={"warned": False, "cache": want[1]}, signature="wellformed-rejected")
    return len(nontrivial), kinds


# ----------------------------------------------------------------------------- the json module: nasty strings

NASTY = ['"', '\\', '/', '\n', '\r', '\t', '\b', '\f', '\x00', '\x01', '\x1f', ' ', '~', '\x7f', '\x80', '\xa0', '\xe9', '\xfc',
         '\u20ac', '\u2028', '\ud7ff', '\ue000', '\uffff', '\U00010000', '\U0001F600', '\U0010ffff', '\udc80', '\udcff', '\ud800',
         '\udbff', 'a', 'u', '0', '\\u0041', '\\"', "'", '{', '}', '[', ']', ',', ':', '\\n']


def in_subset_str(t):
    """Keep a generated string inside the subset of json_roundtrip: a low surrogate never directly after a high one (such a
    pair of code points is written as two escapes and read back by json.load as ONE character)."""
    out = []
    for ch in t:
        if out and 0xD800 <= ord(out[-1][-1]) <= 0xDBFF and 0xDC00 <= ord(ch[0]) <= 0xDFFF:
            out.append("-")
        out.append(ch)
    return "".join(out)


def gen_nasty(rng, lo=0, hi=8):
    return in_subset_str([rng.choice(NASTY) for _ in range(rng.randint(lo, hi))])


def gen_nasty_value(rng, depth=0):
    k = rng.random()
    if depth > 3 or k < 0.5:
        return rng.choice([None, True, False, 0, -1, 7, 10, 100, -120, 2 ** 63, -2 ** 64, 10 ** 30, rng.randint(-10 ** 9, 10 ** 9),
                           gen_nasty(rng), gen_nasty(rng), gen_nasty(rng, 8, 20)])
    if k < 0.75:
        return [gen_nasty_value(rng, depth + 1) for _ in range(rng.choice([0, 1, 2, 3]))]
    return {gen_nasty(rng, 0, 4): gen_nasty_value(rng, depth + 1) for _ in range(rng.choice([0, 1, 2, 3]))}


PARSER_TOKENS = ['[', ']', '{', '}', ',', ':', '"', '\\', ' ', '\n', '\t', '\r', '0', '1', '9', '-', '.', 'e', 'E', '+', 'n', 'u', 'l', 't', 'r',
                 'f', 'a', 's', 'null', 'true', 'false', '""', '"a"', '\\u', '\\ud83d', '\\ude00', '\\u00e9', '\\uD83D\\uDE00', '\\n', '\\/',
                 '\\x', 'NaN', 'Infinity', '-Infinity', '\x0c', '\x00', '\x7f', '\xe9', '\U0001F600', '\ufeff', '1.5', '1e5', '-0', '00',
                 '[]', '{}', '"k": ', ', ', '\\u00E9', '\\uDC00']


def directed_parser_texts():
    """One-entry cache documents in which a single place is written in a way json.load must accept or must reject --
    whatever the seed.  (kind, text)"""
    def doc(value='"v"', path='"/data/x.nc"', ws=" ", pre="", post="", key='"a"'):
        return (f'{pre}[{{"path":{ws}{path},{ws}"times":{ws}["2018-01-01T00:00:00.000000",{ws}"2018-01-02T00:00:00.000000"],'
                f'{ws}"attr":{ws}{{{key}:{ws}{value}}}}}]{post}')
    out = [("plain", doc())]
    # raw characters inside a string: below U+0020 never, everything else as it is
    for name, ch in [("tab", "\t"), ("newline", "\n"), ("cr", "\r"), ("nul", "\x00"), ("us", "\x1f"), ("ff", "\x0c"), ("bs", "\x08")]:
        out.append((f"raw-control-{name}-in-path", doc(path=f'"/data/{ch}x.nc"')))
        out.append((f"raw-control-{name}-in-attr", doc(value=f'"a{ch}b"')))
        out.append((f"raw-control-{name}-in-key", doc(key=f'"k{ch}"')))
    for name, ch in [("del", "\x7f"), ("nbsp", "\xa0"), ("ls", "\u2028"), ("euro", "\u20ac"), ("astral", "\U0001F600"), ("ffff", "\uffff")]:
        out.append((f"raw-{name}-in-path", doc(path=f'"/data/{ch}x.nc"')))
    # escapes
    for name, esc in [("solidus", "\\/"), ("upper-hex", "\\u00E9"), ("pair-upper", "\\uD83D\\uDE00"), ("pair-mixed", "\\ud83D\\uDe00"),
                      ("lone-high", "\\ud83dx"), ("lone-high-end", "\\ud83d"), ("lone-low", "\\ude00"), ("high-high-low", "\\ud83d\\ud83d\\ude00"),
                      ("high-then-bmp", "\\ud83d\\u0041"), ("nul-escape", "\\u0000"), ("all-short", "\\\"\\\\\\/\\b\\f\\n\\r\\t"),
                      ("bad-x", "\\x41"), ("bad-upper-u", "\\U0041"), ("bad-hex", "\\u12G4"), ("short-hex", "\\u123"), ("bad-a", "\\a"),
                      ("bad-quote", "\\'"), ("bad-0", "\\0"), ("pair-bad-second", "\\ud83d\\uZZZZ"), ("backslash-end", "abc\\")]:
        out.append((f"escape-{name}", doc(value=f'"{esc}"')))
        out.append((f"escape-{name}-in-path", doc(path=f'"/p/{esc}"')))
    # numbers and literals
    for name, v in [("zero", "0"), ("minus-zero", "-0"), ("big", "123456789012345678901234567890"), ("neg", "-17"), ("leading-zero", "01"),
                    ("minus-leading-zero", "-01"), ("plus", "+1"), ("minus-only", "-"), ("dot-end", "1."), ("dot-start", ".5"),
                    ("exp-no-digits", "1e"), ("exp-sign-only", "1e+"), ("hex", "0x10"), ("two-minus", "--1"), ("digits-space", "1 2"),
                    ("True", "True"), ("None", "None"), ("nul", "nul"), ("nulll", "nulll"), ("TRUE", "TRUE"), ("empty", ""),
                    ("single-quotes", "'v'"), ("bare-word", "v"), ("true", "true"), ("false", "false"), ("null", "null"),
                    ("nested", "[[[[{\"a\": [null, {}]}]]]]"), ("trailing-comma-list", "[1,]"), ("leading-comma", "[,1]"),
                    ("two-commas", "[1,,2]"), ("trailing-comma-object", "{\"a\": 1,}"), ("missing-colon", "{\"a\" 1}"),
                    ("unquoted-key", "{a: 1}"), ("number-key", "{1: 1}"), ("dup-key", "{\"a\": 1, \"b\": 2, \"a\": 3}"),
                    ("empty-key", "{\"\": 1}"), ("missing-value", "{\"a\":}"), ("comment", "1 /* c */"), ("unclosed-list", "[1"),
                    ("unclosed-object", "{\"a\": 1"), ("mismatched", "[1}"), ("deep", "[" * 200 + "]" * 200)]:
        out.append((f"value-{name}", doc(value=v)))
    # whitespace: space, tab, newline, carriage return and nothing else
    for name, w in [("tab", "\t"), ("newline", "\n"), ("crlf", "\r\n"), ("many", " \t\n\r "), ("none", ""), ("formfeed", "\x0c"),
                    ("vtab", "\x0b"), ("nbsp", "\xa0"), ("nul", "\x00"), ("ideographic", "\u3000"), ("bom", "\ufeff")]:
        out.append((f"whitespace-{name}", doc(ws=w)))
        out.append((f"leading-{name}", doc(pre=w)))
        out.append((f"trailing-{name}", doc(post=w)))
    for name, x in [("garbage", "x"), ("second-doc", " []"), ("comma", ","), ("bracket", "]"), ("quote", '"'), ("nul", "\x00")]:
        out.append((f"trailing-{name}", doc(post=x)))
    return out


def make_parser_jobs(rng, n, first_id):
    """Texts for json.load itself, through the real load_cache: cache documents written the way OTHER programs (or other
    arguments of json.dump) write JSON -- raw non-ASCII, other whitespace, indentation, escapes json.dump never produces --
    and small damage to them.  A mutated text that still parses may be one of the lenient forms the property does not
    fix; there only the json tie (verdict and value of json.load against json_load) is binding."""
    import locale
    utf8 = locale.getpreferredencoding(False).lower().replace("-", "") == "utf8"
    jobs = []
    for k in range(n):
        entries = gen_cache(rng, rng.choice([0, 1, 2, 3]), modern=True)
        for e in entries:
            if rng.random() < 0.6:
                e["path"] = e["path"] + gen_nasty(rng, 1, 6)
            if rng.random() < 0.4:
                e["attr"] = {gen_nasty(rng, 0, 3): gen_nasty_value(rng, 2)}
        doc = doc_value(entries)
        style = rng.random()
        raw = utf8 and rng.random() < 0.6
        kw = {"ensure_ascii": not raw}
        if style < 0.3:
            kw["indent"] = rng.choice([0, 1, 2, "\t"])
        elif style < 0.6:
            kw["separators"] = rng.choice([(",", ":"), (" , ", " : "), (",\n", ":\t"), (",\r\n", ": ")])
        text = json.dumps(doc, **kw)
        if rng.random() < 0.3:
            text = rng.choice(["", " ", "\n", "\t \r\n"]) + text + rng.choice(["", " ", "\n", "\r\n\t "])
        mutated = rng.random() < 0.5
        if mutated:
            t = list(text)
            for _ in range(rng.choice([1, 1, 2])):
                i = rng.randrange(len(t) + 1)
                op = rng.random()
                if op < 0.35 and t:
                    del t[min(i, len(t) - 1)]
                elif op < 0.85:
                    t[i:i] = list(rng.choice(PARSER_TOKENS))
                elif t:
                    j2 = rng.randrange(len(t) + 1)
                    del t[min(i, j2):max(i, j2)]
            text = "".join(t)
        try:
            text.encode("utf-8")
            if not utf8:
                text.encode("ascii")
        except UnicodeEncodeError:
            text = json.dumps(doc)
            mutated = False
        try:
            json.loads(text)
            parses = True
        except (ValueError, RecursionError):
            parses = False
        job = text_job(first_id + k, text, {"kind": "other-json-writer" + ("-damaged" if mutated else ""),
                                            "lenient": bool(mutated and parses)})
        job["_cost"] = 1
        jobs.append(job)
    for kind, text in directed_parser_texts():
        try:
            text.encode("utf-8" if utf8 else "ascii")
        except UnicodeEncodeError:
            continue
        # a byte order mark in front is the business of open()'s decoding, which is outside the model: noted only
        job = text_job(first_id + len(jobs), text, {"kind": "json-text:" + kind, "lenient": kind == "leading-bom"})
        job["_cost"] = 1
        jobs.append(job)
    return jobs


def make_codec_jobs(rng, n):
    every = in_subset_str(NASTY)
    deep = {}
    for _ in range(30):
        deep = {"d": [deep]}
    directed = [
        [],
        [{"path": "/all/" + every, "t0": list(TMIN), "t1": list(TMAX), "attr": {every: every, "": [every, {}, []]}}],
        [{"path": "/big", "t0": [2016, 2, 29, 23, 59, 59, 1], "t1": [2016, 3, 1, 0, 0, 0, 0],
          "attr": {"n": [0, -1, 9, 10, 99, 100, 2 ** 63, -2 ** 63, 2 ** 64, 10 ** 30, -10 ** 30], "deep": deep}}],
        # outside the subset: the two code points come back as one character; compared with the model only
        [{"path": "/pair/\ud83d\ude00", "t0": [2018, 1, 1, 0, 0, 0, 0], "t1": [2018, 1, 1, 0, 0, 0, 0], "attr": {}}],
    ]
    jobs = []
    for k in range(n):
        if k < len(directed):
            entries = directed[k]
        else:
            entries = []
            for i in range(rng.choice([1, 1, 2, 3, 5])):
                t0 = gen_time(rng)
                t1 = gen_time(rng) if rng.random() < 0.7 else list(t0)
                if tuple(t1) < tuple(t0):
                    t0, t1 = t1, t0
                attr = {gen_nasty(rng, 0, 4): gen_nasty_value(rng) for _ in range(rng.choice([0, 1, 2, 4]))}
                entries.append({"path": f"/c{i}/" + gen_nasty(rng, 0, 12), "t0": t0, "t1": t1, "attr": attr})
        jobs.append({"kind": "codec", "id": k, "entries": entries, "_cost": 3})
    return jobs


def check_codec(ctx, jobs, results):
    preds = eval_roundtrips(ctx, [j["entries"] for j in jobs], "rtcodec")
    nontrivial = set()
    prefix_docs = []
    for j, r, pred in zip(jobs, results, preds):
        case = {"kind": "codec", "job": {k: v for k, v in j.items() if not k.startswith("_")}}
        ctx.cov["evaluations"] += 1
        if "error" in r:
            ctx.fail("correspondence" if r.get("harness_failure") else "failing-input",
                     (f"the harness child gave no result ({r['error']})" if r.get("harness_failure") else
                      f"save_cache of a valid cache failed outright: {r['error']}"), case=case,
                     signature="save-failed")
            continue
        if pred is None:
            ctx.fail("correspondence", "Coq evaluation of the model failed", case=case, signature="coq-eval")
            continue
        doc = bytes.fromhex(r["doc_hex"])
        ok = check_doc_bytes(ctx, "save_cache of a cache with unusual characters", j["entries"], pred, doc, case)
        jm = pred[3]
        load = r["load"]
        obs = canon_observed(load)
        if load.get("raised") or obs != jm["canon"] or bool(load.get("warned")) != jm["warned"]:
            inside = jm["subset"] and cache_hyp(j["entries"])
            ctx.fail("failing-input" if inside else "correspondence",
                     "save_cache + restart of a cache with unusual characters in paths / attributes does not give what "
                     "load_file json_load (json_dump (doc_of c)) gives" + (" (= the cache itself)" if inside else ""),
                     case=case, impl={"warned": load.get("warned"), "raised": load.get("raised"), "cache": load.get("cache")},
                     model={"warned": jm["warned"], "cache": jm["canon"]}, signature="roundtrip-characters")
            ok = False
        if ok and j["entries"]:
            nontrivial.add(json.dumps(case, sort_keys=True))
        if all(b < 128 for b in doc) and len(doc) <= ctx.n(1500, 6000):
            prefix_docs.append((doc.decode("ascii"), case))
    check_prefixes(ctx, prefix_docs, "codecprefix")
    return len(nontrivial)


# ----------------------------------------------------------------------------- real sessions (restart, atexit)

def make_e2e(rng, k):
    kind = ["static", "temporal", "start-only", "static", "temporal"][k % 5]
    files = []
    if kind == "static":
        template = "static/{name}.txt"
        placeholder = {"name": "[a-z]+"}
        names = rng.sample(["abc", "xyz", "foo", "bar", "qux", "noaa", "metop"], rng.randint(1, 5))
        files = [f"static/{n}.txt" for n in names]
        start = end = None
    elif kind == "temporal":
        template = "t/{year}/{month}/{day}/{hour}{minute}{second}-{end_hour}{end_minute}{end_second}_{sat}.dat"
        placeholder = {"sat": "[a-z0-9]+"}
        for _ in range(rng.randint(2, 8)):
            d = rng.randint(1, 5)
            h, m, s = rng.randint(0, 23), rng.randint(0, 59), rng.randint(0, 59)
            h2, m2, s2 = rng.randint(0, 23), rng.randint(0, 59), rng.randint(0, 59)
            files.append(f"t/2018/02/{d:02d}/{h:02d}{m:02d}{s:02d}-{h2:02d}{m2:02d}{s2:02d}_{rng.choice(['noaa18', 'metopa'])}.dat")
        start, end = [2018, 2, rng.randint(1, 3)], [2018, 2, rng.randint(4, 7)]
    else:
        template = "s/{year}{month}{day}_{hour}{minute}.nc"
        placeholder = None
        for _ in range(rng.randint(2, 8)):
            files.append(f"s/2017{rng.randint(1, 12):02d}{rng.randint(1, 28):02d}_{rng.randint(0, 23):02d}{rng.randint(0, 59):02d}.nc")
        start, end = [2017, rng.randint(1, 6), 1], [2017, rng.randint(7, 12), 28]
    return {"kind": "e2e", "id": k, "style": kind, "template": template, "placeholder": placeholder,
            "files": sorted(set(files)), "start": start, "end": end,
            "coverage": rng.choice(["1 hour", "90 minutes", "2 days"]) if kind == "start-only" else None}


def run_e2e(case):
    root = tempfile.mkdtemp(prefix="verif_c15_e2e_")
    try:
        for f in case["files"]:
            p = Path(root) / f
            p.parent.mkdir(parents=True, exist_ok=True)
            p.touch()
        cf = str(Path(root) / "info_cache.json")
        args = (root, case["template"])
        q = (case["start"], case["end"], case["placeholder"])
        cov = case.get("coverage")
        s0 = run_sessions(*args, None, *q)
        out = {}
        if cov:
            # the answers change with time_coverage: the cache must be reset when it is set, and a restart with the
            # new setting must find what a cache-less fileset with that setting finds
            out["s0c"] = run_sessions(*args, None, *q, init_cov=cov)
        s1 = run_sessions(*args, cf, *q, then_cov=cov)
        saved = Path(cf).read_text() if Path(cf).exists() else None
        s2 = run_sessions(*args, cf, *q, init_cov=cov)
        out.update({"s0": s0, "s1": s1, "s2": s2, "saved": saved and saved.replace(root, "<root>")[:600]})
        return out
    finally:
        shutil.rmtree(root, ignore_errors=True)


def check_e2e(ctx, cases):
    with ThreadPoolExecutor(max_workers=min(8, max(1, len(cases)))) as ex:
        results = list(ex.map(run_e2e, cases))
    nontrivial = 0
    for c, r in zip(cases, results):
        ctx.cov["evaluations"] += 1
        case = {"kind": "e2e", "job": c}
        errs = [r[s]["error"] for s in ("s0", "s1", "s2", "s0c") if s in r and "error" in r[s]]
        if errs:
            ctx.fail("failing-input", f"a session with an info_cache file failed: {errs[0]}", case=case, impl=r,
                     signature="session-failed")
            continue

        def found(s, key="found"):
            return sorted(json.dumps(x, sort_keys=True) for x in r[s][key])

        def cached(xs):
            return canon_observed({"cache": xs})
        if c.get("coverage"):
            same = found("s0") == found("s1") and found("s0c") == found("s1", "found_after") == found("s2")
        else:
            same = found("s0") == found("s1") == found("s2")
        bad_flt = None
        for sname in ("s0", "s1", "s2"):
            fl = r[sname].get("filter")
            if fl:
                (key, val), = fl.items()
                want = sorted(json.dumps(x, sort_keys=True) for x in r[sname]["found"] if str(x["attr"].get(key)) == val)
                got = r[sname].get("found_filtered")
                got = got if isinstance(got, str) else sorted(json.dumps(x, sort_keys=True) for x in got)
                if got != want:
                    bad_flt = (sname, fl, got, want)
                    break
        if bad_flt:
            sname, fl, got, want = bad_flt
            ctx.fail("failing-input", f"find(filters={fl}) on a fileset whose files are all cached ({ {'s0': 'no cache file', 's1': 'first run with a cache file', 's2': 'run after restart'}[sname] }) "
                     f"returns {got if isinstance(got, str) else len(got)} file(s), the files of the unfiltered answer with that value are {len(want)}",
                     case=case, impl=r[sname], signature="e2e-filtered-find-with-cache")
            continue
        if not same:
            ctx.fail("failing-input", "find() answers differ between no cache, first run and run after restart"
                     + (" (time_coverage set between two searches)" if c.get("coverage") else ""),
                     case=case, impl=r, signature="e2e-find-differs")
            continue
        if cached(r["s2"]["restored"]) != cached(r["s1"]["final"]) or r["s2"]["warned"]:
            low = any(x.get("t0", [9999])[0] < 1000 for x in r["s1"]["final"] if "bad" not in x)
            ctx.fail("failing-input",
                     f"interpreter restart ({c['style']} fileset {c['template']!r}, {len(c['files'])} files): the first session "
                     f"cached {len(r['s1']['final'])} files and saved them at exit, the next session restored "
                     f"{len(r['s2']['restored'])} (warning: {(r['s2'].get('msg') or [''])[0][-130:]!r})", case=case, impl=r,
                     signature="roundtrip-year-below-1000" if low else "e2e-restart-loses-cache")
            continue
        if r["s1"]["final"]:
            nontrivial += 1
        ctx.sample({"e2e": c["style"], "files": len(c["files"]), "found": len(r["s0"]["found"]),
                    "restored_after_restart": len(r["s2"]["restored"])}, limit=7)
    return nontrivial


# ----------------------------------------------------------------------------- check

def check_failed_lookup(ctx):
    """Directed: "never invented file information" on the error path of get_info.  A look-up that RAISES (the handler cannot
    read an unfinished file; a path that does not fit the template) must leave no entry behind: the next look-up examines the
    file again, and what is saved holds only information some look-up delivered."""
    import datetime as _dt
    from typhon.files import FileSet
    from typhon.files.handlers import FileHandler, FileInfo
    root = Path(tempfile.mkdtemp(prefix="verif_c15_fail_"))
    try:
        names = ["A_20180101_0000.dat", "B_20180101_0600.dat", "C_20180101_1200.dat"]
        for n_ in names:
            (root / n_).write_text("" if n_.startswith("B") else "ready")

        def header(info, **kw):
            if Path(info.path).read_text() == "":
                raise ValueError("file is still being written")
            h = int(Path(info.path).name[-8:-6])
            return FileInfo(info.path, [_dt.datetime(2018, 1, 1, h, 1, 44, 125), _dt.datetime(2018, 1, 1, h + 5, 59, 59, 999999)], {"orbit": 100 + h})
        # (no info_cache file: the in-memory cache is what is examined; an atexit save into the scratch directory is not wanted)
        fs = FileSet(str(root / "{sat}_{year}{month}{day}_{hour}{minute}.dat"), handler=FileHandler(info=header), info_via="both")
        pathB = str(root / names[1])
        case = {"kind": "failed-lookup", "files": names, "unfinished": names[1]}
        raised = None
        try:
            list(fs.find(no_files_error=False))
        except Exception as e:  # noqa
            raised = f"{type(e).__name__}: {e}"
        ctx.cov["evaluations"] += 1
        if pathB in fs.info_cache:
            ent = fs.info_cache[pathB]
            ctx.fail("failing-input", f"a look-up of {names[1]} that failed ({raised}) left an entry in the info cache: times "
                     f"{getattr(ent, 'times', None)}, attributes {getattr(ent, 'attr', None)} - information no look-up delivered",
                     case=case, signature="failed-lookup-leaves-entry")
            return
        (root / names[1]).write_text("ready")
        try:
            got = {Path(i.path).name: (i.times[0], i.times[1], dict(i.attr).get("orbit")) for i in fs.find(no_files_error=False)}
        except Exception as e:  # noqa
            ctx.fail("failing-input", f"find() after the unfinished file was completed raised {type(e).__name__}: {e}", case=case,
                     signature="failed-lookup-then-find")
            return
        want = (_dt.datetime(2018, 1, 1, 6, 1, 44, 125), _dt.datetime(2018, 1, 1, 11, 59, 59, 999999), 106)
        if got.get(names[1]) != want:
            ctx.fail("failing-input", f"after a failed look-up and the completion of the file, find() reports {got.get(names[1])} for "
                     f"{names[1]}, the handler says {want}", case=case, signature="failed-lookup-then-find")
        # a path that does not fit the template: the exception is the answer, the cache stays as it is
        before = set(fs.info_cache)
        try:
            fs.get_info(str(root / "not-a-file-of-this-set.txt"))
        except Exception:  # noqa
            pass
        extra = set(fs.info_cache) - before
        if extra:
            ctx.fail("failing-input", f"get_info() of a path that does not fit the template left the entries {sorted(extra)} in the cache",
                     case=case, signature="failed-lookup-leaves-entry")
    finally:
        shutil.rmtree(root, ignore_errors=True)


def run(ctx):
    ctx.notes = []
    rng = ctx.rng
    check_failed_lookup(ctx)
    # 1. every crash point of caches with 0..20 entries (both tiers), over several previous states
    variants = ["fresh", "old", "old+stale", "stale"]
    sweeps = []
    for n in range(0, 21):
        reps = ctx.n(1, 4)
        for rep in range(reps):
            sweeps.append(make_sweep(rng, len(sweeps), n, variants[(n + rep) % 4]))
    histories = [make_history(rng, k) for k in range(ctx.n(40, 400))]
    loads = make_load_jobs(rng, ctx.n(500, 6000), ctx.n(3, 12), ctx.n(150, 2000))
    for j in loads:
        j["_cost"] = 1
    e2e = [make_e2e(rng, k) for k in range(ctx.n(5, 15))]
    # generated last: the cases above are the same as before the json tie existed (stored seeded changes depend on them)
    codec = make_codec_jobs(rng, ctx.n(40, 400))
    loads += make_parser_jobs(rng, ctx.n(300, 3000), len(loads))

    all_jobs = sweeps + histories + loads + codec
    ctx.log(f"harness: {len(sweeps)} crash sweeps, {len(histories)} histories, {len(loads)} damaged files, {len(e2e)} session cases, "
            f"{len(codec)} caches with unusual characters")
    # the harness children (process creation, typhon) and Coq (the proofs, the model on the generated cases) do not need
    # each other: they run side by side, the observations are compared with the model afterwards
    with ThreadPoolExecutor(max_workers=2) as ex:
        fut_e2e = ex.submit(check_e2e, ctx, e2e)
        fut_jobs = ex.submit(run_jobs, ctx, all_jobs, max(4, core.NPROC - 4))
        ctx.prove("Props/C15.v")
        try:
            precompute(ctx, sweeps, histories, loads, codec)
        except Exception as e:  # noqa -- the checks below evaluate what is missing
            ctx.log(f"precompute: {type(e).__name__}: {e}")
        results = fut_jobs.result()
        nt_e2e = fut_e2e.result()
    ctx.log("harness done")
    for i, r in enumerate(results):
        if r is None:
            results[i] = {"error": "no result from the harness"}
    a, b, c = len(sweeps), len(sweeps) + len(histories), len(sweeps) + len(histories) + len(loads)
    rs, rh, rl, rc = results[:a], results[a:b], results[b:c], results[c:]
    points, nt_s = check_sweeps(ctx, sweeps, rs)
    ctx.log("crash sweeps compared")
    nt_h = check_histories(ctx, histories, rh)
    ctx.log("histories compared")
    nt_l, kinds = check_loads(ctx, loads, rl)
    ctx.log("damaged files compared")
    nt_c = check_codec(ctx, codec, rc)
    ctx.log("json tie on caches with unusual characters compared")

    ctx.cov["distinct_nontrivial"] = nt_s + nt_h + nt_l + nt_e2e + nt_c
    ctx.cov["rule"] = ("crash sweep: a save with more than one write over a non-trivial state (non-empty cache, previous file "
                       "or stale backup), every primitive a crash point; history: at least two different outcomes among "
                       "completed / died / raised; damaged file: the specification demands a warning; session case: the "
                       "first run cached at least one file; distinct by input")
    ctx.cov["input_distribution"] = {
        "crash_sweeps": len(sweeps), "crash_points": points, "entries_per_cache": "0..20 (each size in both tiers)",
        "previous_state": variants, "histories": len(histories), "damaged_files": len(loads), "damage_kinds": kinds,
        "session_cases": len(e2e), "caches_with_unusual_characters": len(codec),
        "characters": "quote, backslash, /, \\n \\r \\t \\b \\f, U+0000, U+0001, U+001F, DEL, U+0080, Latin-1, U+20AC, U+2028, U+D7FF, U+E000, "
                      "U+FFFF, U+10000, U+1F600, U+10FFFF, lone surrogates (U+DC80, U+DCFF, U+D800, U+DBFF), integers up to 10^30",
        "times": "datetime.min, datetime.max, years 1..999, 1000, 9999, leap days, month ends, microseconds 0/1/10/.../999999",
    }
    if ctx.notes:
        ctx.cov["notes"] = ctx.notes[:20]
        ctx.log(f"{len(ctx.notes)} note(s), e.g. {ctx.notes[0][:200]}")
    ctx.assumptions += [
        "cached times are valid naive datetimes, one entry per path, attributes a JSON-native dictionary: hypotheses of "
        "save_load_roundtrip, true of every generated cache and checked per case",
        "a crash is the death of the process between two primitives of save_cache (open, write, close, rename), each write "
        "call being cut once in the middle; data is flushed per primitive (the theorem covers every prefix at the granularity "
        "of the atoms written, which may be single bytes)",
        "a missing cache file gives an empty cache (the code is silent there: the normal first run; the check accepts a "
        "warning as well); a warning is required for unreadable and malformed files",
        "the json tie compares ASCII files byte for byte (json.dump writes nothing else with ensure_ascii=True); caches are "
        "generated inside the subset of json_roundtrip (no high surrogate directly followed by a low one, no floats) except "
        "for one directed case that is compared with the model only",
        "the present code's lenient acceptances (one-digit fields, 't', extra list elements, non-dictionary attr, non-string "
        "path, {} or \"\" as a document) are modelled as they are and compared, but not required by the property",
    ]
    return ctx.finish(trusted_base=TRUSTED)


def replay(ctx, rec):
    ctx.notes = []
    case = rec["case"]
    kind = case["kind"]
    if kind == "e2e":
        check_e2e(ctx, [case["job"]])
    else:
        job = dict(case["job"])
        if kind == "sweep":
            if "crash_after" in case:
                job["points"] = sorted({case["crash_after"], case["of"]})
            res = run_jobs(ctx, [job], workers=1)
            check_sweeps(ctx, [job], res)
        elif kind == "history":
            res = run_jobs(ctx, [job], workers=1)
            check_histories(ctx, [job], res)
        elif kind == "codec":
            res = run_jobs(ctx, [job], workers=1)
            check_codec(ctx, [job], res)
        elif kind == "load":
            j = text_job(job["id"], job["file"]["text"], {"kind": case.get("damage") or "replay", "lenient": False}) \
                if job.get("file") and "text" in job["file"] else dict(job, _meta={"kind": case.get("damage") or "replay",
                                                                                    "lenient": False}, _parsed=False)
            j["via"], j["c0"] = job.get("via", "init"), job.get("c0")
            res = run_jobs(ctx, [j], workers=1)
            check_loads(ctx, [j], res)
    for f in ctx.failures:
        print("still fails:", f.what[:300])
    return 1 if ctx.failures else 0
