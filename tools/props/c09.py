"""C09 -- humidity measures and saturation pressures are mutually consistent.

T-route: coq/gen/atmosphere.v is regenerated from typhon/physics/atmosphere.py on every run; the theorems of
Props/C09.v are about those generated definitions.  The float-vs-real gap and the translator are checked by
pointwise enclosures (Coq's interval tactic proves |model(args) - float returned by the code| <= tol).
The failing-input search is a numeric sweep of the laws the property states, on the implementation only.
"""
import math
from fractions import Fraction

import numpy as np

from lib import core, encl

NEEDED = ["atmosphere." + f for f in (
    "e_eq_ice_mk", "e_eq_water_mk", "e_eq_mixed_mk", "relative_humidity2vmr", "vmr2relative_humidity",
    "mixing_ratio2specific_humidity", "mixing_ratio2vmr", "specific_humidity2mixing_ratio", "specific_humidity2vmr",
    "vmr2mixing_ratio", "vmr2specific_humidity", "moist_lapse_rate")]
REQ = "From TyphonGen Require Import atmosphere.\nFrom Typhon Require Import Proofs.C09_humidity."
UNF_SAT = "unfold e_eq_water_mk, e_eq_ice_mk, c_triple_point_water, tanh, sinh, cosh; cbv zeta."
CONV = ("unfold mixing_ratio2specific_humidity, mixing_ratio2vmr, specific_humidity2mixing_ratio, specific_humidity2vmr, "
        "vmr2mixing_ratio, vmr2specific_humidity, c_molar_mass_dry_air, c_molar_mass_water; cbv zeta.")
TRUSTED = [
    "translator tools/translate (Python-ast -> Coq over R), fail-closed; float literals read as decimals (<= 2^-53 relative)",
    "IEEE-754 rounding of the formulas is bridged pointwise by interval enclosures, never globally",
    "numpy element-wise semantics / broadcasting (scalar, 0-d and array inputs are compared with the scalar model)",
]
TT = 273.16


def near(x, k):
    for _ in range(abs(k)):
        x = np.nextafter(x, math.inf if k > 0 else -math.inf)
    return float(x)


def gen_points(ctx):
    rng = ctx.rng
    n = ctx.n(12, 150)
    xs = [0.0, 1e-12, 1e-6, 0.5, 0.999, 0.04] + [rng.random() ** 3 for _ in range(n)] + [1 - rng.random() * 1e-3 for _ in range(3)]
    ws = [0.0, 1e-9, 0.03, 5.0, 1e3] + [rng.random() * 0.1 for _ in range(n)]
    Ts = [100.0, 400.0, TT, TT - 23, near(TT, 1), near(TT, -1), near(TT - 23, 1), near(TT - 23, -1), 250.16,
          near(250.16, 1), near(250.16, -1), 273.15, 218.8] + [100 + 300 * rng.random() for _ in range(2 * n)]
    ps = [100.0, 110000.0, 101325.0] + [10 ** rng.uniform(2, 5.04) for _ in range(n)]
    return xs, ws, Ts, ps


class _Guard:
    """typhon.physics.atmosphere with every call guarded: an exception on an input the property quantifies over is
    reported as a failing input (once per function and exception class) and the value becomes NaN"""
    def __init__(self, mod, ctx):
        self._mod, self._ctx, self._seen = mod, ctx, set()

    def __getattr__(self, name):
        f = getattr(self._mod, name)
        if not callable(f):
            return f

        def g(*a, **k):
            try:
                return f(*a, **k)
            except Exception as e:  # noqa
                sig = f"raises:{name}:{type(e).__name__}"
                if sig not in self._seen:
                    self._seen.add(sig)
                    shown = [(f"{type(x).__name__}{list(np.shape(x))} {np.asarray(x).ravel()[:3].tolist()}" if not callable(x) else x.__name__)
                             for x in a]
                    self._ctx.fail("failing-input", f"{name}({', '.join(shown)}) raised {type(e).__name__}: {e} on an input the "
                                   f"property covers (floats, 0-d arrays and arrays alike)",
                                   case={"fn": name, "args": shown, "error": f"{type(e).__name__}: {e}"}, signature=sig)
                return float("nan")
        return g


def enclosure_cases(ctx, atm):
    xs, ws, Ts, ps = gen_points(ctx)
    cases = []

    atm = _Guard(atm, ctx)           # an exception of the implementation on one of these inputs is a failing input

    def add(fn, expr, args, value, prep, rtol=1e-11, meta=None):
        v = float(value)
        if v != v:                   # the call raised (reported by _Guard) or returned NaN (reported by the law sweep)
            return
        cases.append({"expr": expr, "value": v, "tol": max(abs(v) * rtol, 1e-300), "prep": prep,
                      "meta": meta or {"fn": fn, "args": [float(a) for a in args], "value": v}})
    for x in xs:
        for fn in ("vmr2mixing_ratio", "vmr2specific_humidity", "specific_humidity2mixing_ratio", "specific_humidity2vmr"):
            # conditioning: the converters contain 1 - x, whose float evaluation carries a relative error of
            # eps / (1 - x); the enclosure tolerance follows it (1e-11 away from x = 1)
            add(fn, f"{fn} {encl.rlit(x)}", [x], getattr(atm, fn)(x), CONV,
                rtol=max(1e-11, 16 * np.finfo(float).eps / max(1 - x, 1e-300)))
    for w in ws:
        for fn in ("mixing_ratio2vmr", "mixing_ratio2specific_humidity"):
            add(fn, f"{fn} {encl.rlit(w)}", [w], getattr(atm, fn)(w), CONV)
    for k, T in enumerate(Ts):
        shape = k % 3          # float, 0-d array, 1-d array inputs
        arg = T if shape == 0 else (np.asarray(T) if shape == 1 else np.asarray([T, T]))
        pick = (lambda r: float(np.asarray(r).ravel()[0]))
        add("e_eq_water_mk", f"e_eq_water_mk {encl.rlit(T)}", [T], pick(atm.e_eq_water_mk(arg)), UNF_SAT, 1e-10)
        add("e_eq_ice_mk", f"e_eq_ice_mk {encl.rlit(T)}", [T], pick(atm.e_eq_ice_mk(arg)), UNF_SAT, 1e-10)
        # the model's branch at exactly this decimal temperature
        Tq = Fraction(repr(T))
        if Tq < Fraction("273.16") - 23:
            lemma = "mixed_is_ice"
        elif Tq > Fraction("273.16"):
            lemma = "mixed_is_liquid"
        else:
            lemma = "mixed_blend"
        marg = arg                                           # float, 0-d array, 1-d array alike (docstring: float or ndarray)
        add("e_eq_mixed_mk", f"e_eq_mixed_mk {encl.rlit(T)}", [T], pick(atm.e_eq_mixed_mk(marg)),
            f"rewrite {lemma} by (unfold c_triple_point_water; lra). {UNF_SAT}", 1e-10)
    for T, p in zip(Ts[::2], ps * 10):
        v = atm.moist_lapse_rate(p, T)
        add("moist_lapse_rate", f"moist_lapse_rate {encl.rlit(p)} {encl.rlit(T)} e_eq_water_mk", [p, T], v,
            "unfold moist_lapse_rate, vmr2mixing_ratio, c_earth_standard_gravity, c_heat_of_vaporization, c_gas_constant_dry_air, "
            "c_gas_constant_water_vapor, c_isobaric_mass_heat_capacity, c_molar_mass_dry_air, c_molar_mass_water; " + UNF_SAT, 1e-9)
        rh = 0.05 + 0.9 * ((T * 7919) % 1)
        add("relative_humidity2vmr", f"relative_humidity2vmr {encl.rlit(rh)} {encl.rlit(p)} {encl.rlit(T)} e_eq_water_mk",
            [rh, p, T], atm.relative_humidity2vmr(rh, p, T), "unfold relative_humidity2vmr; " + UNF_SAT, 1e-10)
    return cases


# ----------------------------------------------------------------------------- numeric law sweep (implementation only)

def find_jump(f, a, b, n=2 ** 17, thresh=1e-9):
    """Search [a, b] for a discontinuity of the positive function f: the cell whose log-increment stands out from
    its neighbours is bisected down to two adjacent doubles. Returns (T_lo, T_hi, relative jump) or None."""
    t = np.linspace(a, b, n + 1)
    v = np.log(f(t))
    d = np.diff(v)
    s = np.abs(d[1:-1] - 0.5 * (d[:-2] + d[2:]))
    i = int(np.argmax(s)) + 1
    if s[i - 1] <= thresh:
        return None
    lo, hi = float(t[i]), float(t[i + 1])
    while np.nextafter(lo, hi) < hi:
        mid = 0.5 * (lo + hi)
        vl, vm, vh = (math.log(float(f(np.asarray([x]))[0])) for x in (lo, mid, hi))
        if abs(vm - vl) >= abs(vh - vm):
            hi = mid
        else:
            lo = mid
    jump = abs(math.log(float(f(np.asarray([hi]))[0])) - math.log(float(f(np.asarray([lo]))[0])))
    return (lo, hi, jump) if jump > thresh else None


def law_sweep(ctx, atm):
    """Returns failures [(signature, what, case)] of the laws the property states, evaluated on the real code.
    An exception of the implementation on an admissible input ends the sweep and is itself a failing input."""
    import traceback
    out = []
    try:
        n = _law_sweep_body(ctx, atm, out)
    except Exception as e:  # noqa
        tb = traceback.extract_tb(e.__traceback__)
        where = next((f"{fr.name}:{fr.lineno}" for fr in reversed(tb) if "typhon" in fr.filename), "?")
        mine = next((fr.line for fr in tb if fr.filename.endswith("c09.py") and fr.name == "_law_sweep_body"), "")
        out.append(("law-raises:" + type(e).__name__, f"evaluating a law of the property on admissible arguments raised "
                    f"{type(e).__name__}: {e} (in {where}; law: {str(mine)[:160]})", {"law": "raises", "exception": type(e).__name__}))
        n = 0
    return out, n


def _law_sweep_body(ctx, atm, out):
    rng = np.random.default_rng(ctx.seed)
    n = ctx.n(2000, 200000)
    x = np.unique(np.concatenate([[0.0, 1e-15, 1e-9, 0.5, 0.999999], rng.random(n) ** 2 * 0.999999]))
    w = np.unique(np.concatenate([[0.0, 1e-12, 1.0, 1e4], 10 ** rng.uniform(-9, 3, n)]))
    tol = 1e-9
    # array calls as a user makes them: the arguments are float64 ndarrays the caller goes on using.  Every function must
    # leave them as they are (otherwise `vmr2relative_humidity(relative_humidity2vmr(RH, p, T), p, T) = RH` fails for the T
    # the user holds) and must answer alike when called again with the same arrays
    Tu = np.array([215.0, 250.16, 260.0, 273.16, 290.0, 310.0])
    pu = np.array([2.0e4, 5.0e4, 7.0e4, 9.0e4, 1.0e5, 1.013e5])
    xu = np.array([0.0, 1e-6, 1e-3, 0.02, 0.3, 0.6])
    ru = np.array([0.1, 0.3, 0.5, 0.7, 0.9, 1.0])
    pure_calls = [(f, [xu]) for f in ("vmr2mixing_ratio", "vmr2specific_humidity", "specific_humidity2mixing_ratio",
                                        "specific_humidity2vmr", "mixing_ratio2vmr", "mixing_ratio2specific_humidity")] \
        + [(f, [Tu]) for f in ("e_eq_water_mk", "e_eq_ice_mk", "e_eq_mixed_mk")] \
        + [("relative_humidity2vmr", [ru, pu, Tu]), ("vmr2relative_humidity", [xu, pu, Tu]), ("moist_lapse_rate", [pu, Tu]),
           ("relative_humidity2vmr", [ru, pu, Tu, atm.e_eq_mixed_mk]), ("vmr2relative_humidity", [xu, pu, Tu, atm.e_eq_mixed_mk]),
           ("moist_lapse_rate", [pu, Tu, atm.e_eq_mixed_mk])]
    for fname, args in pure_calls:
        arrs = [np.array(a, dtype=np.float64) if isinstance(a, np.ndarray) else a for a in args]
        before = [a.copy() if isinstance(a, np.ndarray) else a for a in arrs]
        label = fname + ("" if len(args) < 3 or not callable(args[-1]) else "[e_eq=e_eq_mixed_mk]")
        try:
            r1 = np.array(getattr(atm, fname)(*arrs), dtype=float, copy=True)
            changed = [k for k, (a, b) in enumerate(zip(arrs, before)) if isinstance(a, np.ndarray) and not np.array_equal(a, b)]
            if changed:
                k = changed[0]
                out.append(("arguments-modified:" + fname, f"{label} modified the float64 array handed in as argument {k}: it held "
                            f"{before[k][:3].tolist()}..., now {arrs[k][:3].tolist()}...", {"law": "arguments-untouched", "fn": label}))
                continue
            r2 = np.asarray(getattr(atm, fname)(*arrs), dtype=float)
            if r1.shape != r2.shape or not np.array_equal(r1, r2, equal_nan=True):
                out.append(("repeated-call-differs:" + fname, f"two identical consecutive calls of {label} on the same arrays differ",
                            {"law": "arguments-untouched", "fn": label}))
        except Exception as e:  # noqa
            out.append(("array-call-raises:" + fname, f"{label} on ordinary float64 arrays raised {type(e).__name__}: {e}",
                        {"law": "arguments-untouched", "fn": label}))

    # rank of the arguments: every function of the property is element-wise -- a 0-d array, a (6,) profile, a (2, 3) field
    # and a (1, 3, 2) field of the same numbers must give the numbers of the scalar calls, in the shape of the input
    for fname, args in pure_calls:
        label = fname + ("" if len(args) < 3 or not callable(args[-1]) else "[e_eq=e_eq_mixed_mk]")
        nums = [a for a in args if isinstance(a, np.ndarray)]
        rest = [a for a in args if not isinstance(a, np.ndarray)]
        try:
            want = np.array([float(getattr(atm, fname)(*[float(a[j]) for a in nums], *rest)) for j in range(6)])
        except Exception as e:  # noqa
            out.append(("scalar-call-raises:" + fname, f"{label} on plain floats raised {type(e).__name__}: {e}",
                        {"law": "rank", "fn": label}))
            continue
        for shp in ((), (6,), (2, 3), (1, 3, 2), (6, 1)):
            try:
                if shp == ():
                    got = np.array([np.asarray(getattr(atm, fname)(*[np.array(a[j]) for a in nums], *rest), dtype=float).reshape(())
                                    for j in range(6)])
                    ok = True
                else:
                    r = np.asarray(getattr(atm, fname)(*[a.reshape(shp).copy() for a in nums], *rest), dtype=float)
                    ok = r.shape == shp
                    got = r.reshape(-1) if ok else r
            except Exception as e:  # noqa
                out.append((f"rank-raises:{fname}", f"{label} raised {type(e).__name__}: {e} for arguments of shape {shp} "
                            f"(0-d arrays, profiles and fields are all ndarrays)", {"law": "rank", "fn": label, "shape": list(shp)}))
                continue
            if not ok or not np.all(np.abs(got - want) <= 1e-13 * np.abs(want)):
                out.append((f"rank-differs:{fname}", f"{label} on arguments of shape {shp} gives {np.asarray(got).tolist()}, the scalar "
                            f"calls on the same numbers give {want.tolist()}", {"law": "rank", "fn": label, "shape": list(shp)}))

    # whole-Kelvin temperatures handed over as an INTEGER array (np.arange(200, 320, 10)): the numbers of the float calls
    Ti = np.array([200, 230, 250, 251, 260, 273, 274, 290, 310], dtype=np.int64)
    for fname in ("e_eq_water_mk", "e_eq_ice_mk", "e_eq_mixed_mk"):
        for arr in (Ti, Ti.astype(np.int32), Ti.reshape(3, 3)):
            try:
                got = np.asarray(getattr(atm, fname)(arr), dtype=float)
                want = np.asarray(getattr(atm, fname)(arr.astype(np.float64)), dtype=float)
            except Exception as e:  # noqa
                out.append((f"integer-temperatures-raise:{fname}", f"{fname} raised {type(e).__name__}: {e} for whole-Kelvin temperatures "
                            f"given as {arr.dtype} array of shape {arr.shape}", {"law": "integer-dtype", "fn": fname}))
                continue
            if got.shape != want.shape or not np.all(np.abs(got - want) <= 1e-13 * np.abs(want)):
                out.append((f"integer-temperatures:{fname}", f"{fname} on the {arr.dtype} array {arr.ravel()[:4].tolist()}... gives "
                            f"{got.ravel()[:4].tolist()}..., on the same temperatures as floats {want.ravel()[:4].tolist()}...",
                            {"law": "integer-dtype", "fn": fname}))

    def rel(a, b):
        return np.abs(a - b) / np.maximum(np.maximum(np.abs(a), np.abs(b)), 1e-300)

    def law(name, bad, args, what):
        bad = np.asarray(bad)
        if bad.any():
            i = int(np.argmax(bad))
            out.append((name, f"{what} fails at {[float(np.asarray(a).ravel()[i]) for a in args]}",
                        {"law": name, "args": [float(np.asarray(a).ravel()[i]) for a in args]}))
    pairs = [("vmr2mixing_ratio", "mixing_ratio2vmr", x), ("mixing_ratio2vmr", "vmr2mixing_ratio", w),
             ("vmr2specific_humidity", "specific_humidity2vmr", x), ("specific_humidity2vmr", "vmr2specific_humidity", x),
             ("mixing_ratio2specific_humidity", "specific_humidity2mixing_ratio", w),
             ("specific_humidity2mixing_ratio", "mixing_ratio2specific_humidity", x)]
    for f, g, arg in pairs:
        y = getattr(atm, g)(getattr(atm, f)(arg))
        law(f"inverse:{g}.{f}", (rel(y, arg) > tol) & (arg > 1e-300), [arg], f"{g}({f}(a)) = a")
        fy = getattr(atm, f)(arg)
        law(f"zero:{f}", [getattr(atm, f)(0.0) != 0.0], [np.zeros(1)], f"{f}(0) = 0")
        law(f"increasing:{f}", np.diff(fy) < -1e-15 * np.abs(fy[1:]), [arg[1:]], f"{f} increasing")
        d = np.diff(arg)
        strictly = (d > 1e-6 * np.maximum(arg[1:], 1e-12)) & (np.diff(fy) <= 0)
        law(f"increasing-strict:{f}", strictly, [arg[1:]], f"{f} strictly increasing")
    routes = [("vmr2mixing_ratio", "mixing_ratio2specific_humidity", "vmr2specific_humidity", x),
              ("vmr2specific_humidity", "specific_humidity2mixing_ratio", "vmr2mixing_ratio", x),
              ("mixing_ratio2vmr", "vmr2specific_humidity", "mixing_ratio2specific_humidity", w),
              ("mixing_ratio2specific_humidity", "specific_humidity2vmr", "mixing_ratio2vmr", w),
              ("specific_humidity2vmr", "vmr2mixing_ratio", "specific_humidity2mixing_ratio", x),
              ("specific_humidity2mixing_ratio", "mixing_ratio2vmr", "specific_humidity2vmr", x)]
    for f, g, h, arg in routes:
        law(f"route:{g}.{f}={h}", rel(getattr(atm, g)(getattr(atm, f)(arg)), getattr(atm, h)(arg)) > tol, [arg],
            f"{g}({f}(a)) = {h}(a)")
    T = np.unique(np.concatenate([[100.0, 400.0, TT, TT - 23], rng.uniform(100, 400, n)]))
    el, ei, em = atm.e_eq_water_mk(T), atm.e_eq_ice_mk(T), atm.e_eq_mixed_mk(T)
    law("positive:saturation", (el <= 0) | (ei <= 0), [T], "saturation pressure positive")
    gap = np.diff(T) > 1e-9
    law("increasing:e_eq_water_mk", gap & (np.diff(el) <= 0), [T[1:]], "e_eq_water_mk strictly increasing")
    law("increasing:e_eq_ice_mk", gap & (np.diff(ei) <= 0), [T[1:]], "e_eq_ice_mk strictly increasing")
    below = T <= TT
    law("ice<=liquid", below & (ei > el * (1 + 1e-6) * (1 + 1e-12)), [T], "ice <= liquid (1e-6) below the triple point")
    law("equal-at-triple-point", [abs(atm.e_eq_water_mk(TT) / atm.e_eq_ice_mk(TT) - 1) > 1e-6], [np.array([TT])],
        "ice = liquid at T_t to 1e-6")
    law("mixed:ice-branch", (T < TT - 23 - 1e-9) & (rel(em, ei) > 1e-12), [T], "mixed = ice below T_t - 23")
    law("mixed:liquid-branch", (T > TT + 1e-9) & (rel(em, el) > 1e-12), [T], "mixed = liquid above T_t")
    lo, hi = np.minimum(ei, el), np.maximum(ei, el)
    law("mixed:between", (em < lo * (1 - 1e-12)) | (em > hi * (1 + 1e-12)), [T], "mixed between ice and liquid")
    law("positive:e_eq_mixed_mk", em <= 0, [T], "mixed-phase saturation pressure positive")
    # theorem mixed_phase_increasing: strictly increasing on all of [100, 400] K, across both joints (the grid
    # contains both joint temperatures; points closer than 1e-9 K are not compared strictly)
    law("increasing:e_eq_mixed_mk", gap & (np.diff(em) <= 0), [T[1:]], "e_eq_mixed_mk strictly increasing")
    for joint in (TT - 23, TT):
        # a fine ladder of doubles through each joint: non-decreasing up to rounding (1e-13 relative), and strictly
        # increasing over steps of 1e-6 K
        tt = np.concatenate([[near(joint, k) for k in range(-8, 9)], joint + np.arange(-50, 51) * 1e-6])
        tt = np.unique(tt)
        vv = atm.e_eq_mixed_mk(tt)
        law("increasing:e_eq_mixed_mk", np.diff(vv) < -1e-13 * np.abs(vv[1:]), [tt[1:]],
            "e_eq_mixed_mk non-decreasing through the joint")
        coarse = joint + np.arange(-50, 51) * 1e-6
        vc = atm.e_eq_mixed_mk(coarse)
        law("increasing:e_eq_mixed_mk", np.diff(vc) <= 0, [coarse[1:]], "e_eq_mixed_mk strictly increasing through the joint")
    for joint in (TT - 23, TT):
        tt = np.array([near(joint, k) for k in (-2, -1, 0, 1, 2)])
        vals = atm.e_eq_mixed_mk(tt)
        law("mixed:continuous", rel(vals[1:], vals[:-1]) > 1e-9, [tt[1:]], "mixed continuous at the joints")
        s = float(atm.e_eq_mixed_mk(float(joint)))
        law("mixed:scalar=array", [abs(s - vals[2]) > 0], [np.array([joint])], "scalar and array input agree")
    # a result handed out stays the caller's (seeded change C09-m: a work array per shape returned as the result): a
    # later call on another field of the same shape must not change the values of the first answer
    for fname, a1 in [(f, arg) for f, _g, arg in pairs] + [(f, T) for f in ("e_eq_water_mk", "e_eq_ice_mk", "e_eq_mixed_mk")]:
        fn = getattr(atm, fname)
        a1 = np.array(a1, dtype=float)
        r1 = np.asarray(fn(a1))
        keep = np.array(r1, copy=True)
        fn(a1[::-1].copy())
        law(f"result-kept:{fname}", ~((r1 == keep) | (np.isnan(r1) & np.isnan(keep))), [a1],
            f"the result of {fname} is unchanged by a later call on another field of the same shape")
    j = find_jump(atm.e_eq_mixed_mk, TT - 24.5, TT + 1.5)
    if j:
        out.append(("mixed:continuous", f"e_eq_mixed_mk jumps by {j[2]:.3g} (relative) between the adjacent doubles {j[0]!r} and {j[1]!r}",
                    {"law": "mixed:continuous", "args": [j[0], j[1]]}))
    for bad_T in (0.0, -5.0, np.array([300.0, 0.0])):
        for f in ("e_eq_water_mk", "e_eq_ice_mk", "e_eq_mixed_mk"):
            try:
                getattr(atm, f)(bad_T)
                out.append((f"rejects:{f}", f"{f}({bad_T}) did not raise", {"law": "rejects", "fn": f, "T": str(bad_T)}))
            except ValueError:
                pass
            except Exception as e:  # noqa
                out.append((f"rejects:{f}", f"{f}({bad_T}) raised {type(e).__name__} instead of ValueError",
                            {"law": "rejects", "fn": f, "T": str(bad_T)}))
    p = 10 ** rng.uniform(2, 5.04, T.size)
    rh = rng.uniform(0, 1.2, T.size)
    for e_eq in (None, atm.e_eq_mixed_mk, atm.e_eq_ice_mk, lambda t: 1.0 + t):
        law("rh-vmr-inverse", rel(atm.vmr2relative_humidity(atm.relative_humidity2vmr(rh, p, T, e_eq), p, T, e_eq), rh) > tol,
            [rh, p, T], "vmr2relative_humidity(relative_humidity2vmr(RH)) = RH")
    from typhon import constants
    gd = constants.earth_standard_gravity / constants.isobaric_mass_heat_capacity
    ok = atm.e_eq_water_mk(T) / p < 0.9
    lapse = atm.moist_lapse_rate(p, T)
    law("lapse-bounds", ok & ((lapse <= 0) | (lapse > gd * (1 + 1e-12))), [p, T], "0 < lapse <= g/cp")
    # pressures of 1 .. 11 hPa on their own (scalars, a stratosphere-only profile): no call may depend on which other
    # levels it is handed together with
    p_low = np.array([100.0, 250.0, 600.0, 1000.0, 1100.0])
    T_low = np.array([215.0, 200.0, 225.0, 230.0, 190.0])
    whole = atm.moist_lapse_rate(np.concatenate([p_low, [5.0e4]]), np.concatenate([T_low, [260.0]]))[:5]
    for label, call in [("a stratosphere-only profile (1 .. 11 hPa)", lambda: np.asarray(atm.moist_lapse_rate(p_low, T_low)))] + \
            [(f"the scalars p = {pp} Pa, T = {tt} K", (lambda pp=pp, tt=tt: np.asarray([atm.moist_lapse_rate(pp, tt)])))
             for pp, tt in zip(p_low.tolist(), T_low.tolist())]:
        try:
            v = call()
        except Exception as e:  # noqa
            out.append(("lapse-low-pressure", f"moist_lapse_rate raised {type(e).__name__}: {e} for {label}",
                        {"law": "lapse-low-pressure", "input": label}))
            continue
        ref = whole if v.size == 5 else whole[[k for k, pp in enumerate(p_low.tolist()) if f"p = {pp} Pa" in label]]
        if np.any(v <= 0) or np.any(v > gd * (1 + 1e-12)) or np.any(np.abs(v - ref) > 1e-13 * gd):
            out.append(("lapse-low-pressure", f"moist_lapse_rate gives {v.tolist()} for {label}; as part of a profile that also holds "
                        f"a tropospheric level the same levels give {ref.tolist()} (bound g/cp = {gd})",
                        {"law": "lapse-low-pressure", "input": label}))
    wsat = atm.vmr2mixing_ratio(atm.e_eq_water_mk(T) / p)
    b = constants.heat_of_vaporization ** 2 / (constants.isobaric_mass_heat_capacity * constants.gas_constant_water_vapor * T ** 2)
    # the law is over the reals; `lapse` carries a few ulps of rounding relative to g/cp, which dominates the
    # right-hand side when the saturation mixing ratio is ~1e-20 (T near 100 K): allow 16 ulp of g/cp absolutely
    law("lapse-limit", ok & (np.abs(lapse - gd) > gd * b * wsat * (1 + 1e-9) + 16 * np.finfo(float).eps * gd), [p, T],
        "|lapse - g/cp| <= (g/cp) b w")
    return 6 * x.size + 6 * w.size + 14 * T.size + 2 * (118 + 101)


def exact_fraction_check(atm):
    """The converter identities decided exactly: the real functions evaluated on Fractions with rational
    stand-ins for the two molar masses (the functions read typhon.constants at call time)."""
    from typhon import constants
    out = []
    old = constants.molar_mass_dry_air, constants.molar_mass_water
    constants.molar_mass_dry_air, constants.molar_mass_water = Fraction(289645, 10 ** 7), Fraction(1801528, 10 ** 8)
    try:
        vals = [Fraction(0), Fraction(1, 10 ** 9), Fraction(1, 3), Fraction(999, 1000), Fraction(22, 7) / 4]
        for a in vals:
            checks = [("w2x.x2w", atm.mixing_ratio2vmr(atm.vmr2mixing_ratio(a)), a),
                      ("q2x.x2q", atm.specific_humidity2vmr(atm.vmr2specific_humidity(a)), a),
                      ("x2q.q2x", atm.vmr2specific_humidity(atm.specific_humidity2vmr(a)), a),
                      ("q2w.w2q", atm.specific_humidity2mixing_ratio(atm.mixing_ratio2specific_humidity(a)), a),
                      ("w2q.q2w", atm.mixing_ratio2specific_humidity(atm.specific_humidity2mixing_ratio(a)), a),
                      ("x2w.w2x", atm.vmr2mixing_ratio(atm.mixing_ratio2vmr(a)), a),
                      ("route x-w-q", atm.mixing_ratio2specific_humidity(atm.vmr2mixing_ratio(a)), atm.vmr2specific_humidity(a)),
                      ("route q-w-x", atm.mixing_ratio2vmr(atm.specific_humidity2mixing_ratio(a)), atm.specific_humidity2vmr(a)),
                      ("route w-x-q", atm.vmr2specific_humidity(atm.mixing_ratio2vmr(a)), atm.mixing_ratio2specific_humidity(a))]
            for name, got, want in checks:
                if got != want:
                    out.append((f"exact:{name}", f"{name} is not exact at {a}: {got} != {want}", {"law": name, "arg": str(a)}))
    except Exception as e:  # noqa
        out.append(("exact:error", f"Fraction evaluation raised {type(e).__name__}: {e}", {"law": "exact"}))
    finally:
        constants.molar_mass_dry_air, constants.molar_mass_water = old
    return out, 45


def run(ctx):
    from typhon.physics import atmosphere as atm
    missing = encl.translate(ctx, ["atmosphere"], NEEDED)
    proved = ctx.prove("Props/C09.v")
    # 1. tie: pointwise enclosures of the generated model around the implementation's floats
    if not missing:
        ok, log, _ = core.coq_build([core.THEORIES / "Proofs" / "C09_humidity.v"]) if not proved else (True, "", None)
        cases = enclosure_cases(ctx, atm)
        if ok or proved:
            res, log = encl.enclosure_check(ctx.work / "encl", "c09", REQ, cases)
        else:      # the lemma file itself is broken: enclose with the bare generated definitions only
            res, log = encl.enclosure_check(ctx.work / "encl", "c09", "From TyphonGen Require Import atmosphere.",
                                            [c for c in cases if "rewrite" not in c["prep"]])
            cases = [c for c in cases if "rewrite" not in c["prep"]]
        if log:
            ctx.log(log[-1500:])
        fns = {}
        for c, r in zip(cases, res):
            ctx.cov["evaluations"] += 1
            fns.setdefault(c["meta"]["fn"], [0, 0])[0 if r == "OK" else 1] += 1
            if r != "OK":
                ctx.fail("correspondence", f"enclosure {r}: the real-valued model of {c['meta']['fn']} at {c['meta']['args']} is not "
                         f"within tolerance of the implementation's {c['meta']['value']!r}", case=c["meta"],
                         signature=f"enclosure:{c['meta']['fn']}")
        ctx.cov["enclosures"] = {k: {"ok": v[0], "failed": v[1]} for k, v in fns.items()}
        ctx.cov["distinct_nontrivial"] += len({(c["meta"]["fn"], tuple(c["meta"]["args"])) for c, r in zip(cases, res) if r == "OK"})
        for c in cases[:3] + cases[-2:]:
            ctx.sample(c["meta"])
    # 2. failing-input search / law sweep on the implementation
    fails, n = law_sweep(ctx, atm)
    f2, n2 = exact_fraction_check(atm)
    ctx.cov["evaluations"] += n + n2
    ctx.cov["law_evaluations"] = n + n2
    for sig, what, case in fails + f2:
        ctx.fail("failing-input", what, case=case, signature=sig)
    ctx.cov["rule"] = ("enclosure cases: (function, argument) pairs at generated mixing ratios / temperatures (incl. +-1 ulp around "
                       "both branch temperatures, scalar / 0-d / array inputs) / pressures; a case counts as non-trivial and distinct "
                       "when Coq proved the enclosure for a distinct (function, arguments); the law sweep evaluates the "
                       "stated laws on the implementation at many more points (law_evaluations)")
    ctx.assumptions += ["domains as in the property: mixing ratios in [0,1), 100 <= T <= 400 K, 1..1100 hPa",
                        "mixed-phase continuity is proved in the epsilon-delta sense at every T > 0 (Coquelicot `continuous`, stdlib "
                        "`continuity_pt` and an explicit epsilon-delta statement), from the joint-value equalities and the "
                        "differentiability of the three branch formulas; strict monotonicity of e_eq_mixed_mk is proved on [100, 400] K "
                        "(blend: sign of the derivative on [T_t - 23, T_t] by interval arithmetic with bisection)"]
    return ctx.finish(trusted_base=TRUSTED)


def replay(ctx, rec):
    from typhon.physics import atmosphere as atm
    fails, _ = law_sweep(ctx, atm)
    f2, _ = exact_fraction_check(atm)
    sig = rec.get("signature")
    if str(sig).startswith("raises:"):       # an exception while the enclosure cases were prepared
        n0 = len(ctx.failures)
        enclosure_cases(ctx, atm)
        again = [f for f in ctx.failures[n0:] if f.signature == sig]
        for f in again:
            print("still fails:", f.what)
        return 1 if again else 0
    hit = [f for f in fails + f2 if f[0] == sig]
    for f in hit:
        print("still fails:", f[1])
    if rec.get("kind") != "failing-input":
        print("this replay names a broken obligation; re-run ./check C09 quick")
        return ctx_rc(ctx)
    return 1 if hit else 0


def ctx_rc(ctx):
    ctx.prove("Props/C09.v")
    return 1 if ctx.failures else 0
