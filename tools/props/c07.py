"""C07 -- Geodesy: coordinate conversions invert each other, distances are true metrics.

T-route: coq/gen/geodesy.v is regenerated from typhon/geodesy.py on every run; the theorems of Props/C07.v are about
those generated definitions and about the hand-written model of the loop / line-of-sight code (Model/C07_geodesy.v).
Tie: pointwise interval enclosures (Coq proves |model(args) - float returned by the code| <= tol), including the
iterate the loop of cart2geodetic returns and its stop criterion -- which, by the theorem iteration_accuracy, puts the
returned latitude / height within 2e-10 deg / 5 mm of the true geodetic position -- and the number of passes the real
loop makes (theorem cart2geodetic_terminates_within_accuracy: at most 8).
Failing-input search: the laws the property states, evaluated on the implementation only (scalar, array and broadcast
calls; all ellipsoid models; equator, date line, +-180, negative heights, starting latitudes within 1e-10 of 1 rad),
plus textbook closed forms in extended precision as an independent oracle.
"""
import math
import re

import numpy as np

from lib import core, encl

NEEDED = ["geodesy." + f for f in (
    "sind", "cosd", "tand", "ellipsoid_r_geocentric", "ellipsoid_r_geodetic", "cart2geocentric", "geocentric2cart",
    "geodetic2cart", "great_circle_distance_deg", "great_circle_distance_r", "ellipsoidmodels")]

# the enclosure files only need the definitions (they must keep working when a proof breaks)
REQ = r"""From Typhon Require Import Base.RealAux Model.C07_geodesy.
From TyphonGen Require Import geodesy.
Lemma e_atan2_px y x : 0 < x -> atan2 y x = atan (y / x).
Proof. intros H. unfold atan2. destruct (Rlt_dec 0 x); [reflexivity|contradiction]. Qed.
Lemma e_atan2_nx_py y x : x < 0 -> 0 <= y -> atan2 y x = atan (y / x) + PI.
Proof. intros H Hy. unfold atan2. destruct (Rlt_dec 0 x); [lra|]. destruct (Rlt_dec x 0); [|contradiction].
  destruct (Rle_dec 0 y); [reflexivity|contradiction]. Qed.
Lemma e_atan2_nx_ny y x : x < 0 -> y < 0 -> atan2 y x = atan (y / x) - PI.
Proof. intros H Hy. unfold atan2. destruct (Rlt_dec 0 x); [lra|]. destruct (Rlt_dec x 0); [|contradiction].
  destruct (Rle_dec 0 y); [lra|reflexivity]. Qed.
Lemma e_atan2_zx_py y x : x = 0 -> 0 < y -> atan2 y x = PI / 2.
Proof. intros -> Hy. unfold atan2. destruct (Rlt_dec 0 0); [lra|]. destruct (Rlt_dec 0 y); [reflexivity|contradiction]. Qed.
Lemma e_atan2_zx_ny y x : x = 0 -> y < 0 -> atan2 y x = - (PI / 2).
Proof. intros -> Hy. unfold atan2. destruct (Rlt_dec 0 0); [lra|]. destruct (Rlt_dec 0 y); [lra|].
  destruct (Rlt_dec y 0); [reflexivity|contradiction]. Qed.
Lemma e_clip1_id x : -1 <= x <= 1 -> clip1 x = x.
Proof. intros [A B]. unfold clip1. rewrite (Rmin_left x 1) by lra. apply Rmax_right. lra. Qed.
Ltac a2 := repeat match goal with |- context [atan2 ?y ?x] =>
  first [ rewrite (e_atan2_px y x) by interval with (i_prec 80)
        | rewrite (e_atan2_nx_py y x) by interval with (i_prec 80)
        | rewrite (e_atan2_nx_ny y x) by interval with (i_prec 80)
        | rewrite (e_atan2_zx_py y x) by (try lra; interval with (i_prec 80))
        | rewrite (e_atan2_zx_ny y x) by (try lra; interval with (i_prec 80)) ] end.
Ltac asn := repeat match goal with |- context [asin ?u] => rewrite (asin_atan u) by (split; interval with (i_prec 80)) end.
Ltac acs := repeat match goal with |- context [acos ?u] => rewrite (acos_asin u) by (split; interval with (i_prec 80)) end; asn.
Ltac ifs := repeat match goal with
  | |- context [if Rlt_dec ?a ?b then _ else _] =>
      first [ (assert (a < b) by interval with (i_prec 80)); destruct (Rlt_dec a b); [|contradiction]
            | (assert (~ a < b) by (apply Rle_not_lt; interval with (i_prec 80))); destruct (Rlt_dec a b); [contradiction|] ]
  | |- context [if Rle_dec ?a ?b then _ else _] =>
      first [ (assert (a <= b) by interval with (i_prec 80)); destruct (Rle_dec a b); [|contradiction]
            | (assert (~ a <= b) by (apply Rlt_not_le; interval with (i_prec 80))); destruct (Rle_dec a b); [contradiction|] ]
  | |- context [if Req_EM_T ?a ?b then _ else _] =>
      first [ (assert (a = b) by lra); destruct (Req_EM_T a b); [|contradiction]
            | (assert (a <> b) by lra); destruct (Req_EM_T a b); [contradiction|] ]
  end.
Ltac clp := repeat match goal with |- context [clip1 ?u] => rewrite (e_clip1_id u) by (split; interval with (i_prec 80)) end.
"""
UNF = ("cbv beta iota zeta delta [fst snd pred sind cosd tand ellipsoid_r_geocentric ellipsoid_r_geodetic cart2geocentric "
       "geocentric2cart geodetic2cart great_circle_distance_deg great_circle_distance_r tunnel hypot geod_N geod_h geod_T "
       "geod_iter cart2geodetic_n cart2geodetic_sph geodetic2geocentric poslos2cart los_za los_aa]; ifs; clp; a2; acs.")

TRUSTED = [
    "translator tools/translate (Python-ast -> Coq over R), fail-closed; float literals read as decimals (<= 2^-53 relative)",
    "IEEE-754 rounding of the formulas is bridged pointwise by interval enclosures, never globally",
    "numpy element-wise semantics / broadcasting (scalar, 0-d, array and broadcast calls are compared with the scalar model)",
    "hand-written model of the cart2geodetic loop, tunnel_distance and the two line-of-sight conversions "
    "(Model/C07_geodesy.v), tied by enclosures only",
    "the convergence of the geodetic iteration is proved over the reals (contraction factor 0.0126, a-posteriori bound, at most "
    "8 passes); that the floating-point loop satisfies the stop criterion at the latitude it returns is enclosed pointwise, and "
    "the number of passes of the real loop is observed through a counting stand-in for the module's `np` (np.arctan calls)",
]
EPS = float(np.finfo(float).eps)
TOL_STOP = 1e-12        # stop criterion of the (fixed) loop of cart2geodetic, radians
TOL_STOP_ENCL = TOL_STOP * (1 + 1e-3)   # what the enclosure proves at the returned latitude
assert TOL_STOP_ENCL <= 2e-12           # hypothesis `tol <= 2e-12` of Props/C07.v iteration_accuracy
MAX_PASSES = 8          # Props/C07.v cart2geodetic_terminates_within_accuracy: the loop stops after at most 8 passes
PASS_LIMIT = 60         # a loop still running after this many passes is stopped by the guard (reported as not stopping)
H_TOL, ANG_TOL = 0.01, 1e-7


def angdiff(a, b):
    return np.abs((np.asarray(a, dtype=float) - np.asarray(b, dtype=float) + 180.0) % 360.0 - 180.0)


def near(x, k):
    for _ in range(abs(k)):
        x = np.nextafter(x, math.inf if k > 0 else -math.inf)
    return float(x)


def models(g):
    em = g.ellipsoidmodels()
    return [(name, (float(em[name][0]), float(em[name][1]))) for name in sorted(em.models)]



# ----------------------------------------------------------------------------------------------- loop guard / pass counter

class LoopDoesNotStop(RuntimeError):
    pass


class CountingNumpy:
    """Stands in for the global name `np` of typhon.geodesy while the check runs: everything is numpy's, except that
    inside a call of cart2geodetic the calls of np.arctan are counted (the loop makes exactly one per pass) and that
    a loop that has not stopped after PASS_LIMIT passes is ended by an exception instead of hanging the check."""

    def __init__(self, real):
        self._real = real
        self.active = False
        self.passes = 0
        self.last = None

    def __getattr__(self, name):
        return getattr(self._real, name)

    def arctan(self, *args, **kw):
        if self.active:
            self.passes += 1
            if self.passes > PASS_LIMIT:
                raise LoopDoesNotStop(f"the iteration has not stopped after {PASS_LIMIT} passes")
        return self._real.arctan(*args, **kw)


class guard:
    """with guard(g) as c: ...   installs the counting stand-in and a wrapper of cart2geodetic that resets it per call;
    c is None when the module has no global `np` (then nothing is counted or guarded)"""

    def __init__(self, g):
        self.g = g
        self.real = getattr(g, "np", None)
        self.orig = getattr(g, "cart2geodetic", None)
        self.c = CountingNumpy(self.real) if (self.real is np and callable(self.orig)) else None

    def __enter__(self):
        c, orig = self.c, self.orig
        if c is None:
            return None

        def cart2geodetic(*args, **kw):
            if c.active:                    # re-entrant call: keep counting for the outer one
                return orig(*args, **kw)
            c.active, c.passes = True, 0
            try:
                return orig(*args, **kw)
            finally:
                c.active, c.last, c.passes = False, c.passes, 0
        cart2geodetic.__doc__ = orig.__doc__
        self.g.np = c
        self.g.cart2geodetic = cart2geodetic
        return c

    def __exit__(self, *exc):
        if self.c is not None:
            self.g.np = self.real
            self.g.cart2geodetic = self.orig
        return False


def law_passes(sw, counter, ell, h, lat, lon, name):
    """the real loop stops, and within the number of passes the termination theorem gives for the model
    (h, lat, lon scalars or arrays: an array call runs until every element has converged)"""
    g = sw.g
    sc = np.ndim(h) == 0
    case = {"law": "loop-passes", "ellipsoid": name, "ell": list(ell), "h": float(h) if sc else [float(v) for v in h],
            "lat": float(lat) if sc else [float(v) for v in lat], "lon": float(lon) if sc else [float(v) for v in lon]}
    x, y, z = g.geodetic2cart(h, lat, lon, ell)
    sw.evals += 1
    counter.last = None
    try:
        g.cart2geodetic(x, y, z, ell)
    except LoopDoesNotStop as ex:
        sw.report("geodetic-iteration:does-not-stop", f"cart2geodetic(geodetic2cart(h={case['h']!r}, lat={case['lat']!r}, lon={case['lon']!r}, "
                  f"{name})) does not return: {ex} (the model stops after at most {MAX_PASSES})", case)
        return None
    except Exception:  # noqa  (reported by the round-trip laws)
        return None
    n = counter.last
    sw.passes[n] = sw.passes.get(n, 0) + 1
    if n is not None and n > MAX_PASSES:
        sw.corr.setdefault("loop-passes", (f"cart2geodetic made {n} passes of its loop at h={case['h']!r}, lat={case['lat']!r}, "
                                           f"lon={case['lon']!r} ({name}); the model (theorem cart2geodetic_terminates_within_accuracy) stops "
                                           f"after at most {MAX_PASSES}", case))
    return n

# ----------------------------------------------------------------------------------------------- generators

def gen_positions(rng, n, band):
    """(h, lat, lon) in the stated domain, boundary-biased; `band` extra points with 87.5 <= |lat| <= 88."""
    lat = np.concatenate([[0.0, 88.0, -88.0, 45.0, -45.0, 1e-9, -1e-9, 57.29577951308232, 30.0, 87.999],
                          rng.uniform(-88, 88, n), rng.choice([-1.0, 1.0], band) * rng.uniform(87.5, 88.0, band)])
    m = lat.size
    lon = rng.uniform(-180, 180, m)
    special = np.array([0.0, 180.0, -180.0, 90.0, -90.0, near(180.0, -1), near(-180.0, 1), 1e-12, -1e-12, 179.999999])
    k = min(m, 40)
    lon[:k] = special[rng.integers(0, special.size, k)]
    h = rng.uniform(-1e4, 1e6, m)
    hs = np.array([0.0, -1e4, 1e6, 1.0, -1.0])
    h[:k] = hs[rng.integers(0, hs.size, k)]
    return h, lat, lon


# ----------------------------------------------------------------------------------------------- laws (implementation only)

class Sweep:
    def __init__(self, g):
        self.g = g
        self.fails = {}         # signature -> (what, case)
        self.corr = {}          # signature -> (what, case): model and code differ, the property is not shown to fail
        self.evals = 0
        self.passes = {}        # number of passes of the loop of cart2geodetic -> how often (None: not observable)

    def report(self, sig, what, case):
        if sig not in self.fails:
            self.fails[sig] = (what, case)

    def call(self, sig, case, fn, *args):
        """Run fn; an exception inside the stated domain is a failure of the law."""
        self.evals += 1
        try:
            return fn(*args)
        except Exception as e:  # noqa
            self.report(sig + ":raises", f"{case['law']} raised {type(e).__name__}: {e} at {case}", case)
            return None


def law_arguments_untouched(sw, ell, name, rng):
    """Array calls as a user makes them: the coordinates are float64 ndarrays that the user goes on using.  A conversion
    must leave them as they are (otherwise `f(g(p)) = p` fails for the array p the user holds), and calling it twice with
    the same arrays must give the same answer (the direct and the composed route are compared on the SAME arrays)."""
    g = sw.g
    m = 7
    lat = rng.uniform(-88, 88, m)
    lon = rng.uniform(-180, 180, m)
    h = rng.uniform(-1e4, 1e6, m)
    r = g.ellipsoid_r_geocentric(ell, lat) + rng.uniform(0, 1e6, m)
    x, y, z = g.geodetic2cart(h.copy(), lat.copy(), lon.copy(), ell)
    za, aa = rng.uniform(1, 179, m), rng.uniform(-179, 179, m)
    calls = [("geodetic2cart", lambda a, b, c: g.geodetic2cart(a, b, c, ell), [h, lat, lon]),
             ("cart2geodetic", lambda a, b, c: g.cart2geodetic(a, b, c, ell), [x, y, z]),
             ("geodetic2geocentric", lambda a, b, c: g.geodetic2geocentric(a, b, c, ell), [h, lat, lon]),
             ("geocentric2geodetic", lambda a, b, c: g.geocentric2geodetic(a, b, c, ell), [r, lat, lon]),
             ("geocentric2cart", g.geocentric2cart, [r, lat, lon]),
             ("cart2geocentric", g.cart2geocentric, [x, y, z]),
             ("ellipsoid_r_geocentric", lambda a: g.ellipsoid_r_geocentric(ell, a), [lat]),
             ("ellipsoid_r_geodetic", lambda a: g.ellipsoid_r_geodetic(ell, a), [lat]),
             ("geocentricposlos2cart", g.geocentricposlos2cart, [r, lat, lon, za, aa]),
             ("great_circle_distance", g.great_circle_distance, [lat, lon, lat[::-1].copy(), lon[::-1].copy()]),
             ("tunnel_distance", g.tunnel_distance, [lat, lon, lat[::-1].copy(), lon[::-1].copy()])]
    for fname, fn, args in calls:
        args = [np.array(a, dtype=np.float64) for a in args]
        before = [a.copy() for a in args]
        case = {"law": "arguments-untouched", "fn": fname, "ellipsoid": name, "ell": list(ell),
                "args": [a.tolist() for a in before]}
        r1 = sw.call("arguments-untouched", case, fn, *args)
        if r1 is None:
            continue
        r1 = [np.array(v, dtype=float, copy=True) for v in (r1 if isinstance(r1, tuple) else (r1,))]
        changed = [k for k, (a, b) in enumerate(zip(args, before)) if not np.array_equal(a, b)]
        if changed:
            k = changed[0]
            sw.report("arguments-modified:" + fname,
                      f"{fname}(..., {name}) modified the array handed in as argument {k}: it held {before[k][:3].tolist()}..., now "
                      f"{args[k][:3].tolist()}... -- the position the caller converts back to is no longer the one it converted", case)
            continue
        r2 = sw.call("arguments-untouched", case, fn, *args)
        if r2 is None:
            continue
        r2 = [np.asarray(v, dtype=float) for v in (r2 if isinstance(r2, tuple) else (r2,))]
        if any(not np.array_equal(u, v, equal_nan=True) for u, v in zip(r1, r2)):
            sw.report("repeated-call-differs:" + fname, f"two identical consecutive calls of {fname}(..., {name}) on the same arrays "
                      f"return different values", case)


def law_integer_arguments(sw, ell, name, rng):
    """Whole-number coordinates handed over with an INTEGER type (Python int, numpy integer scalar, integer array -- the
    semi-major axis of the library's own WGS84 is the int 6378137): the same position as the floats of the same value."""
    g = sw.g
    m = 5
    lat = rng.integers(-80, 80, m)
    lon = rng.integers(-170, 170, m)
    h = rng.integers(-10, 1000, m) * 1000
    r = (np.asarray(ell[0] + 600000 + rng.integers(0, 100000, m), dtype=np.int64))
    za, aa = rng.integers(5, 175, m), rng.integers(-170, 170, m)
    calls = [("geodetic2cart", lambda a, b, c: g.geodetic2cart(a, b, c, ell), [h, lat, lon]),
             ("geodetic2geocentric", lambda a, b, c: g.geodetic2geocentric(a, b, c, ell), [h, lat, lon]),
             ("geocentric2geodetic", lambda a, b, c: g.geocentric2geodetic(a, b, c, ell), [r, lat, lon]),
             ("geocentric2cart", g.geocentric2cart, [r, lat, lon]),
             ("ellipsoid_r_geocentric", lambda a: g.ellipsoid_r_geocentric(ell, a), [lat]),
             ("ellipsoid_r_geodetic", lambda a: g.ellipsoid_r_geodetic(ell, a), [lat]),
             ("geocentricposlos2cart", g.geocentricposlos2cart, [r, lat, lon, za, aa]),
             ("great_circle_distance", g.great_circle_distance, [lat, lon, lat[::-1].copy(), lon[::-1].copy()]),
             ("tunnel_distance", g.tunnel_distance, [lat, lon, lat[::-1].copy(), lon[::-1].copy()])]
    for fname, fn, args in calls:
        ints = [np.asarray(a, dtype=np.int64) for a in args]
        case = {"law": "integer-arguments", "fn": fname, "ellipsoid": name, "ell": list(ell), "args": [a.tolist() for a in ints]}
        want = sw.call("integer-arguments", case, fn, *[a.astype(np.float64) for a in ints])
        if want is None:
            continue
        want = [np.asarray(v, dtype=float) for v in (want if isinstance(want, tuple) else (want,))]
        forms = {"integer arrays": lambda: fn(*ints),
                 "Python ints": lambda: fn(*[int(a[0]) for a in ints]),
                 "numpy integer scalars": lambda: fn(*[a[0] for a in ints])}
        for form, thunk in forms.items():
            got = sw.call("integer-arguments", dict(case, form=form), thunk)
            if got is None:
                continue
            got = [np.asarray(v, dtype=float) for v in (got if isinstance(got, tuple) else (got,))]
            for k, (u, v) in enumerate(zip(got, want)):
                ref = v if form == "integer arrays" else v.ravel()[:1]
                u = u.ravel() if form != "integer arrays" else u
                if u.shape != ref.shape or not np.all(np.abs(u - ref) <= 1e-9 * np.maximum(np.abs(ref), 1.0) + 1e-9):
                    sw.report("integer-arguments:" + fname,
                              f"{fname}(..., {name}) with {form} returns {u.ravel()[:3].tolist()} as result {k}, with the same values "
                              f"as floats {ref.ravel()[:3].tolist()}", dict(case, form=form))
                    break
    # position + line of sight round trip from integer-typed arguments
    case = {"law": "integer-arguments", "fn": "los-roundtrip", "ellipsoid": name, "ell": list(ell)}
    for form, conv in (("integer arrays", lambda a: np.asarray(a, dtype=np.int64)), ("Python ints", lambda a: int(a[0]))):
        out = sw.call("integer-arguments", dict(case, form=form),
                      lambda: g.cartposlos2geocentric(*g.geocentricposlos2cart(conv(r), conv(lat), conv(lon), conv(za), conv(aa))))
        if out is None:
            continue
        r2, lat2, lon2, za2, aa2 = (np.asarray(v, dtype=float).ravel() for v in out)
        k = slice(None) if form == "integer arrays" else slice(0, 1)
        ok = (np.all(np.abs(r2 - r[k]) <= 1e-3) and np.all(np.abs(lat2 - lat[k]) <= 1e-6) and np.all(np.abs(za2 - za[k]) <= 1e-6)
              and np.all(np.abs(angdiff(aa2, aa[k].astype(float))) <= 1e-5 / np.sin(np.radians(za[k])) ** 2))
        if not ok:
            sw.report("integer-arguments:los-roundtrip",
                      f"cartposlos2geocentric(geocentricposlos2cart(...)) from {form} (r, lat, lon, za, aa) = "
                      f"({r[k][:2].tolist()}, {lat[k][:2].tolist()}, {lon[k][:2].tolist()}, {za[k][:2].tolist()}, {aa[k][:2].tolist()}) came back as "
                      f"({r2[:2].tolist()}, {lat2[:2].tolist()}, {lon2[:2].tolist()}, {za2[:2].tolist()}, {aa2[:2].tolist()})",
                      dict(case, form=form))


def law_broadcast_arguments(sw, ell, name, rng):
    """Arguments of different but broadcastable shapes (an open mesh lat[:, None] x lon[None, :], a one-element array against
    a vector, a scalar against arrays): the result of the element-wise call on the arrays broadcast beforehand."""
    g = sw.g
    la, lo = rng.uniform(-80, 80, 3), rng.uniform(-170, 170, 4)
    h0, r0 = float(rng.uniform(0, 20000)), float(ell[0] + rng.uniform(0, 500000))
    shapes = [("open mesh", lambda v: v, la.reshape(-1, 1), lo.reshape(1, -1)),
              ("one-element array x vector", lambda v: np.array([v]), la[:1], lo),
              ("scalar x mesh", lambda v: v, la.reshape(-1, 1, 1)[:2], lo.reshape(1, -1))]
    calls = [("geodetic2cart", lambda a, b, c: g.geodetic2cart(a, b, c, ell), h0),
             ("geodetic2geocentric", lambda a, b, c: g.geodetic2geocentric(a, b, c, ell), h0),
             ("geocentric2geodetic", lambda a, b, c: g.geocentric2geodetic(a, b, c, ell), r0),
             ("geocentric2cart", g.geocentric2cart, r0)]
    for fname, fn, first in calls:
        for label, wrap, a_lat, a_lon in shapes:
            args = [wrap(first), a_lat, a_lon]
            case = {"law": "broadcast-arguments", "fn": fname, "ellipsoid": name, "ell": list(ell), "shapes": [list(np.shape(a)) for a in args]}
            full = [np.array(b, dtype=float) for b in np.broadcast_arrays(*[np.asarray(a, dtype=float) for a in args])]
            want = sw.call("broadcast-arguments", case, fn, *full)
            got = sw.call("broadcast-arguments", dict(case, form=label), fn, *args)
            if want is None or got is None:
                if want is not None:
                    sw.report("broadcast-arguments:" + fname, f"{fname}(..., {name}) failed for arguments of the broadcastable shapes "
                              f"{case['shapes']} ({label}); it works on the same values broadcast beforehand", dict(case, form=label))
                continue
            for k, (u, v) in enumerate(zip(got, want)):
                u, v = np.asarray(u, dtype=float), np.asarray(v, dtype=float)
                # a component that does not depend on every argument (z of a sphere: no longitude) may keep the smaller shape
                try:
                    ub = np.broadcast_to(u, v.shape)
                except ValueError:
                    ub = None
                if ub is None or not np.all(np.abs(ub - v) <= 1e-9 * np.maximum(np.abs(v), 1.0) + 1e-9):
                    sw.report("broadcast-arguments:" + fname, f"{fname}(..., {name}) on arguments of shapes {case['shapes']} ({label}) returns "
                              f"shape {u.shape} / other values as result {k} than on the same values broadcast beforehand (shape {v.shape})",
                              dict(case, form=label))
                    break


def law_geodetic_roundtrip(sw, ell, h, lat, lon, name):
    """scalar calls: cart2geodetic(geodetic2cart(p)) = p to 1 cm / 1e-7 deg"""
    g = sw.g
    case = {"law": "geodetic-roundtrip", "ellipsoid": name, "ell": list(ell), "h": float(h), "lat": float(lat), "lon": float(lon)}
    r = sw.call("geodetic-roundtrip", case, lambda: g.cart2geodetic(*g.geodetic2cart(h, lat, lon, ell), ell))
    if r is None:
        return
    h2, lat2, lon2 = (float(np.asarray(v).ravel()[0]) for v in r)
    dh, dlat, dlon = abs(h2 - h), abs(lat2 - lat), float(angdiff(lon2, lon))
    if not (dh <= H_TOL and dlat <= ANG_TOL and dlon <= ANG_TOL):
        sw.report("geodetic-roundtrip:accuracy",
                  f"cart2geodetic(geodetic2cart(h={h!r}, lat={lat!r}, lon={lon!r}, {name})) = ({h2!r}, {lat2!r}, {lon2!r}): "
                  f"|dh| = {dh:.3g} m, |dlat| = {dlat:.3g}, |dlon| = {dlon:.3g} deg (allowed 0.01 m / 1e-7 deg)", case)


def law_cartesian_roundtrip(sw, ell, r, latc, lon, name):
    """scalar calls from a geocentric position: the direct and the composed route agree, geodetic2cart inverts
    cart2geodetic to 1 cm, geodetic2geocentric inverts geocentric2geodetic"""
    g = sw.g
    case = {"law": "cartesian-roundtrip", "ellipsoid": name, "ell": list(ell), "r": float(r), "latc": float(latc), "lon": float(lon)}

    def run():
        x, y, z = g.geocentric2cart(r, latc, lon)
        gd = g.cart2geodetic(x, y, z, ell)
        gd2 = g.geocentric2geodetic(r, latc, lon, ell)
        back = g.geodetic2cart(*gd, ell)
        gc = g.geodetic2geocentric(*gd, ell)
        return (x, y, z), gd, gd2, back, gc
    out = sw.call("cartesian-roundtrip", case, run)
    if out is None:
        return
    (x, y, z), gd, gd2, back, gc = out
    f = lambda t: [float(np.asarray(v).ravel()[0]) for v in t]  # noqa
    gd, gd2, back, gc = f(gd), f(gd2), f(back), f(gc)
    d = max(abs(back[0] - x), abs(back[1] - y), abs(back[2] - z))
    if not d <= H_TOL:
        sw.report("cartesian-roundtrip:accuracy", f"geodetic2cart(cart2geodetic(x, y, z)) misses (x, y, z) by {d:.3g} m at {case}", case)
    if not (abs(gd[0] - gd2[0]) <= 1e-6 and abs(gd[1] - gd2[1]) <= 1e-10 and angdiff(gd[2], gd2[2]) <= 1e-10):
        sw.report("routes:geocentric2geodetic", f"geocentric2geodetic differs from cart2geodetic(geocentric2cart): {gd2} vs {gd} at {case}", case)
    if not (abs(gc[0] - r) <= H_TOL and abs(gc[1] - latc) <= ANG_TOL and angdiff(gc[2], lon) <= ANG_TOL):
        sw.report("routes:geocentric-inverse", f"geodetic2geocentric(geocentric2geodetic(p)) = {gc} for p = {(r, latc, lon)} ({name})", case)


def vec_laws(sw, ell, name, h, lat, lon):
    """array calls: shapes, spherical round trips, composed routes, surface radii, textbook oracle"""
    g = sw.g
    a, e = ell
    scale = a / 6.0e6
    base = {"ellipsoid": name, "ell": list(ell)}

    def first(mask):
        i = int(np.argmax(mask))
        return i, {"h": float(h[i]), "lat": float(lat[i]), "lon": float(lon[i])}
    try:
        x, y, z = g.geodetic2cart(h, lat, lon, ell)
        sw.evals += h.size
        # textbook closed form in extended precision
        L = np.longdouble
        phi, lam = np.deg2rad(lat.astype(L)), np.deg2rad(lon.astype(L))
        N = L(a) / np.sqrt(1 - L(e) ** 2 * np.sin(phi) ** 2)
        X = (N + h) * np.cos(phi) * np.cos(lam)
        Y = (N + h) * np.cos(phi) * np.sin(lam)
        Z = (N * (1 - L(e) ** 2) + h) * np.sin(phi)
        bad = ~((np.abs(x - X) <= 1e-6 * scale) & (np.abs(y - Y) <= 1e-6 * scale) & (np.abs(z - Z) <= 1e-6 * scale))
        if bad.any():
            i, c = first(bad)
            sw.report("oracle:geodetic2cart", f"geodetic2cart({c}, {name}) = {(x[i], y[i], z[i])} but the closed form gives "
                      f"{(float(X[i]), float(Y[i]), float(Z[i]))}", {"law": "oracle-geodetic2cart", **base, **c})
        # array round trip (the loop runs until all elements have converged)
        h2, lat2, lon2 = g.cart2geodetic(x, y, z, ell)
        bad = ~((np.abs(h2 - h) <= H_TOL) & (np.abs(lat2 - lat) <= ANG_TOL) & (angdiff(lon2, lon) <= ANG_TOL))
        if bad.any() or np.shape(h2) != h.shape:
            i, c = first(bad)
            sw.report("geodetic-roundtrip:accuracy", f"array call: cart2geodetic(geodetic2cart({c}, {name})) = "
                      f"{(float(h2[i]), float(lat2[i]), float(lon2[i]))}", {"law": "geodetic-roundtrip", **base, **c})
        # composed route = composition; spherical round trips
        r, latc, lonc = g.geodetic2geocentric(h, lat, lon, ell)
        r1, latc1, lonc1 = g.cart2geocentric(x, y, z)
        bad = ~((np.abs(r - r1) <= 1e-6 * scale) & (np.abs(latc - latc1) <= 1e-10) & (angdiff(lonc, lonc1) <= 1e-10))
        if bad.any():
            i, c = first(bad)
            sw.report("routes:geodetic2geocentric", f"geodetic2geocentric differs from cart2geocentric(geodetic2cart) at {c} ({name})",
                      {"law": "routes-geodetic2geocentric", **base, **c})
        x1, y1, z1 = g.geocentric2cart(r1, latc1, lonc1)
        d = np.maximum(np.maximum(np.abs(x1 - x), np.abs(y1 - y)), np.abs(z1 - z))
        if (~(d <= 1e-6 * scale)).any():
            i, c = first(~(d <= 1e-6 * scale))
            sw.report("spherical-roundtrip", f"geocentric2cart(cart2geocentric(x, y, z)) misses (x, y, z) by {d[i]:.3g} m at "
                      f"{(float(x[i]), float(y[i]), float(z[i]))}", {"law": "spherical-roundtrip", **base, **c})
        rr = np.abs(h) + a            # any positive radius
        r2, la2, lo2 = g.cart2geocentric(*g.geocentric2cart(rr, lat, lon))
        bad = ~((np.abs(r2 - rr) <= 1e-6 * scale) & (np.abs(la2 - lat) <= 1e-9) & (angdiff(lo2, lon) <= 1e-9))
        if bad.any():
            i, c = first(bad)
            sw.report("spherical-roundtrip", f"cart2geocentric(geocentric2cart(r={rr[i]!r}, lat={lat[i]!r}, lon={lon[i]!r})) = "
                      f"{(float(r2[i]), float(la2[i]), float(lo2[i]))}", {"law": "spherical-roundtrip", **base, **c})
        # points on the ellipsoid have the radius given by ellipsoid_r_geodetic / ellipsoid_r_geocentric
        r0, latc0, _ = g.geodetic2geocentric(np.zeros_like(lat), lat, lon, ell)
        rg = g.ellipsoid_r_geodetic(ell, lat)
        rc = g.ellipsoid_r_geocentric(ell, latc0)
        bad = ~((np.abs(r0 - rg) <= 1e-4 * scale) & (np.abs(r0 - rc) <= 1e-4 * scale))
        if bad.any() or np.shape(rg) != lat.shape or np.shape(rc) != lat.shape:
            i, c = first(bad)
            sw.report("surface-radius", f"|geodetic2cart(0, lat={lat[i]!r}, lon={lon[i]!r})| = {float(r0[i])!r} but "
                      f"ellipsoid_r_geodetic = {float(rg[i])!r}, ellipsoid_r_geocentric(lat_c) = {float(rc[i])!r} ({name})",
                      {"law": "surface-radius", **base, **c})
        sw.evals += 6 * h.size
        # broadcast / scalar / 0-d shapes give the element-wise results
        k = min(6, h.size)
        hb, lb, ob = h[:k].reshape(k, 1), lat[:k].reshape(k, 1), lon[:k].reshape(1, k)
        xb, yb, zb = g.geodetic2cart(hb, lb, ob, ell)
        ok = np.shape(xb) == (k, k) and np.shape(yb) == (k, k) and np.shape(zb) == (k, k)
        if ok:
            hh, ll, oo = g.cart2geodetic(xb, yb, zb, ell)
            ok = (np.shape(hh) == (k, k) and np.all(np.abs(hh - hb) <= H_TOL) and np.all(np.abs(ll - lb) <= ANG_TOL)
                  and np.all(angdiff(oo, ob) <= ANG_TOL))
            for i in range(k):
                xs, ys, zs = g.geodetic2cart(float(h[i]), float(lat[i]), float(lon[i]), ell)
                ok = ok and abs(xs - xb[i, i]) <= 1e-6 * scale and abs(ys - yb[i, i]) <= 1e-6 * scale and abs(zs - zb[i, i]) <= 1e-6 * scale
                x0, y0, z0 = g.geodetic2cart(np.asarray(h[i]), np.asarray(lat[i]), np.asarray(lon[i]), ell)
                ok = ok and abs(float(x0) - xs) <= 1e-6 * scale and abs(float(z0) - zs) <= 1e-6 * scale
        if not ok:
            sw.report("shapes:geodetic", f"broadcast (k,1)x(1,k) / scalar / 0-d calls of geodetic2cart / cart2geodetic disagree with "
                      f"the element-wise results ({name})", {"law": "shapes-geodetic", **base, "h": [float(v) for v in h[:k]],
                                                            "lat": [float(v) for v in lat[:k]], "lon": [float(v) for v in lon[:k]]})
        sw.evals += k * k
    except Exception as ex:  # noqa
        sw.report("vector-laws:raises", f"array call raised {type(ex).__name__}: {ex} ({name})",
                  {"law": "vector-laws", **base, "h": float(h[0]), "lat": float(lat[0]), "lon": float(lon[0])})


def aa_tol(za, aa, lat):
    """conditioning of the azimuth: it is the acos of r dlat / sin(za) with za itself an acos near +-1 (error
    eps / sin za, i.e. eps / sin^2 za relative in sin za): the cosine is known to delta = 32 eps / (sin^2 za cos lat)"""
    delta = 32 * EPS / (np.sin(np.deg2rad(za)) ** 2 * np.cos(np.deg2rad(lat)))
    s = np.abs(np.sin(np.deg2rad(aa)))
    return np.rad2deg(np.minimum(2 * delta / np.maximum(s, 1e-300), 2 * np.sqrt(delta))) + 1e-10


def law_los(sw, r, lat, lon, za, aa):
    g = sw.g
    case0 = {"law": "los-roundtrip"}
    try:
        x, y, z, dx, dy, dz = g.geocentricposlos2cart(r, lat, lon, za, aa)
        r2, lat2, lon2, za2, aa2 = g.cartposlos2geocentric(x, y, z, dx, dy, dz)
        sw.evals += r.size
        za_tol = np.rad2deg(32 * EPS / np.sin(np.deg2rad(za))) + 1e-10
        aad = np.minimum(angdiff(aa2, aa), 360.0)
        bad = ~((np.abs(dx ** 2 + dy ** 2 + dz ** 2 - 1) <= 1e-12) & (np.abs(r2 - r) <= 1e-6 * (r / 6e6)) &
                (np.abs(lat2 - lat) <= 1e-9) & (angdiff(lon2, lon) <= 1e-9) &
                (np.abs(za2 - za) <= np.minimum(za_tol, ANG_TOL)) & (aad <= np.minimum(aa_tol(za, aa, lat), 1e-5)))
        if bad.any() or np.shape(za2) != r.shape:
            i = int(np.argmax(bad))
            c = {"r": float(r[i]), "lat": float(lat[i]), "lon": float(lon[i]), "za": float(za[i]), "aa": float(aa[i])}
            sw.report("los-roundtrip", f"cartposlos2geocentric(geocentricposlos2cart({c})) = "
                      f"{(float(r2[i]), float(lat2[i]), float(lon2[i]), float(za2[i]), float(aa2[i]))}", {**case0, **c})
    except Exception as ex:  # noqa
        sw.report("los-roundtrip:raises", f"line-of-sight round trip raised {type(ex).__name__}: {ex}",
                  {**case0, "r": float(r[0]), "lat": float(lat[0]), "lon": float(lon[0]), "za": float(za[0]), "aa": float(aa[0])})


def arc_tol(arc_rad):
    """conditioning of c = 2 asin(sqrt(a)): |dc| <= |da| / (sqrt(a) sqrt(1 - a)), a = sin^2(c/2); da ~ 16 eps"""
    a = np.sin(np.asarray(arc_rad) / 2) ** 2
    return 16 * EPS / np.sqrt(np.maximum(1 - a, 1e-18)) + 1e-13


def law_distances(sw, lat, lon, shift):
    """lat, lon: arrays of shape (3, n): three points each; all distance laws on the implementation"""
    g = sw.g
    from typhon import constants
    Re = float(constants.earth_radius)
    n = lat.shape[1]
    sw.evals += 12 * n

    def rep(sig, what, i, extra=None):
        c = {"law": sig, "lat": [float(v) for v in lat[:, i]], "lon": [float(v) for v in lon[:, i]], "shift": float(shift[i])}
        c.update(extra or {})
        sw.report("distance:" + sig, what + f" at points {list(zip(c['lat'], c['lon']))}", c)
    try:
        d = lambda i, j: g.great_circle_distance(lat[i], lon[i], lat[j], lon[j])                 # noqa
        dm = lambda i, j: g.great_circle_distance(lat[i], lon[i], lat[j], lon[j], r=Re)          # noqa
        t = lambda i, j: g.tunnel_distance(lat[i], lon[i], lat[j], lon[j])                       # noqa
        d01, d10, d12, d02 = d(0, 1), d(1, 0), d(1, 2), d(0, 2)
        m01, m10, m12, m02 = dm(0, 1), dm(1, 0), dm(1, 2), dm(0, 2)
        t01, t10, t12, t02 = t(0, 1), t(1, 0), t(1, 2), t(0, 2)
        tol01, tol12, tol02 = arc_tol(np.deg2rad(d01)), arc_tol(np.deg2rad(d12)), arc_tol(np.deg2rad(d02))
        if np.shape(d01) != (n,) or np.shape(t01) != (n,) or np.shape(m01) != (n,):
            rep("shape", f"result shapes {np.shape(d01)}, {np.shape(m01)}, {np.shape(t01)} for inputs of shape ({n},)", 0)
            return
        bad = ~((np.abs(d01 - d10) <= np.rad2deg(tol01)) & (np.abs(m01 - m10) <= Re * tol01) & (np.abs(t01 - t10) <= 1e-6))
        if bad.any():
            rep("symmetric", "d(A,B) != d(B,A)", int(np.argmax(bad)))
        z = (g.great_circle_distance(lat[0], lon[0], lat[0], lon[0]), g.great_circle_distance(lat[0], lon[0], lat[0], lon[0], r=Re),
             g.tunnel_distance(lat[0], lon[0], lat[0], lon[0]))
        bad = ~((z[0] == 0) & (z[1] == 0) & (z[2] == 0))
        if bad.any():
            rep("zero", "d(A,A) is not exactly 0", int(np.argmax(bad)))
        bad = ~((d02 >= 0) & (d02 <= 180 * (1 + 4 * EPS)) & (m02 >= 0) & (m02 <= math.pi * Re * (1 + 4 * EPS)) &
                (t02 >= 0) & (t02 <= 2 * Re * (1 + 4 * EPS)))
        if bad.any():
            rep("bounds", "distance outside [0, half circumference] / [0, diameter]", int(np.argmax(bad)))
        bad = ~((d02 <= d01 + d12 + np.rad2deg(tol01 + tol12 + tol02)) & (m02 <= m01 + m12 + Re * (tol01 + tol12 + tol02)) &
                (t02 <= t01 + t12 + 1e-6))
        if bad.any():
            rep("triangle", "d(A,C) > d(A,B) + d(B,C)", int(np.argmax(bad)))
        ds = g.great_circle_distance(lat[0], lon[0] + shift, lat[1], lon[1] + shift)
        ts = g.tunnel_distance(lat[0], lon[0] + shift, lat[1], lon[1] + shift)
        # the shifted longitudes are rounded: an absolute error of ulp(|lon| + |shift|) in the longitude difference
        lon_err = np.deg2rad(4 * EPS * (np.abs(lon[0]) + np.abs(lon[1]) + 2 * np.abs(shift)))
        bad = ~((np.abs(ds - d01) <= np.rad2deg(2 * tol01 + 2 * lon_err / np.sqrt(np.maximum(1 - np.sin(np.deg2rad(d01) / 2) ** 2, 1e-18)))) &
                (np.abs(ts - t01) <= 1e-6 + Re * lon_err))
        if bad.any():
            rep("lon-shift", "distance changes under a common shift in longitude", int(np.argmax(bad)))
        bad = ~((np.abs(t01 - 2 * Re * np.sin(m01 / (2 * Re))) <= 1e-6) & (np.abs(t01 - 2 * Re * np.sin(np.deg2rad(d01) / 2)) <= 1e-6))
        if bad.any():
            rep("chord", "tunnel_distance != 2 R sin(great_circle_distance / 2R)", int(np.argmax(bad)))
        # independent oracle: central angle from unit vectors in extended precision, atan2(|u x v|, u . v)
        L = np.longdouble
        def unit(la, lo):     # noqa
            la, lo = np.deg2rad(la.astype(L)), np.deg2rad(lo.astype(L))
            return np.stack([np.cos(la) * np.cos(lo), np.cos(la) * np.sin(lo), np.sin(la)])
        u, v = unit(lat[0], lon[0]), unit(lat[1], lon[1])
        ang = np.arctan2(np.sqrt(np.sum(np.cross(u.T, v.T) ** 2, axis=1)), np.sum(u * v, axis=0)).astype(float)
        ch = (np.sqrt(np.sum((u - v) ** 2, axis=0)) * Re).astype(float)
        bad = ~((np.abs(np.deg2rad(d01) - ang) <= tol01) & (np.abs(m01 - Re * ang) <= Re * tol01) & (np.abs(t01 - ch) <= 1e-6))
        if bad.any():
            i = int(np.argmax(bad))
            rep("oracle", f"great_circle_distance = {float(d01[i])!r} deg / {float(m01[i])!r} m, tunnel_distance = {float(t01[i])!r} m, "
                f"but the central angle is {math.degrees(float(ang[i]))!r} deg, the chord {float(ch[i])!r} m", i)
        # scalar and broadcast calls
        i = n // 2
        s = (g.great_circle_distance(float(lat[0, i]), float(lon[0, i]), float(lat[1, i]), float(lon[1, i])),
             g.great_circle_distance(float(lat[0, i]), float(lon[0, i]), float(lat[1, i]), float(lon[1, i]), r=Re),
             float(np.ravel(g.tunnel_distance(float(lat[0, i]), float(lon[0, i]), float(lat[1, i]), float(lon[1, i])))[0]))
        b = g.great_circle_distance(lat[0][:4].reshape(-1, 1), lon[0][:4].reshape(-1, 1), lat[1][:4].reshape(1, -1), lon[1][:4].reshape(1, -1))
        ok = (abs(s[0] - d01[i]) <= np.rad2deg(tol01[i]) and abs(s[1] - m01[i]) <= Re * tol01[i] and abs(s[2] - t01[i]) <= 1e-6 and
              np.shape(b) == (min(4, n), min(4, n)) and np.all(np.abs(np.diag(b) - d01[:4]) <= np.rad2deg(tol01[:4])))
        if not ok:
            rep("shape", "scalar / broadcast calls disagree with the element-wise results", i)
    except Exception as ex:  # noqa
        rep("raises", f"distance laws raised {type(ex).__name__}: {ex}", 0)


# scalar calls at fixed positions where a stale or early iterate costs most height ((N + h) tan(lat) per radian): the same
# for every seed, so that a loosened stop criterion is always met with a failing input
PROBE_LAT = (88.0, -88.0, 87.999, -87.9, 87.5, -87.0, 86.0, -85.0, 84.0, -82.0, 80.0, -75.0, 70.0, -60.0)
PROBE_H = (-1e4, 0.0, 3e5, 1e6)
PROBE_LON = (0.0, 180.0, -180.0, -75.15, 135.0, -0.001, 90.0)


def probe_positions():
    k = 0
    for la in PROBE_LAT:
        for hh in PROBE_H:
            yield hh, la, PROBE_LON[k % len(PROBE_LON)]
            k += 1


def law_sweep(ctx, g, counter=None):
    """All laws on the implementation. Returns the Sweep (fails: signature -> (what, case))."""
    sw = Sweep(g)
    rng = np.random.default_rng(ctx.seed)
    n_scalar = ctx.n(250, 6000)
    band = ctx.n(300, 3000)
    for name, ell in models(g):
        h, lat, lon = gen_positions(rng, ctx.n(3000, 100000), band)
        if ell[1] > 0:
            # the loop stops, within the passes of the termination theorem (first: a loop that does not stop is met here,
            # under the guard, before any other law runs into it); then the fixed high-latitude round trips
            if counter is not None:
                for hh, la, lo in probe_positions():
                    law_passes(sw, counter, ell, hh, la, lo, name)
                for i in rng.integers(0, h.size, ctx.n(60, 2000)):
                    law_passes(sw, counter, ell, float(h[i]), float(lat[i]), float(lon[i]), name)
                law_passes(sw, counter, ell, h[:200], lat[:200], lon[:200], name)
            for hh, la, lo in probe_positions():
                law_geodetic_roundtrip(sw, ell, hh, la, lo, name)
        vec_laws(sw, ell, name, h, lat, lon)
        # scalar calls: boundary block, uniform block, high-latitude band (worst conditioning of the height)
        idx = np.concatenate([np.arange(0, 40), 10 + rng.integers(0, h.size - band - 10, n_scalar),
                              np.arange(h.size - band, h.size)]) if ell[1] > 0 else np.arange(0, 60)
        for i in idx:
            law_geodetic_roundtrip(sw, ell, float(h[i]), float(lat[i]), float(lon[i]), name)
        # from geocentric positions, including first guesses of the iteration within 1e-10 of the dummy 1 rad
        one = math.degrees(1.0)
        latc = np.concatenate([[one, near(one, 1), near(one, -1), one + 3e-9, one - 3e-9, -one, 0.0, 87.9, -87.9],
                               rng.uniform(-87.8, 87.8, ctx.n(60, 3000))])
        lonc = rng.uniform(-180, 180, latc.size)
        lonc[:3] = [20.0, 180.0, -180.0]
        rr = ell[0] * (1 - ell[1] ** 2 / 2) + rng.uniform(0, 1e6, latc.size)
        for i in range(latc.size):
            law_cartesian_roundtrip(sw, ell, float(rr[i]), float(latc[i]), float(lonc[i]), name)
        law_arguments_untouched(sw, ell, name, rng)
        law_integer_arguments(sw, ell, name, rng)
        law_broadcast_arguments(sw, ell, name, rng)
    # line of sight
    n = ctx.n(4000, 200000)
    r = rng.uniform(3.3e6, 7.5e6, n)
    lat = rng.uniform(-88, 88, n)
    lon = rng.uniform(-180, 180, n)
    za = rng.uniform(0.5, 179.5, n)
    aa = rng.uniform(-180, 180, n)
    aa[:8] = [0.0, 180.0, 90.0, -90.0, 179.999, -179.999, 1e-3, -1e-3]
    za[:8] = [90.0, 90.0, 1.0, 179.0, 45.0, 135.0, 90.0, 90.0]
    lon[:4] = [180.0, -180.0, 0.0, 90.0]
    lat[:4] = [0.0, 0.0, 88.0, -88.0]
    law_los(sw, r, lat, lon, za, aa)
    law_los(sw, np.array([7e6]), np.array([10.0]), np.array([20.0]), np.array([30.0]), np.array([40.0]))
    # distances
    n = ctx.n(4000, 200000)
    dlat = rng.uniform(-90, 90, (3, n))
    dlon = rng.uniform(-180, 180, (3, n))
    k = n // 4          # near-coincident, near-antipodal, same meridian, date line
    dlat[1, :k] = np.clip(dlat[0, :k] + rng.normal(0, 1e-4, k), -90, 90)
    dlon[1, :k] = dlon[0, :k] + rng.normal(0, 1e-4, k)
    dlat[2, :k] = np.clip(dlat[0, :k] + rng.normal(0, 1e-2, k), -90, 90)
    dlon[2, :k] = dlon[0, :k] + rng.normal(0, 1e-2, k)
    q = k // 2
    dlat[1, k:k + q] = -dlat[0, k:k + q] + rng.normal(0, 1e-5, q)
    dlon[1, k:k + q] = dlon[0, k:k + q] + 180.0
    dlat[:, 0] = [0.0, 0.0, 0.0]
    dlon[:, 0] = [0.0, 180.0, 90.0]
    dlat[:, 1] = [90.0, -90.0, 0.0]
    dlon[:, 1] = [0.0, 0.0, 0.0]
    dlon[:, 2] = [179.9, -179.9, 180.0]
    shift = rng.uniform(-360, 360, n)
    law_distances(sw, dlat, dlon, shift)
    return sw


# ----------------------------------------------------------------------------------------------- replay of one case

def replay_case(g, case):
    """Re-evaluates the law of a recorded failing input on the tree under test; returns the failures found."""
    with guard(g) as counter:
        return _replay_case(g, case, counter)


def _replay_case(g, case, counter):
    sw = Sweep(g)
    law = case.get("law", "")
    ell = tuple(case.get("ell", (6378137.0, 0.0818191908426)))
    name = case.get("ellipsoid", "?")
    if law == "loop-passes":
        if counter is not None:
            sc = not isinstance(case["h"], list)
            law_passes(sw, counter, ell, *((case[k] if sc else np.array(case[k])) for k in ("h", "lat", "lon")), name)
    elif law == "geodetic-roundtrip":
        law_geodetic_roundtrip(sw, ell, case["h"], case["lat"], case["lon"], name)
        vec_laws(sw, ell, name, np.array([case["h"]] * 2), np.array([case["lat"]] * 2), np.array([case["lon"]] * 2))
    elif law == "cartesian-roundtrip":
        law_cartesian_roundtrip(sw, ell, case["r"], case["latc"], case["lon"], name)
    elif law == "los-roundtrip":
        law_los(sw, *(np.array([case[k]]) for k in ("r", "lat", "lon", "za", "aa")))
    elif "lat" in case and isinstance(case["lat"], list) and "shift" in case:
        law_distances(sw, np.array(case["lat"]).reshape(3, 1), np.array(case["lon"]).reshape(3, 1), np.array([case["shift"]]))
    elif "h" in case and not isinstance(case["h"], list):
        vec_laws(sw, ell, name, np.array([case["h"]] * 2), np.array([case["lat"]] * 2), np.array([case["lon"]] * 2))
    elif "h" in case:
        vec_laws(sw, ell, name, np.array(case["h"]), np.array(case["lat"]), np.array(case["lon"]))
    return sw.fails


# ----------------------------------------------------------------------------------------------- enclosures

def R(x):
    return encl.rlit(float(x))


def comp3(t, i):
    return [f"fst (fst ({t}))", f"snd (fst ({t}))", f"snd ({t})"][i]


def count_passes(ell, x, y, z, lat_impl):
    """Mirror of the loop body in doubles, ONLY to find which iterate the implementation returned (the values that
    are compared come from the real function): the smallest k with deg(B_k) closest to the returned latitude."""
    a, e = ell
    e2 = e * e
    p = math.hypot(x, y)
    B = math.atan2(z, p)
    its = [B]
    for _ in range(12):
        N = a / math.sqrt(1 - e2 * math.sin(B) ** 2)
        hh = p / math.cos(B) - N
        B = math.atan(z / p / (1 - e2 * N / (N + hh)))
        its.append(B)
    d = [abs(math.degrees(b) - lat_impl) for b in its[:-1]]
    k = int(np.argmin(d))
    return k + 1


def enclosure_cases(ctx, g):
    from typhon import constants
    Re = float(constants.earth_radius)
    rng = np.random.default_rng(ctx.seed + 7)
    cases, stop_cases = [], []

    def add(fn, expr, value, tol, meta_args):
        v = float(np.asarray(value).ravel()[0])
        cases.append({"expr": expr, "value": v, "tol": float(tol), "prep": UNF,
                      "meta": {"fn": fn, "args": [float(a) for a in meta_args], "value": v}})
    npos = ctx.n(5, 40)
    for name, ell in models(g):
        a, e = ell
        sc = a / 6.0e6
        E = f"{R(a)} {R(e)}"
        h, lat, lon = gen_positions(rng, npos, 2)
        pick = np.concatenate([rng.choice(10, 3, replace=False), np.arange(10, 10 + npos + 2)])
        if e > 0:
            # the corners of the domain where the stop criterion is worth most height: always enclosed
            corners = np.array([(-1e4, 88.0, -180.0), (1e6, -88.0, 135.0), (0.0, 87.999, -75.15)])
            pick = np.concatenate([pick, np.arange(h.size, h.size + len(corners))])
            h, lat, lon = np.concatenate([h, corners[:, 0]]), np.concatenate([lat, corners[:, 1]]), np.concatenate([lon, corners[:, 2]])
        for i in pick:
            hi, la, lo = float(h[i]), float(lat[i]), float(lon[i])
            # shapes: scalar, 0-d, 1-d inputs
            mode = int(i) % 3
            w = (lambda v: v) if mode == 0 else ((lambda v: np.asarray(v)) if mode == 1 else (lambda v: np.asarray([v, v])))
            xyz = g.geodetic2cart(w(hi), w(la), w(lo), ell)
            t = f"geodetic2cart {R(hi)} {R(la)} {R(lo)} {E}"
            for c in range(3):
                add("geodetic2cart", comp3(t, c), xyz[c], 2e-8 * sc, [hi, la, lo, a, e])
            x, y, z = (float(np.asarray(v).ravel()[0]) for v in xyz)
            add("ellipsoid_r_geodetic", f"ellipsoid_r_geodetic {E} {R(la)}", g.ellipsoid_r_geodetic(ell, w(la)), 2e-8 * sc, [a, e, la])
            add("ellipsoid_r_geocentric", f"ellipsoid_r_geocentric {E} {R(la)}", g.ellipsoid_r_geocentric(ell, w(la)), 2e-8 * sc, [a, e, la])
            try:
                gd = g.cart2geodetic(w(x), w(y), w(z), ell)
            except Exception:  # noqa  (reported by the law sweep)
                continue
            gh, gla, glo = (float(np.asarray(v).ravel()[0]) for v in gd)
            cond = 1.0 / max(math.cos(math.radians(la)), 1e-3)
            if e == 0:
                t = f"cart2geodetic_sph {R(x)} {R(y)} {R(z)} {R(a)}"
                add("cart2geodetic", comp3(t, 0), gh, 1e-7 * sc, [x, y, z, a, e])
                add("cart2geodetic", comp3(t, 1), gla, 1e-11 * cond, [x, y, z, a, e])
                add("cart2geodetic", comp3(t, 2), glo, 1e-11, [x, y, z, a, e])
            else:
                # the loop returns (geod_h B, B) for an iterate B at which the stop criterion holds (theorem
                # geodetic_loop_stops_at_an_iterate): both facts are enclosed at the latitude actually returned
                Bf = float(np.deg2rad(gla))
                P = f"(hypot {R(x)} {R(y)})"
                add("cart2geodetic:h", f"geod_h {R(a)} ({R(e)} ^ 2) {P} {R(Bf)}", gh, 1e-6 * sc * cond, [x, y, z, a, e, Bf])
                add("cart2geodetic:lon", f"atan2 {R(y)} {R(x)} * 180 / PI", glo, 1e-11, [x, y, z, a, e])
                stop_cases.append({"expr": f"(geod_T {R(a)} ({R(e)} ^ 2) {P} {R(z)} {R(Bf)} - {R(Bf)})", "value": 0.0,
                                   "tol": TOL_STOP_ENCL, "prep": UNF,
                                   "meta": {"fn": "cart2geodetic:stop-criterion", "args": [x, y, z, a, e, Bf], "value": 0.0}})
    # spherical <-> cartesian, distances, line of sight
    m = ctx.n(10, 80)
    r = rng.uniform(3.3e6, 7.5e7, m)
    lat = np.concatenate([[0.0, 88.0, -60.0], rng.uniform(-88, 88, m - 3)])
    lon = np.concatenate([[180.0, -180.0, 0.0, 90.0, -90.0, 135.0, -135.0], rng.uniform(-180, 180, m - 7)])
    for i in range(m):
        ri, la, lo = float(r[i]), float(lat[i]), float(lon[i])
        xyz = g.geocentric2cart(ri, la, lo)
        t = f"geocentric2cart {R(ri)} {R(la)} {R(lo)}"
        for c in range(3):
            add("geocentric2cart", comp3(t, c), xyz[c], 4 * EPS * ri, [ri, la, lo])
        x, y, z = (float(v) for v in xyz)
        sph = g.cart2geocentric(x, y, z)
        t = f"cart2geocentric {R(x)} {R(y)} {R(z)}"
        cond = 1.0 / max(math.cos(math.radians(la)), 1e-3)
        add("cart2geocentric", comp3(t, 0), sph[0], 4 * EPS * ri, [x, y, z])
        add("cart2geocentric", comp3(t, 1), sph[1], 1e-12 * cond + 1e-13, [x, y, z])
        add("cart2geocentric", comp3(t, 2), sph[2], 1e-12, [x, y, z])
    for i in range(m):
        la1, lo1 = float(lat[i]), float(lon[i])
        la2, lo2 = float(rng.uniform(-90, 90)), float(rng.uniform(-180, 180))
        if i % 4 == 0:
            la2, lo2 = la1 + float(rng.normal(0, 1e-3)), lo1 + float(rng.normal(0, 1e-3))
        args = f"{R(la1)} {R(lo1)} {R(la2)} {R(lo2)}"
        d = float(g.great_circle_distance(la1, lo1, la2, lo2))
        tol = float(arc_tol(math.radians(d)))
        add("great_circle_distance", f"great_circle_distance_deg {args}", d, math.degrees(tol), [la1, lo1, la2, lo2])
        add("great_circle_distance", f"great_circle_distance_r {args} {R(Re)}", g.great_circle_distance(la1, lo1, la2, lo2, r=Re),
            Re * tol, [la1, lo1, la2, lo2, Re])
        add("tunnel_distance", f"tunnel {R(Re)} {args}", g.tunnel_distance(la1, lo1, la2, lo2), 1e-7, [la1, lo1, la2, lo2])
    k = ctx.n(6, 50)
    for i in range(k):
        ri, la, lo = float(r[i] if r[i] < 8e6 else 7e6), float(lat[i]), float(lon[i])
        za = float(rng.uniform(1, 179))
        aa = float(rng.choice([-1, 1]) * rng.uniform(3, 177))
        out = g.geocentricposlos2cart(ri, la, lo, za, aa)
        x, y, z, dx, dy, dz = (float(np.asarray(v).ravel()[0]) for v in out)
        t = f"poslos2cart {R(ri)} {R(la)} {R(lo)} {R(za)} {R(aa)}"
        margs = [ri, la, lo, za, aa]
        for c, v in enumerate((x, y, z)):
            add("geocentricposlos2cart", comp3(f"fst ({t})", c), v, 4 * EPS * ri, margs)
        cond = 1.0 / max(math.cos(math.radians(la)), 1e-3)
        for c, v in enumerate((dx, dy, dz)):
            add("geocentricposlos2cart", comp3(f"snd ({t})", c), v, 16 * EPS * cond, margs)
        back = g.cartposlos2geocentric(x, y, z, dx, dy, dz)
        r2, la2, lo2, za2, aa2 = (float(np.asarray(v).ravel()[0]) for v in back)
        margs = [r2, la2, lo2, za2, dx, dy, dz]
        add("cartposlos2geocentric:za", f"los_za {R(la2)} {R(lo2)} {R(dx)} {R(dy)} {R(dz)}", za2,
            math.degrees(64 * EPS / math.sin(math.radians(za))) + 1e-12, margs)
        add("cartposlos2geocentric:aa", f"los_aa {R(r2)} {R(la2)} {R(lo2)} {R(za2)} {R(dx)} {R(dy)} {R(dz)}", aa2,
            float(aa_tol(za, aa, la)) * 4, margs)
    return cases, stop_cases


def check_table(ctx, g):
    """the generated ellipsoid table is the table the code offers at run time"""
    text = (core.GEN / "geodesy.v").read_text()
    rows = dict((m.group(1), (float(m.group(2)), float(m.group(3))))
                for m in re.finditer(r'\("(\w+)"%string, \(([-\d.eE]+), ([-\d.eE]+)\)\)', text))
    run = dict(models(g))
    ok = rows == run
    ctx.add_obligation("generated ellipsoid table = ellipsoidmodels() at run time", ok, "" if ok else f"{rows} vs {run}")
    if not ok:
        ctx.fail("translation", f"generated ellipsoid table {rows} differs from ellipsoidmodels() {run}", signature="ellipsoid-table",
                 obligation="ellipsoid table")


def run(ctx):
    from typhon import geodesy as g
    # every call of cart2geodetic below runs under the guard: a loop that does not stop becomes an exception (a failing input)
    with guard(g) as counter:
        return _run(ctx, g, counter)


def _run(ctx, g, counter):
    missing = encl.translate(ctx, ["geodesy"], NEEDED)
    proved = ctx.prove("Props/C07.v")
    if not missing:
        check_table(ctx, g)
    # 1. tie: pointwise enclosures of the model around the implementation's floats
    model_ok = True
    if not proved:
        model_ok, log, _ = core.coq_build([core.THEORIES / "Model" / "C07_geodesy.v"])
        if not model_ok:
            ctx.log(log[-1500:])
    if not missing and model_ok:
        try:
            cases, stop_cases = enclosure_cases(ctx, g)
        except Exception as e:  # noqa   (the implementation raised on an admissible position while the cases were prepared)
            import traceback
            tb = traceback.extract_tb(e.__traceback__)
            where = next((f"{fr.name}:{fr.lineno}" for fr in reversed(tb) if "typhon" in fr.filename), "?")
            mine = next((str(fr.line) for fr in reversed(tb) if fr.filename.endswith("c07.py")), "")
            ctx.fail("failing-input", f"a conversion raised {type(e).__name__}: {e} on a position inside the stated domain "
                     f"(in {where}; call: {mine[:160]})", case={"law": "raises", "where": where, "call": mine[:300]},
                     signature="conversion-raises:" + type(e).__name__)
            cases, stop_cases = [], []
        res, log = encl.enclosure_check(ctx.work / "encl", "c07", REQ, cases, shard=ctx.n(12, 30), timeout=600)
        res2, log2 = encl.enclosure_check(ctx.work / "encl", "c07stop", REQ, stop_cases, shard=6, timeout=600, prec=140)
        if log or log2:
            ctx.log((log + log2)[-1500:])
        fns = {}
        for c, r in list(zip(cases, res)) + list(zip(stop_cases, res2)):
            ctx.cov["evaluations"] += 1
            fns.setdefault(c["meta"]["fn"], [0, 0])[0 if r == "OK" else 1] += 1
            if r != "OK":
                ctx.fail("correspondence", f"enclosure {r}: the real-valued model of {c['meta']['fn']} at {c['meta']['args']} is not "
                         f"within {c['tol']:.3g} of the implementation's {c['meta']['value']!r}   [{c['expr'][:120]}]", case=c["meta"],
                         signature=f"enclosure:{c['meta']['fn']}")
        ctx.cov["enclosures"] = {k: {"ok": v[0], "failed": v[1]} for k, v in fns.items()}
        ctx.cov["distinct_nontrivial"] += len({(c["meta"]["fn"], c["expr"]) for c, r in
                                               list(zip(cases, res)) + list(zip(stop_cases, res2)) if r == "OK"})
        for c in cases[:2] + cases[-2:] + stop_cases[:1]:
            ctx.sample(c["meta"])
    # 2. the laws of the property on the implementation (failing-input search)
    sw = law_sweep(ctx, g, counter)
    ctx.cov["evaluations"] += sw.evals
    ctx.cov["law_evaluations"] = sw.evals
    for sig, (what, case) in sw.fails.items():
        ctx.fail("failing-input", what, case=case, signature=sig)
    for sig, (what, case) in sw.corr.items():
        ctx.fail("correspondence", what, case=case, signature=sig)
    # passes of the real loop (np.arctan calls inside cart2geodetic), against the bound of the termination theorem
    obs = {k: v for k, v in sw.passes.items() if k}
    ctx.cov["loop_passes"] = {"bound_proved": MAX_PASSES, "observed": {str(k): v for k, v in sorted(obs.items())},
                              "not_observable": sw.passes.get(0, 0) + sw.passes.get(None, 0) + (0 if counter is not None else 1)}
    if obs:
        ok = max(obs) <= MAX_PASSES
        ctx.add_obligation(f"the loop of cart2geodetic stops within the {MAX_PASSES} passes of the termination theorem "
                           f"({sum(obs.values())} calls, at most {max(obs)} passes)", ok, "" if ok else f"{max(obs)} passes")
    ctx.cov["rule"] = ("enclosure cases: (function, component, arguments) at generated positions for all six ellipsoid models (equator, "
                       "date line, +-180, +-88 deg, negative heights; scalar / 0-d / array inputs), the iterate returned by the "
                       "cart2geodetic loop and its stop criterion (also at the +-88 deg corners of both eccentric models); a case counts as distinct and non-trivial when Coq proved the "
                       "enclosure of a distinct term; the law sweep evaluates the stated laws on the implementation at many more "
                       "points (law_evaluations), scalar calls for the iteration")
    ctx.cov["input_distribution"] = ("latitudes uniform in [-88, 88] plus a band 87.5..88, boundary longitudes, heights -10 km..1000 km; "
                                     "geocentric latitudes within 1e-10 rad of 1 rad; LOS: za in [0.5, 179.5], aa in (-180, 180]; "
                                     "distances: uniform, near-coincident, near-antipodal, poles, date line")
    ctx.assumptions += ["domain as in the property: |lat| <= 88 deg, heights -10 km .. 1000 km, zenith angles away from 0 / 180",
                        "iteration theorems: 3000 km <= a <= 70000 km, e <= 0.11 (proved for the generated table), real arithmetic; "
                        "the float loop is tied to them by the enclosure of the stop criterion at the returned latitude"]
    return ctx.finish(trusted_base=TRUSTED)


def replay(ctx, rec):
    from typhon import geodesy as g
    if rec.get("kind") != "failing-input" or not rec.get("case"):
        print("this replay names a broken obligation; re-run ./check C07 quick")
        ctx.prove("Props/C07.v")
        return 1 if ctx.failures else 0
    fails = replay_case(g, rec["case"])
    for sig, (what, _) in fails.items():
        print("still fails:", sig, "--", what[:400])
    return 1 if fails else 0
