"""C01 -- FileSet.find returns exactly the files that overlap the requested period.

Theorems: coq/theories/Props/C01.v (the search algorithm = filter + sort for every layout, population, query).
Tie: the harness draws a path template (directory levels with year/year2, month, day/doy, hour, minute, literal
names, user placeholders, wildcards), renders a population of files with its OWN renderer into a temporary
directory, runs the real FileSet (find with every option, `t in fileset`, len) and evaluates the model and the
brute-force specification on the same population inside Coq (vm_compute).  Whenever the hypotheses of
find_sound_complete hold for the case (checked by Coq: no_gaps, well placed, short, valid, well-formed period) the
specification decides: a disagreement is a failing input of the property.  Outside the hypotheses the real
code is compared with the algorithmic model only (kind "correspondence").

Extension (stability, time bins, cost):
 * stability (find_sorted_stable / find_result_unique): for queries on populations with equal (t0, t1) the harness
   also asks the same FileSet for the unsorted stream (sort=False) and checks on the real output that the files of
   every coverage keep the order of that stream.  The law is relative to the walk the code really does (it is
   fsspec's sorted listing, which the harness predicts and counts, but does not require): kind "correspondence",
   because the property statement fixes the order by (t0, t1) only.
 * time bins (bin_edges / bundle_freq_bins): a stream of cases with files placed on the edges (+- one unit) of the
   bins of widths that do and do not divide a day (7h, 90min, 1D, 36h); Coq prints the bins of the expected
   sequence [number, left edge, right edge, size]; the real bundles must fill exactly these bins and pandas' own
   group labels (the trusted Grouper, called by the harness on the same start times) must be the left edges.
 * the algorithmic model is evaluated only where it decides (outside the hypotheses) or on a sample: inside them
   find_sound_complete makes it equal to the specification, and the directory pruning is the expensive part.
 * extension 2 (look-back near datetime.min, /repo bd49e45): the look-back `start - P` is clamped at datetime.min, the
   theorems carry no hypothesis on the start any more.  A directed, seed-independent stream `nearmin` asks every kind
   of directory layout ({year}, {year}/{month}, {year}/{month}/{day}, {year}/{doy}, {sat}/{year}, {sat} only, with
   files in year 1, year 2 and ordinary years) for periods that start at datetime.min + 1 us / 1 s / 1 day / P - 1 us /
   P / P + 1 day (P = the look-back of the layout); they are inside the hypotheses, so the specification decides: an
   OverflowError (the code before bd49e45) or a lost file is a failing input.
 * extension 3 (time coverage re-configured on ONE object; harness only): cases whose names carry no end fields may carry
   case["recover"] = {"from": A}: the FileSet is constructed with the coverage A, asked (find() over everything, len, `in`,
   two periods), told `fileset.time_coverage = B` (None / timedelta / "N seconds") and only then asked the queries, `in`
   and len of the case; expected is the model / specification evaluated with B (the coverages of case["files"]), i.e. the
   answer of a fresh object.  Directed stream `recover` (recover_cases: 4 layouts x 6 steps, seed-independent), half of
   the random cases without end fields (add_recover_histories, own stream), and two thirds of the single-file cases
   (constructed with the default or a far pair, re-assigned to the pair / None of the case; find, `in` and len).
"""
import datetime as dt
import os
import shutil
import tempfile
import zipfile
from pathlib import Path

from lib import core
from lib.core import zlit, coq_list

PREAMBLE = "From Typhon Require Import Base.Calendar Model.C03_tree Model.C01_find.\n"
TRUSTED = [
    "correspondence harness tools/props/c01.py (template grammar, own renderer of paths, datetime -> microseconds, "
    "canonical comparison of id sequences: order by (t0, t1) against Coq, order among equal (t0, t1) against the "
    "unsorted stream of the same FileSet)",
    "Python re on the anchored regex generated from the template (deterministic class of C02: fixed-width digits, "
    "alphabetic placeholder values separated by delimiters), glob order, os / fsspec directory listing",
    "pandas Grouper(freq=w) is modelled as the bins [o + k w, o + (k+1) w), o = midnight of the first start time "
    "(origin 'start_day', closed left); its group labels are compared with these left edges on every generated "
    "time-bundle query (widths 30min, 1h, 90min, 6h, 7h, 1D, 36h, 2D), the grouping itself stays pandas' ",
    "parsing of names into time coverages (property C02); the coverage FileInfo.times is compared with the "
    "harness' own arithmetic on every file found",
]

MIN = dt.datetime.min
US = dt.timedelta(microseconds=1)
DT_MAX = 315537897600000000
USER_VALUES = {"sat": ["noaa", "metop", "snpp"], "ch": ["a", "bb", "c"]}
USER_IDS = {"sat": 0, "ch": 1, "zz": 2}
FIELD_ORDER = ["year", "month", "day", "hour", "minute", "second", "sub"]
UNIT_US = {"year": 366 * 86400 * 10**6, "month": 31 * 86400 * 10**6, "day": 86400 * 10**6, "hour": 3600 * 10**6,
           "minute": 60 * 10**6, "second": 10**6, "millisecond": 1000, "microsecond": 1}
TF = {"year": ["FYear"], "year2": ["FYear"], "month": ["FMonth"], "day": ["FDay"], "doy": ["FMonth", "FDay"],
      "hour": ["FHour"], "minute": ["FMinute"], "second": ["FSecond"]}
FREQS = {"1h": 3600 * 10**6, "6h": 6 * 3600 * 10**6, "1D": 86400 * 10**6, "2D": 2 * 86400 * 10**6,
         "30min": 1800 * 10**6, "7h": 7 * 3600 * 10**6, "90min": 5400 * 10**6, "36h": 36 * 3600 * 10**6}
EDGE_FREQS = ["7h", "90min", "1D", "36h"]          # widths that do not / do divide a day, below and above one day
DAY_US = 86400 * 10**6


def to_us(d):
    return (d - MIN) // US


def to_dt(us):
    return MIN + dt.timedelta(microseconds=int(us))


# ----------------------------------------------------------------------------- own renderer

def render_token(tok, t0, t1, attrs, wild):
    kind = tok[0]
    if kind == "lit":
        return tok[1]
    if kind == "u":
        return attrs[tok[1]]
    if kind == "w":
        return wild
    name = tok[1]
    d = t0
    if name.startswith("end_"):
        d, name = t1, name[4:]
    if name == "year":
        return "%04d" % d.year
    if name == "year2":
        return "%02d" % (d.year % 100)
    if name == "month":
        return "%02d" % d.month
    if name == "day":
        return "%02d" % d.day
    if name == "doy":
        return "%03d" % ((d.date() - dt.date(d.year, 1, 1)).days + 1)
    if name == "hour":
        return "%02d" % d.hour
    if name == "minute":
        return "%02d" % d.minute
    if name == "second":
        return "%02d" % d.second
    if name == "millisecond":
        return "%03d" % (d.microsecond // 1000)
    if name == "microsecond":
        return "%06d" % d.microsecond
    raise ValueError(name)


def template_token(tok):
    return {"lit": lambda: tok[1], "u": lambda: "{%s}" % tok[1], "w": lambda: "*", "t": lambda: "{%s}" % tok[1]}[tok[0]]()


def template_of(case):
    parts = ["".join(template_token(t) for t in ch) for ch in case["chunks"]]
    parts.append("".join(template_token(t) for t in case["filepart"]))
    return "/".join(parts)


def rel_path(case, f):
    t0, t1 = to_dt(f["t0"]), to_dt(f["t1"])
    parts = ["".join(render_token(t, t0, t1, f["attrs"], f["wild"]) for t in ch) or "w0" for ch in case["chunks"]]
    parts.append("".join(render_token(t, t0, t1, f["attrs"], f["wild"]) for t in case["filepart"]))
    return "/".join(parts)


# ----------------------------------------------------------------------------- generators

def gen_layout(rng, gap):
    """directory chunks + file part; returns (chunks, filepart, users, file_res)"""
    depth = rng.choice([0, 0, 1, 2, 3, 3, 3, 4, 4, 5])
    fields = ["year", "month", "day", "hour", "minute"][:depth]
    if gap and depth >= 4:
        fields.remove("hour" if depth == 5 else "month")       # a gap: {day}/{minute}, or {year}/{day}/{hour}
    use_doy = "month" in fields and "day" in fields and rng.random() < 0.25
    year2 = rng.random() < 0.15
    users = rng.choice([[], [], ["sat"], ["sat"], ["sat", "ch"]])
    # group the temporal fields into chunks, coarse to fine
    groups, cur = [], []
    for f in fields:
        if use_doy and f == "month":
            continue
        cur.append(f)
        if rng.random() < 0.65:
            groups.append(cur)
            cur = []
    if cur:
        groups.append(cur)
    if rng.random() < 0.08 and len(groups) >= 2 and not use_doy:     # ({doy} above {year}: KeyError in typhon)
        rng.shuffle(groups)                                      # finer before coarser (in hypothesis after fix C01_1)
        if not set(groups[0]) & {"year", "month", "day"}:        # a time of day before any date: refused by typhon
            groups.sort(key=lambda g: FIELD_ORDER.index(g[0]))
    dir_users = [u for u in users if rng.random() < 0.5]
    chunks = []
    for g in groups:
        toks = []
        sep = rng.choice(["", "", "-", "_"])
        if rng.random() < 0.15:
            toks.append(["lit", rng.choice(["y", "d_", "L"])])
        for i, f in enumerate(g):
            if i and sep:
                toks.append(["lit", sep])
            name = "doy" if (use_doy and f == "day") else ("year2" if (year2 and f == "year") else f)
            toks.append(["t", name])
        if dir_users and rng.random() < 0.25:
            toks += [["lit", "_"], ["u", dir_users.pop()]]
        chunks.append(toks)
    # non-temporal levels at any position (also after the last temporal one)
    extra = []
    for u in dir_users:
        extra.append([["u", u]] if rng.random() < 0.7 else [["lit", "s-"], ["u", u]])
    for _ in range(rng.choice([0, 0, 0, 1, 1, 2])):
        extra.append(rng.choice([[["lit", "data"]], [["lit", "l1b"]], [["lit", "v"], ["w"]], [["w"]]]))
    for e in extra:
        chunks.insert(rng.randint(0, len(chunks)), e)
    # the file part: every field down to the file resolution that the directory does not provide, or all of them
    finest_dir = max([FIELD_ORDER.index(f) for f in fields], default=-1)
    res_choices = [r for r in ("hour", "minute", "second", "second", "second", "millisecond", "microsecond")
                   if FIELD_ORDER.index(r if r in FIELD_ORDER else "sub") > finest_dir
                   or (r == "minute" and finest_dir == 4)]
    file_res = rng.choice(res_choices)
    upto = FIELD_ORDER.index(file_res if file_res in FIELD_ORDER else "sub")
    dup = rng.random() < 0.5
    fp = []
    file_users = [u for u in users if u not in [t[1] for ch in chunks for t in ch if t[0] == "u"] or rng.random() < 0.3]
    if file_users:
        fp += [["u", file_users[0]], ["lit", "_"]]
    elif rng.random() < 0.3:
        fp += [["lit", "f_"]]
    dir_names = {t[1] for ch in chunks for t in ch if t[0] == "t"}
    have_date = False
    for i, f in enumerate(FIELD_ORDER[:upto + 1]):
        name = file_res if f == "sub" else f
        in_dir = f in fields
        if in_dir and not dup:
            continue
        if f == "hour" and have_date:
            fp.append(["lit", rng.choice(["T", "_", ""])])
        if f == "sub":
            fp.append(["lit", "."])
        if f == "year" and "year2" in dir_names and rng.random() < 0.5:
            name = "year2"
        fp.append(["t", name])
        if f in ("year", "month", "day"):
            have_date = True
    # end of the coverage
    end_style = rng.choice(["none", "none", "tc", "full", "full", "partial"])
    if end_style == "partial" and upto < 3:
        end_style = "full"
    if end_style == "full":
        fp.append(["lit", "-"])
        for f in FIELD_ORDER[:upto + 1]:
            if f == "hour":
                fp.append(["lit", "T"])
            if f == "sub":
                fp.append(["lit", "."])
            fp.append(["t", "end_" + (file_res if f == "sub" else f)])
    elif end_style == "partial":
        fp.append(["lit", "-"])
        for f in FIELD_ORDER[3:upto + 1]:
            if f == "sub":
                fp.append(["lit", "."])
            fp.append(["t", "end_" + (file_res if f == "sub" else f)])
    if len(file_users) > 1:
        fp += [["lit", "_"], ["u", file_users[1]]]
    if rng.random() < 0.2:
        fp += [["lit", "_v"], ["w"]]
    fp.append(["lit", ".dat"])
    return chunks, fp, users, file_res, end_style, fields


def chunk_is_literal(ch):
    return all(t[0] == "lit" for t in ch)


def lookback_us(case):
    if not case["chunks"]:
        return None
    names = [n for ch in case["chunks"] for t in ch if t[0] == "t" for n in TF[t[1]]]
    order = ["FYear", "FMonth", "FDay", "FHour", "FMinute", "FSecond"]
    units = ["year", "month", "day", "hour", "minute", "second"]
    if not names:
        return UNIT_US["year"]
    return UNIT_US[units[max(order.index(n) for n in names)]]


def anchors(rng):
    y = rng.choice([2016, 2017, 2019, 2020, 2021])
    cands = [dt.datetime(y, 1, 1), dt.datetime(y, 12, 31), dt.datetime(y, 3, 1), dt.datetime(y, 2, 28),
             dt.datetime(y, rng.randint(1, 12), rng.randint(1, 28), rng.randint(0, 23)),
             dt.datetime(y, rng.choice([4, 6, 9, 11]), 30), dt.datetime(y, rng.choice([1, 5, 7, 8]), 31)]
    if y % 4 == 0:
        cands.append(dt.datetime(y, 2, 29))
    return rng.sample(cands, rng.randint(1, 3))


def gen_case(rng, k, stream="main"):
    gap = stream == "gap"
    chunks, fp, users, file_res, end_style, fields = gen_layout(rng, gap)
    bins = stream == "bins"
    while bins and UNIT_US[file_res] > UNIT_US["minute"]:          # the bin edges need at least minutes in the names
        chunks, fp, users, file_res, end_style, fields = gen_layout(rng, gap)
    bin_freq = rng.choice(EDGE_FREQS) if bins else None
    case = {"id": k, "stream": stream, "chunks": chunks, "filepart": fp, "file_res": file_res,
            "end_style": end_style, "time_coverage": None, "zip": False}
    unit = UNIT_US[file_res]
    P = lookback_us(case)
    span = P if P is not None else rng.choice([3600 * 10**6, 86400 * 10**6, 40 * 86400 * 10**6])
    anc = [to_us(a) for a in anchors(rng)]
    n = rng.choice([0, 1, 2, 3, 5, 8, 8, 12, 12, 16, 24, 40])
    tc = None
    if end_style == "tc":
        tc = rng.choice([0, unit, span // 7 // unit * unit, span // 2 // unit * unit, span // unit * unit])
        if stream == "long" and P is not None:
            tc = (span + rng.randint(1, span)) // unit * unit
        case["time_coverage"] = tc
    files, seen = [], set()
    if bins:
        n = rng.choice([3, 5, 8, 12, 16, 24])
        day0 = anc[0] // DAY_US * DAY_US
    for _ in range(n):
        a = rng.choice(anc)
        style = rng.random()
        if bins:
            # on / one unit around / inside the bins of width w counted from midnight of day0; a few files on the day
            # before (when the period admits them they move the anchor of all bins)
            w = FREQS[bin_freq]
            j = rng.randint(-(DAY_US // w) - 1, 3 * DAY_US // w + 1)
            off = day0 + j * w + rng.choice([0, 0, -unit, unit, -1, rng.randint(0, w - 1)]) - a
        elif style < 0.3:
            off = rng.choice([0, -1, 1, -10**6, 10**6, -60 * 10**6, 60 * 10**6, -3600 * 10**6, 3600 * 10**6])
        elif style < 0.5 and files:
            off = rng.choice(files)["t0"] - a                     # same start time as another file
        else:
            off = rng.randint(-3 * span, 3 * span) if span < 86400 * 10**6 * 40 else rng.randint(-span, span)
        t0 = (a + off) // unit * unit
        dstyle = rng.random()
        if tc is not None:
            dur = tc
        elif end_style == "none":
            dur = 0
        elif dstyle < 0.2:
            dur = 0
        elif dstyle < 0.35:
            dur = unit
        elif dstyle < 0.5:
            dur = span // unit * unit                              # exactly one period of the finest level
        else:
            dur = rng.randint(0, span) // unit * unit
        if stream == "long" and P is not None and tc is None and end_style != "none" and rng.random() < 0.5:
            dur = (span + rng.randint(1, 2 * span)) // unit * unit
        if end_style == "partial":
            dur = min(dur, (86400 * 10**6 - unit))                 # the end is rolled over by at most one day
        t1 = t0 + dur
        if not (366 * 86400 * 10**6 * 1900 < t0 and t1 < DT_MAX - 366 * 86400 * 10**6):
            continue
        attrs = {u: rng.choice(USER_VALUES[u]) for u in users}
        f = {"t0": t0, "t1": t1, "attrs": attrs, "wild": rng.choice(["", "1", "x2", "abc"])}
        p = rel_path(case, f)
        if p in seen:
            continue
        seen.add(p)
        files.append(f)
    case["files"] = files
    case["noise"] = rng.random() < 0.4
    # exclusions
    inst = sorted({x for f in files for x in (f["t0"], f["t1"])} | set(anc))
    lo, hi = (inst[0], inst[-1]) if inst else (anc[0], anc[0])

    def instant():
        s = rng.random()
        if s < 0.55 and inst:
            return rng.choice(inst) + rng.choice([0, 0, -1, 1, -unit, unit])
        if s < 0.65:
            return lo - rng.randint(1, 5 * span)
        if s < 0.75:
            return hi + rng.randint(1, 5 * span)
        return rng.randint(lo - span, hi + span)
    case["exclude_names"] = sorted(rng.sample(range(len(files)), rng.randint(0, min(3, len(files))))) \
        if rng.random() < 0.3 else []
    periods = []
    if rng.random() < 0.4:
        for _ in range(rng.randint(1, 4)):
            s = rng.random()
            if s < 0.3 and files:
                f = rng.choice(files)                              # strictly inside a file / touching its ends
                a = f["t0"] + rng.choice([0, 1, -1]) * rng.choice([0, 1])
                b = max(a, f["t1"] + rng.choice([0, -1, 1]))
            elif s < 0.45:
                a, b = lo - 5, hi + 5                              # covers every file
            else:
                a = instant()
                b = a + rng.choice([0, 1, unit, rng.randint(0, span)])
            periods.append([a, b])
    case["exclude_periods"] = periods
    # queries
    qs = []
    for _ in range(rng.choice([5, 6, 8])):
        s = rng.random()
        if s < 0.1:
            a, b = None, None
        elif s < 0.2:
            a, b = None, instant()
        elif s < 0.3:
            a, b = instant(), None
        elif s < 0.36:
            a = instant()
            b = a - rng.choice([0, 0, 1, unit])                     # empty or reversed period: ValueError
        elif s < 0.5:
            a = instant()
            b = a + rng.choice([1, 2, unit])
        else:
            a, b = sorted((instant(), instant()))
            if a == b:
                b = a + 1
        filt = None
        if users and rng.random() < 0.45:
            filt = {}
            for u in users:
                r = rng.random()
                vals = rng.sample(USER_VALUES[u], rng.randint(1, 2))
                if r < 0.35:
                    filt[u] = vals if rng.random() < 0.6 else vals[0]
                elif r < 0.7:
                    filt["!" + u] = vals if rng.random() < 0.6 else vals[0]
            if rng.random() < 0.1:
                filt[rng.choice(["zz", "!zz"])] = ["q"]            # a placeholder that is not in the path
        bundle = rng.choice([None, None, None, 1, 2, 3, 5, "1h", "6h", "1D", "2D", "30min", "7h", "90min", "36h"])
        q = {"start": a, "end": b, "filters": filt, "sort": rng.random() < 0.8, "bundle": bundle,
             "only_path": rng.random() < 0.15, "nfe": rng.random() < 0.25}
        if bins:
            q["bundle"] = bin_freq if rng.random() < 0.75 else rng.choice(EDGE_FREQS)
            q["sort"] = True
        qs.append(q)
    case["queries"] = qs
    case["contains"] = [instant() for _ in range(3)]
    return case


# ----------------------------------------------------------------------------- directed: periods near datetime.min

def _us(y, mo, d, h=0, mi=0):
    return to_us(dt.datetime(y, mo, d, h, mi))


NEARMIN_LAYOUTS = [
    # (name, directory chunks); the file part is always {year}{month}{day}T{hour}{minute}-{end ...}.dat (+ {sat})
    ("year", [[["t", "year"]]]),
    ("year-month", [[["t", "year"]], [["t", "month"]]]),
    ("year-month-day", [[["t", "year"]], [["t", "month"]], [["t", "day"]]]),
    ("year-doy", [[["t", "year"]], [["t", "doy"]]]),
    ("yearmonth-day", [[["lit", "y"], ["t", "year"], ["lit", "-"], ["t", "month"]], [["t", "day"]]]),
    ("sat-year", [[["u", "sat"]], [["t", "year"]]]),
    ("sat", [[["u", "sat"]]]),                      # user placeholder only: P = 366 days, no temporal pruning
    ("lit-year-month", [[["lit", "data"]], [["t", "year"]], [["t", "month"]]]),
]


def nearmin_cases(first_id, zip_too=False):
    """Seed-independent.  For every layout: files in year 1 (the first at datetime.min itself, files crossing the first
    midnight / month end / year end, one lasting exactly one look-back P), in year 2 and in ordinary years; periods
    starting within one look-back of datetime.min and just outside; with and without exclusions."""
    day = DAY_US
    fp = [["t", "year"], ["t", "month"], ["t", "day"], ["lit", "T"], ["t", "hour"], ["t", "minute"], ["lit", "-"],
          ["t", "end_year"], ["t", "end_month"], ["t", "end_day"], ["lit", "T"], ["t", "end_hour"], ["t", "end_minute"]]
    cases = []
    for name, chunks in NEARMIN_LAYOUTS:
        users = ["sat"] if any(t[0] == "u" for ch in chunks for t in ch) else []
        filepart = ([["u", "sat"], ["lit", "_"]] if not users and name == "year-month" else []) + fp + [["lit", ".dat"]]
        if filepart[0][0] == "u":
            users = ["sat"]
        for variant in ("plain", "excl") + (("zip",) if zip_too else ()):
            case = {"id": first_id + len(cases), "stream": "nearmin", "chunks": chunks, "filepart": filepart,
                    "file_res": "minute", "end_style": "full", "time_coverage": None, "zip": variant == "zip",
                    "nearmin_layout": name}
            P = lookback_us(case)
            spans = [(0, 30 * 60 * 10**6),                                   # starts at datetime.min itself
                     (_us(1, 1, 1, 12), _us(1, 1, 1, 13)),
                     (_us(1, 1, 1, 23), _us(1, 1, 2, 1)),                    # crosses the first midnight
                     (_us(1, 1, 2, 0), _us(1, 1, 2, 1)),
                     (_us(1, 1, 31, 23, 30), _us(1, 2, 1, 0, 30)),           # crosses the first month end
                     (_us(1, 2, 1, 0), _us(1, 2, 1, 6)),
                     (_us(1, 12, 31, 23, 30), _us(2, 1, 1, 0, 30)),          # crosses the first year end
                     (_us(2, 1, 1, 0), _us(2, 1, 1, 1)),
                     (_us(2, 1, 2, 0), _us(2, 1, 2, 0)),                     # zero length, at datetime.min + 366 days
                     (_us(2, 6, 30, 12), _us(2, 6, 30, 18)),
                     (_us(2018, 3, 5, 12), _us(2018, 3, 5, 13)),
                     (_us(2019, 12, 31, 23), _us(2020, 1, 1, 1))]
            # files that last exactly one look-back: from the first directory into the window of a late start
            spans.append((6 * 3600 * 10**6, 6 * 3600 * 10**6 + P))
            if P >= 31 * day:
                spans.append((_us(1, 1, 20, 0), _us(1, 1, 20, 0) + P - 60 * 10**6))
            if P >= 366 * day:
                spans.append((_us(1, 12, 31, 22), _us(2, 1, 2, 6)))          # directory 0001, still running at min + P
            files, seen = [], set()
            for k, (a, b) in enumerate(spans):
                f = {"t0": a, "t1": b, "attrs": {u: USER_VALUES[u][k % 3] for u in users}, "wild": ""}
                pth = rel_path(case, f)
                if pth not in seen:
                    seen.add(pth)
                    files.append(f)
            case["files"] = files
            case["noise"] = variant == "excl"
            case["exclude_names"] = [1] if variant == "excl" else []
            case["exclude_periods"] = [[0, 10 * 60 * 10**6], [_us(1, 1, 2, 0, 30), _us(1, 1, 2, 0, 30)]] \
                if variant == "excl" else []
            starts = [1, 10**6, day, P - 1, P, P + day, 12 * 3600 * 10**6 + 60 * 10**6, 365 * day + 600 * 10**6, 0]
            ends_of = lambda a: [a + 1, a + 3600 * 10**6, a + 2 * day, 2 * P + day, None]  # noqa
            qs = []
            for i, a in enumerate(sorted(set(starts))):
                for j, b in enumerate(ends_of(a)):
                    bundle = [None, None, 2, "1D", None][(i + j) % 5] if variant != "plain" else None
                    if b is None and isinstance(bundle, str):
                        bundle = 3            # (daily bins from year 1 to 2020: pandas walks 739 000 empty groups, 4 s)
                    filt = None
                    if users and (i + 2 * j) % 7 == 3:
                        filt = {"sat": ["noaa", "snpp"]} if j % 2 else {"!sat": "metop"}
                    qs.append({"start": a, "end": b, "filters": filt, "sort": True, "bundle": bundle,
                               "only_path": False, "nfe": (i + j) % 4 == 0})
            qs.append({"start": 10**6, "end": 10**6, "filters": None, "sort": True, "bundle": None,
                       "only_path": False, "nfe": False})                          # empty period: ValueError, not Overflow
            case["queries"] = qs
            case["contains"] = [1, 10**6, 15 * 60 * 10**6, 12 * 3600 * 10**6 + 30 * 60 * 10**6, day - 1, day, P - 1, P,
                                _us(1, 12, 31, 23, 45)]
            cases.append(case)
    return cases


def near_min_stats(cases):
    n = clamp = 0
    for c in cases:
        P = lookback_us(c)
        if P is None:
            continue
        for q in c["queries"]:
            a = q["start"]
            if a is not None and 0 < a < 2 * P:
                n += 1
                clamp += int(a < P)
    return n, clamp


# ----------------------------------------------------------------------------- directed: re-configured time coverage

def coverage_value(us, n=0):
    """a relative time coverage as the user writes it: None, a timedelta or (every other time, whole seconds) a string"""
    if us is None:
        return None
    if n % 2 and us % 10**6 == 0:
        return f"{us // 10**6} seconds"
    return dt.timedelta(microseconds=us)


RECOVER_LAYOUTS = [
    ("flat", []),
    ("year-month-day", [[["t", "year"]], [["t", "month"]], [["t", "day"]]]),
    ("year-month", [[["t", "year"]], [["t", "month"]]]),
    ("sat-year-doy", [[["u", "sat"]], [["t", "year"]], [["t", "doy"]]]),
]
RECOVER_STEPS = [(6, None), (None, 6), (6, 2), (2, 8), (24, None), (None, 2)]       # hours; None = discrete files


def recover_cases(first_id):
    """Seed-independent (seeded change C01-l).  One file every six hours over a month end, names without end fields; ONE
    FileSet object is constructed with the coverage A, asked (find() over everything, len, `in`, two periods), told
    `fileset.time_coverage = B` and asked the queries proper: periods inside a file of the longer coverage where no
    file starts, the last hour of the month, open ends; `in` at instants covered under one configuration only.  The
    expected answers are those of the model evaluated with B (the coverages of case["files"])."""
    H = 3600 * 10**6
    cases = []
    for name, chunks in RECOVER_LAYOUTS:
        users = ["sat"] if name.startswith("sat") else []
        fp = [["lit", "f_"], ["t", "year"], ["t", "month"], ["t", "day"], ["lit", "T"], ["t", "hour"], ["t", "minute"],
              ["lit", ".dat"]]
        for a, b in RECOVER_STEPS:
            tc = None if b is None else b * H
            case = {"id": first_id + len(cases), "stream": "recover", "chunks": chunks, "filepart": fp, "file_res": "minute",
                    "end_style": "none" if b is None else "tc", "time_coverage": tc, "zip": False,
                    "recover": {"from": None if a is None else a * H}, "recover_layout": name}
            t, files = _us(2018, 1, 30), []
            while t < _us(2018, 2, 3):
                files.append({"t0": t, "t1": t + (tc or 0), "attrs": {u: USER_VALUES[u][len(files) % 3] for u in users},
                              "wild": ""})
                t += 6 * H
            case["files"] = files
            case["noise"] = False
            case["exclude_names"], case["exclude_periods"] = [], []
            periods = [(None, None), (_us(2018, 1, 30, 3), _us(2018, 1, 30, 5)), (_us(2018, 1, 31, 1), _us(2018, 1, 31, 2)),
                       (_us(2018, 1, 31, 23), _us(2018, 2, 1)), (_us(2018, 2, 1), _us(2018, 2, 1, 6)),
                       (_us(2018, 1, 30, 12), _us(2018, 2, 2, 12)), (_us(2018, 2, 2, 19), _us(2018, 2, 2, 23)),
                       (_us(2018, 1, 30, 7), None), (None, _us(2018, 1, 30, 0) + 1)]
            case["queries"] = [{"start": s, "end": e, "filters": None, "sort": True, "bundle": None, "only_path": False,
                                "nfe": i % 3 == 2} for i, (s, e) in enumerate(periods)]
            case["contains"] = [_us(2018, 1, 30, 4), _us(2018, 1, 31, 6), _us(2018, 1, 31, 7, 30), _us(2018, 2, 1, 17),
                                _us(2018, 2, 5)]
            cases.append(case)
    return cases


def add_recover_histories(rng, cases):
    """a share of the random cases whose names carry no end fields gets a re-configuration history (a stream of random
    numbers of its own: the cases are exactly what they were)"""
    n = 0
    for c in cases:
        if c.get("end_style") not in ("none", "tc") or c.get("recover") or not c["files"]:
            continue
        if rng.random() < 0.5:
            unit = UNIT_US[c["file_res"]]
            pool = [a for a in (None, None, unit, 7 * unit, 3600 * 10**6, 6 * 3600 * 10**6, DAY_US)
                    if a != c["time_coverage"]]
            c["recover"] = {"from": rng.choice(pool)}
            n += 1
    return n


# ----------------------------------------------------------------------------- running the real code

def classify_exc(e):
    n = type(e).__name__
    return {"ValueError": "ValueErr", "OverflowError": "OverflowErr", "NoFilesError": "NoFiles"}.get(n, "Other:" + n + ":" + str(e)[:120])


def build_tree(case, root):
    paths = []
    for f in case["files"]:
        p = root / rel_path(case, f)
        p.parent.mkdir(parents=True, exist_ok=True)
        p.touch()
        paths.append(str(p))
    if case["noise"]:
        dirs = sorted({str(Path(p).parent) for p in paths}) or [str(root)]
        for d in dirs[:3]:
            Path(d, "README").touch()
            Path(d, "notes.dat.bak").touch()
            Path(d, "sub.dat").mkdir(exist_ok=True)
            Path(d, "sub.dat", Path(paths[0]).name if paths else "x.dat").touch()
    return paths


def has_ties(case):
    keys = [(f["t0"], f["t1"]) for f in case["files"]]
    return len(set(keys)) < len(keys)


def wants_stream(q):
    """queries whose result goes through sorted(): sort=True, or bundles by count (always sorted)"""
    return bool(q["sort"] or isinstance(q["bundle"], int))


def run_impl(case):
    """Build the tree, run every query; observations are ids (index of the file in the population)."""
    from typhon.files import FileSet
    root = Path(tempfile.mkdtemp(prefix="verif_c01_"))
    obs = {"queries": [], "contains": [], "len": None, "coverage": []}
    try:
        data = root / "data"
        data.mkdir()
        paths = build_tree(case, data)
        template = template_of(case)
        kw = {}
        # re-configuration history (case["recover"] = {"from": A}): the object is constructed with the time coverage A,
        # looks at its files and is then told the coverage of the case by `fileset.time_coverage = B` (below)
        hist = case.get("recover") if case.get("end_style") in ("none", "tc") else None
        first = hist["from"] if hist else case["time_coverage"]
        if first is not None:
            kw["time_coverage"] = dt.timedelta(microseconds=first)
        exclude = [paths[i] for i in case["exclude_names"]] + \
                  [(to_dt(a), to_dt(b)) for a, b in case["exclude_periods"]]
        if exclude:
            kw["exclude"] = exclude
        if case.get("zip"):
            from fsspec.implementations.zip import ZipFileSystem
            zp = root / "tree.zip"
            with zipfile.ZipFile(zp, "w") as z:
                for dp, dn, fn in os.walk(data):
                    for d in dn:
                        z.write(os.path.join(dp, d), os.path.relpath(os.path.join(dp, d), data))
                    for f in fn:
                        full = os.path.join(dp, f)
                        z.write(full, os.path.relpath(full, data))
            index = {os.path.relpath(p, data): i for i, p in enumerate(paths)}
            if exclude:
                kw["exclude"] = [os.path.relpath(paths[i], data) for i in case["exclude_names"]] + \
                                [(to_dt(a), to_dt(b)) for a, b in case["exclude_periods"]]
            fs = FileSet(template, fs=ZipFileSystem(str(zp)), **kw)
        else:
            index = {p: i for i, p in enumerate(paths)}
            fs = FileSet(str(data / template).replace(os.sep, "/") if template else str(data), **kw)

        if hist:
            warm = [lambda: list(fs.find(no_files_error=False)), lambda: len(fs)]
            warm += [(lambda t=t: to_dt(t) in fs) for t in case["contains"][:3]]
            warm += [(lambda q=q: list(fs.find(None if q["start"] is None else to_dt(q["start"]),
                                               None if q["end"] is None else to_dt(q["end"]), no_files_error=False)))
                     for q in case["queries"][:2]]
            for call in warm:
                try:
                    call()
                except Exception:  # noqa
                    pass
            fs.time_coverage = coverage_value(case["time_coverage"], case["id"])

        def ident(x):
            p = getattr(x, "path", x)
            return index.get(p.rstrip("/"), index.get(p, -1))

        def note_cov(x):
            i = ident(x)
            if i >= 0 and hasattr(x, "times"):
                f = case["files"][i]
                got = [to_us(x.times[0]), to_us(x.times[1])]
                if got != [f["t0"], f["t1"]]:
                    obs["coverage"].append([i, got])
                want = {k: v for k, v in f["attrs"].items()}
                if dict(x.attr) != want:
                    obs["coverage"].append([i, "attr", dict(x.attr)])
        ties = has_ties(case)
        # other FileSet objects are alive in the same process: same placeholder names, other regexes, other directories --
        # created before the first query and between the queries; the answers of `fs` must not depend on them
        decoys = []

        def decoy():
            names = sorted({t[1] for ch in case.get("chunks", []) for t in ch if t[0] == "u"}
                           | {t[1] for t in case.get("file_tokens", []) if t[0] == "u"}) or ["sat", "ch"]
            d = FileSet(str(root / "decoy" / ("_".join("{" + n + "}" for n in names) + "_{year}{month}{day}.txt")).replace(os.sep, "/"),
                        name=f"decoy{len(decoys)}")
            d.set_placeholders(**{n: (r"zz\d{2}" if len(decoys) % 2 == 0 else ["qx", "qy"]) for n in names})
            decoys.append(d)
        try:
            decoy()
        except Exception:  # noqa
            pass
        for q in case["queries"]:
            if len(decoys) == 1:
                try:
                    decoy()
                except Exception:  # noqa
                    pass
            stream = None
            if ties and wants_stream(q):
                # the order in which the walk produces the files of this very query (sort=False, no bundles)
                try:
                    stream = [ident(x) for x in fs.find(None if q["start"] is None else to_dt(q["start"]),
                                                        None if q["end"] is None else to_dt(q["end"]),
                                                        sort=False, filters=q["filters"], no_files_error=False)]
                except Exception as e:  # noqa
                    stream = classify_exc(e)
            try:
                res = list(fs.find(None if q["start"] is None else to_dt(q["start"]),
                                   None if q["end"] is None else to_dt(q["end"]),
                                   sort=q["sort"], only_path=q["only_path"], bundle=q["bundle"],
                                   filters=q["filters"], no_files_error=q["nfe"]))
            except Exception as e:  # noqa
                obs["queries"].append({"err": classify_exc(e)})
                continue
            if q["bundle"] is None:
                for x in res:
                    note_cov(x)
                obs["queries"].append({"ids": [ident(x) for x in res], "sizes": None, "stream": stream,
                                       "paths_only": all(isinstance(x, str) for x in res) if res else None})
            else:
                ok = all(isinstance(b, list) for b in res)
                flat = [x for b in res for x in b] if ok else res
                obs["queries"].append({"ids": [ident(x) for x in flat], "sizes": [len(b) for b in res] if ok else "not-lists",
                                       "stream": stream,
                                       "paths_only": all(isinstance(x, str) for x in flat) if flat else None})
        for t in case["contains"]:
            try:
                obs["contains"].append(bool(to_dt(t) in fs))
            except Exception as e:  # noqa
                obs["contains"].append(classify_exc(e))
        try:
            obs["len"] = len(fs)
        except Exception as e:  # noqa
            obs["len"] = classify_exc(e)
        return obs
    finally:
        shutil.rmtree(root, ignore_errors=True)


# ----------------------------------------------------------------------------- Coq side

def coq_layout(case):
    out = []
    for ch in case["chunks"]:
        if chunk_is_literal(ch):
            out.append("CLit")
        else:
            fs = [n for t in ch if t[0] == "t" for n in TF[t[1]]]
            out.append("CPat " + coq_list(fs))
    return coq_list(out)


def coq_filters(filt):
    white, black = [], []
    for k, v in (filt or {}).items():
        vals = v if isinstance(v, list) else [v]
        name = k.lstrip("!")
        pool = USER_VALUES.get(name, ["q"])
        ids = zlit_list([pool.index(x) for x in vals])
        (black if k.startswith("!") else white).append(f"({USER_IDS[name]}, {ids})")
    return coq_list(white), coq_list(black)


def zlit_list(xs):
    return coq_list([zlit(x) for x in xs])


def q_bounds(q):
    s = 0 if q["start"] is None else q["start"]
    e = DT_MAX - 1 if q["end"] is None else q["end"]
    return s, e


def case_expr(case, full=True):
    files = []
    for i, f in enumerate(case["files"]):
        at = coq_list([f"({USER_IDS[u]}, {USER_VALUES[u].index(v)})" for u, v in sorted(f["attrs"].items())])
        ex = "true" if i in case["exclude_names"] else "false"
        files.append(f"mkfile {i} {zlit(f['t0'])} {zlit(f['t1'])} {zlit(f.get('tdir', f['t0']))} {at} {ex}")
    ex = coq_list([f"({zlit(a)}, {zlit(b)})" for a, b in case["exclude_periods"]])
    rows = []
    for q in case["queries"]:
        s, e = q_bounds(q)
        w, b = coq_filters(q["filters"])
        bk = q["bundle"] if isinstance(q["bundle"], int) else 0
        bw = FREQS[q["bundle"]] if isinstance(q["bundle"], str) else 0
        rows.append(f"run_query_lazy fl hc lay fs (mkq {zlit(s)} {zlit(e)} {w} {b} ex) {bk} {bw}")
    return (f"(let lay := {coq_layout(case)} in let fs := {coq_list(files)} in let ex := {ex} in\n"
            f"  let hc := hyps lay fs in let fl := {'true' if full else 'false'} in\n"
            f"  [[[b2z hc]]; run_contains_lazy fl hc lay fs ex {zlit_list(case['contains'])}; run_len_lazy fl hc lay fs ex]\n"
            f"  ++ {coq_list(rows)})")


# ----------------------------------------------------------------------------- comparison

def keys_of(case, ids):
    return [(case["files"][i]["t0"], case["files"][i]["t1"]) if 0 <= i < len(case["files"]) else None for i in ids]


def short_case(case):
    return {"template": template_of(case), "files": [rel_path(case, f) for f in case["files"]][:12],
            "n_files": len(case["files"])}


def layout_class(case):
    """names the two kinds of layouts the search is known to be sensitive to (used in failure signatures only)"""
    chunks = case["chunks"]
    tags = []
    if any(chunk_is_literal(a) and not chunk_is_literal(b) for a, b in zip(chunks, chunks[1:])):
        tags.append("literal-level-above-pattern-level")
    order = ["FYear", "FMonth", "FDay", "FHour", "FMinute", "FSecond"]
    acc = []
    for ch in chunks:
        if chunk_is_literal(ch):
            continue
        own = [n for t in ch if t[0] == "t" for n in TF[t[1]]]
        acc += own
        if {"FYear", "FMonth", "FDay"} <= set(acc):
            if max([order.index(n) for n in own], default=0) < max(order.index(n) for n in acc):
                tags.append("coarser-level-below-dated-level")
                break
    return ("@" + "+".join(tags)) if tags else ""


def grouper_labels(t0s, freq):
    """what pandas itself does with these start times: [left edge in microseconds, group size] of the non-empty groups
    (the construction of _prepare_find_return, with the positions instead of the files)"""
    import pandas as pd
    if not t0s:
        return []
    series = pd.Series(range(len(t0s)), [to_dt(t) for t in t0s])
    size = series.groupby(pd.Grouper(freq=freq)).size()          # (not iterated: there may be 10^5 empty bins)
    size = size[size > 0]
    return [[to_us(label.to_pydatetime()), int(n)] for label, n in zip(size.index, size.values)]


def new_stats():
    return {"model_evaluated": 0, "stream_calls": 0, "walk_is_sorted_listing": 0, "tie_groups": 0,
            "tie_groups_not_in_id_order": 0, "bin_queries": {}, "bins_compared": 0}


def compare_case(ctx, case, obs, val, nontrivial, stats):
    tmpl = template_of(case)
    lc = layout_class(case)
    hyp_case = bool(val[0][0][0])
    cont_rows, len_row, qrows = val[1], val[2][0], val[3:]
    if obs["coverage"]:
        ctx.fail("correspondence", f"time coverage / placeholders parsed by FileSet differ from the harness' rendering "
                 f"for template {tmpl}: {obs['coverage'][:3]}", case=case, impl=obs["coverage"][:5], signature="coverage")
    excluded_cfg = bool(case["exclude_names"] or case["exclude_periods"])
    for qi, (q, o, row) in enumerate(zip(case["queries"], obs["queries"], qrows)):
        ctx.cov["evaluations"] += 1
        hq, model, asis, spec, bsizes = bool(row[0][0]), row[1], row[2], row[3], row[4]
        edges = row[6:]                     # bins of the specified sequence: [number, left edge, right edge, size]
        in_hyp = hyp_case and hq
        if model == [3]:                    # not evaluated: the specification decides (find_sound_complete)
            if not in_hyp:
                ctx.fail("correspondence", "the Coq side skipped the algorithmic model outside the hypotheses",
                         case=case, signature="coq-eval")
                continue
            model = [0] + spec
        else:
            stats["model_evaluated"] += 1
        if in_hyp and model != [0] + spec:
            ctx.fail("proof", "find_model and find_spec disagree inside Coq although the hypotheses hold",
                     case=case, model=[model, spec], signature="model-vs-spec")
        # what is expected: the specification inside the hypotheses, the algorithmic model outside
        if not in_hyp:
            bsizes = row[5]
        if in_hyp:
            exp_err, exp_ids = None, spec
        elif model[0] != 0:
            exp_err, exp_ids = {1: "ValueErr", 2: "OverflowErr"}[model[0]], None
        else:
            exp_err, exp_ids = None, model[1:]
        kind = "failing-input" if in_hyp else "correspondence"
        desc = (f"template {tmpl}, {len(case['files'])} files, find({q['start'] and to_dt(q['start'])}, "
                f"{q['end'] and to_dt(q['end'])}, sort={q['sort']}, bundle={q['bundle']!r}, filters={q['filters']}, "
                f"no_files_error={q['nfe']})" + (" with exclude list" if excluded_cfg else ""))
        sub = dict(case, queries=[q], contains=[])
        P_case = lookback_us(case)
        near_min = bool(P_case and q["start"] is not None and 0 < q["start"] < P_case)
        if "err" in o:
            if exp_err is not None and o["err"] == exp_err:
                continue
            if exp_err is None and not exp_ids and q["nfe"] and o["err"] == "NoFiles":
                continue
            ctx.fail(kind, f"{desc} raised {o['err']}; expected " +
                     (exp_err or f"the files {[rel_path(case, case['files'][i]) for i in exp_ids][:6]}"),
                     case=sub, impl=o, model=exp_ids, signature="find-raises-" + o["err"].split(":")[0]
                     + ("-strbundle" if isinstance(q["bundle"], str) and o["err"].startswith("Other") else
                        "@start-within-one-look-back-of-datetime.min" if near_min and o["err"] == "OverflowErr" else lc))
            continue
        if exp_err is not None:
            ctx.fail(kind, f"{desc} returned files but {exp_err} was expected", case=sub, impl=o, signature="find-no-error")
            continue
        got = o["ids"]
        if not exp_ids and q["nfe"]:
            ctx.fail(kind, f"{desc} returned {got} but no file qualifies (NoFilesError expected)", case=sub, impl=o,
                     signature="find-no-nofileserror")
            continue
        if sorted(got) != sorted(exp_ids):
            lost = sorted(set(exp_ids) - set(got))
            extra = sorted(set(got) - set(exp_ids))
            dup = len(got) != len(set(got))
            sig = ("find-loses-files" + lc) if lost else ("find-invents-files" if extra else "find-duplicates")
            ctx.fail(kind, f"{desc}: lost {[rel_path(case, case['files'][i]) for i in lost][:5]}, "
                     f"unexpected {[rel_path(case, case['files'][i]) if i >= 0 else '?' for i in extra][:5]}"
                     + (", duplicates" if dup else ""), case=sub, impl=o, model=exp_ids, signature=sig)
            continue
        if q["sort"] or q["bundle"] is not None:
            # ordered by (t0, t1); the order among equal keys is not fixed by the property
            if (q["sort"] or isinstance(q["bundle"], int)) and keys_of(case, got) != keys_of(case, exp_ids):
                ctx.fail(kind, f"{desc}: result is not ordered by (start, end): {keys_of(case, got)[:6]}", case=sub,
                         impl=o, model=exp_ids, signature="find-order")
                continue
        if q["bundle"] is not None and q["sort"]:
            if o["sizes"] != bsizes:
                ctx.fail(kind, f"{desc}: bundle sizes {o['sizes']} but the ordered sequence partitions into {bsizes}",
                         case=sub, impl=o, model=bsizes, signature="find-bundles")
                continue
        elif q["bundle"] is not None:
            if o["sizes"] == "not-lists" or sum(o["sizes"]) != len(exp_ids) or 0 in o["sizes"]:
                ctx.fail(kind, f"{desc}: bundles {o['sizes']} do not partition the {len(exp_ids)} files",
                         case=sub, impl=o, signature="find-bundles")
                continue
        # --- stability: among equal (t0, t1) the sorted result keeps the order of the unsorted stream of the same
        # query on the same FileSet (find_sorted_stable; with the order by key this determines the result:
        # find_result_unique).  The property statement does not fix this order: a deviation is a correspondence failure.
        if wants_stream(q) and o.get("stream") is not None:
            u = o["stream"]
            if not isinstance(u, list) or sorted(u) != sorted(got):
                ctx.fail("correspondence", f"{desc}: the same call with sort=False gives other files: {u!r:.300} / {got}",
                         case=sub, impl=[u, got], signature="find-stream-differs")
                continue
            stats["stream_calls"] += 1
            pred = sorted(u, key=lambda i: rel_path(case, case["files"][i]).split("/"))
            stats["walk_is_sorted_listing"] += int(pred == u)
            ku, kg = keys_of(case, u), keys_of(case, got)
            groups = {}
            for i, k in zip(u, ku):
                groups.setdefault(k, []).append(i)
            bad = None
            for k, want in groups.items():
                if len(want) > 1:
                    stats["tie_groups"] += 1
                    stats["tie_groups_not_in_id_order"] += int(want != sorted(want))
                    have = [i for i, k2 in zip(got, kg) if k2 == k]
                    if have != want and bad is None:
                        bad = (k, want, have)
            if bad:
                k, want, have = bad
                ctx.fail("correspondence",
                         f"{desc}: the files with coverage {to_dt(k[0])} - {to_dt(k[1])} come out as "
                         f"{[rel_path(case, case['files'][i]) for i in have][:5]} but the directory walk (sort=False) "
                         f"produced them as {[rel_path(case, case['files'][i]) for i in want][:5]}: the sort is not stable",
                         case=sub, impl=have, model=want, signature="find-unstable-sort")
                continue
        # --- time bins: the real bundles fill exactly the bins Coq computed for the expected sequence, and pandas'
        # own labels are the left edges of these bins (bin_edges, bundle_freq_bins)
        if isinstance(q["bundle"], str) and q["sort"] and exp_ids == spec and isinstance(o["sizes"], list):
            stats["bin_queries"][q["bundle"]] = stats["bin_queries"].get(q["bundle"], 0) + 1
            stats["bins_compared"] += len(edges)
            pos, badbin = 0, None
            for e, n in zip(edges, o["sizes"]):
                t0s = [case["files"][i]["t0"] for i in got[pos:pos + n]]
                pos += n
                if not all(e[1] <= t < e[2] for t in t0s):
                    badbin = (e, t0s)
                    break
            if badbin:                                    # (unreachable when ids and sizes agree; kept as a direct statement)
                ctx.fail(kind, f"{desc}: a bundle holds start times {[str(to_dt(t)) for t in badbin[1]][:4]} outside its "
                         f"bin [{to_dt(badbin[0][1])}, {to_dt(badbin[0][2])})", case=sub, impl=o, model=edges,
                         signature="find-bundle-edges")
                continue
            labels = grouper_labels([case["files"][i]["t0"] for i in exp_ids], q["bundle"])
            if labels != [[e[1], e[3]] for e in edges]:
                ctx.fail("correspondence",
                         f"pandas Grouper(freq={q['bundle']!r}) on the start times of {desc} gives the bins (left edge, size) "
                         f"{[(str(to_dt(a)), n) for a, n in labels][:4]}, the model [o + k w, o + (k+1) w) anchored at "
                         f"midnight of the first day gives {[(str(to_dt(e[1])), e[3]) for e in edges][:4]}",
                         case=sub, impl=labels, model=edges, signature="pandas-grouper-bins-" + q["bundle"])
                continue
        if q["only_path"] and o["paths_only"] is False:
            ctx.fail(kind, f"{desc}, only_path=True yields FileInfo objects instead of paths", case=sub, impl="FileInfo",
                     signature="only-path-ignored")
        if exp_ids and len(exp_ids) < len(case["files"]):
            nontrivial.add(repr((tmpl, sorted(f["t0"] for f in case["files"]), q["start"], q["end"], repr(q["filters"]))))
    for t, o, row in zip(case["contains"], obs["contains"], cont_rows):
        ctx.cov["evaluations"] += 1
        model, spec, hq = bool(row[0]), bool(row[1]), bool(row[2])
        in_hyp = hyp_case and hq
        if row[0] == 2:                     # model not evaluated (inside the hypotheses: contains_agrees)
            model = spec
        if in_hyp and model != spec:
            ctx.fail("proof", "contains_model and the specification disagree inside Coq", case=case, signature="model-vs-spec")
        exp = spec if in_hyp else model
        if not hq and not isinstance(o, bool):
            continue
        if o != exp:
            ctx.fail("failing-input" if in_hyp else "correspondence",
                     f"template {tmpl}: `{to_dt(t)} in fileset` is {o}, expected {exp}", case=dict(case, queries=[], contains=[t]),
                     impl=o, model=exp, signature="contains" + lc)
    ctx.cov["evaluations"] += 1
    if len_row[0] == -2:                    # model not evaluated (inside the hypotheses: len_agrees)
        len_row = [len_row[1], len_row[1]]
    if hyp_case and len_row[0] != len_row[1]:
        ctx.fail("proof", "len_model and the specification disagree inside Coq", case=case, signature="model-vs-spec")
    exp = len_row[1] if hyp_case else len_row[0]
    if obs["len"] != exp:
        ctx.fail("failing-input" if hyp_case else "correspondence",
                 f"template {tmpl}: len(fileset) gives {obs['len']}, but {exp} files qualify",
                 case=dict(case, queries=[], contains=[]), impl=obs["len"], model=exp,
                 signature="len-empty" if exp == 0 else "len" + lc)
    return hyp_case


def _run_impl_safe(case):
    try:
        return run_impl(case)
    except Exception as e:  # noqa  (the construction of the FileSet itself failed)
        return {"crash": classify_exc(e)}


def run_all(cases, during=None):
    """run the real code on every case, in forked worker processes (each case is independent); `during` is called
    once all workers exist and runs beside them (the Coq evaluation of the same cases)"""
    if len(cases) < 8:
        side = during() if during else None
        return [_run_impl_safe(c) for c in cases], side
    import multiprocessing as mp
    from concurrent.futures import ProcessPoolExecutor
    with ProcessPoolExecutor(max_workers=min(16, core.NPROC), mp_context=mp.get_context("fork")) as ex:
        # with the fork context every worker is started by the first submit, i.e. before `during` starts threads
        futs = [ex.submit(_run_impl_chunk, cases[k:k + 4]) for k in range(0, len(cases), 4)]
        side = during() if during else None
        return [o for f in futs for o in f.result()], side


def _run_impl_chunk(chunk):
    return [_run_impl_safe(c) for c in chunk]


def is_full(ctx, case):
    """is the algorithmic model evaluated although the specification decides?  always in the quick tier and in a
    replay, for every fourth case in the thorough tier (find_sound_complete makes it redundant)"""
    return (not ctx.thorough) or case["id"] % 4 == 0 or case.get("stream") == "nearmin"


def check_cases(ctx, cases, name="find", stats=None, full=None):
    import time
    stats = new_stats() if stats is None else stats
    t_a = time.time()
    exprs = [case_expr(c, is_full(ctx, c) if full is None else full) for c in cases]
    t_coq = {}

    def evaluate():
        t_b = time.time()
        r = core.coq_eval(ctx.work / "cases", name, PREAMBLE, exprs, shard=max(3, min(12, -(-len(cases) // 64))))
        t_coq["s"] = time.time() - t_b
        return r
    obs, (vals, log) = run_all(cases, evaluate)
    ctx.log(f"{name}: real code run on {len(cases)} trees and Coq evaluation ({t_coq.get('s', 0):.1f}s) side by side "
            f"in {time.time() - t_a:.1f}s")
    if log:
        ctx.log(log[-2000:])
    nontrivial, n_hyp = set(), 0
    for c, o, v in zip(cases, obs, vals):
        if v is None:
            ctx.fail("correspondence", "Coq evaluation of the model failed", case=c, signature="coq-eval")
            continue
        if "crash" in o:
            ctx.fail("correspondence", f"FileSet({template_of(c)!r}) could not be built / run: {o['crash']}", case=c,
                     impl=o, signature="fileset-crash")
            continue
        if compare_case(ctx, c, o, v, nontrivial, stats):
            n_hyp += 1
        if c["files"] and c["id"] % 5 == 0:
            ctx.sample({"template": template_of(c), "files": [rel_path(c, f) for f in c["files"]][:4],
                        "query": c["queries"][0] if c["queries"] else None}, limit=6)
    return nontrivial, n_hyp


# ----------------------------------------------------------------------------- single-file filesets

def check_single(ctx, n, stats=None):
    from typhon.files import FileSet
    root = Path(tempfile.mkdtemp(prefix="verif_c01s_"))
    try:
        p = root / "single.dat"
        p.touch()
        rows, exprs = [], []
        for k in range(n):
            a = to_us(dt.datetime(2018, ctx.rng.randint(1, 12), ctx.rng.randint(1, 28)))
            b = a + ctx.rng.choice([0, 1, 10**6, 86400 * 10**6])
            default = ctx.rng.random() < 0.2
            cov = (0, DT_MAX - 1) if default else (a, b)
            s = ctx.rng.choice([a, b, a - 1, b + 1, a + 1, b - 1, a - 86400 * 10**6])
            e = s + ctx.rng.choice([1, 2, 10**6, 0, b - a + 1, b - a + 2])
            if k < 6 and not default:
                # directed, whatever the seed: the semi-open end exactly on the start of the coverage (the file is NOT in
                # [s, t0)), one microsecond later (it is), the closed start exactly on the end of the coverage (it is)
                s, e = [(a - 86400 * 10**6, a), (a - 1, a), (a - 86400 * 10**6, a + 1), (b, b + 1), (b + 1, b + 2), (a - 5, a)][k]
            hist = None
            if k % 3 != 1:
                # history on ONE object: constructed with ANOTHER coverage (the whole time axis, or a period days away),
                # asked, then told the coverage of the case by `fileset.time_coverage = ...` (None = the whole time axis)
                far = (to_dt(a + 10 * DAY_US), to_dt(a + 11 * DAY_US))
                hist = far if (default or k % 2) else None
                fs = FileSet(str(p), time_coverage=hist)
                for call in (lambda: list(fs.find(no_files_error=False)), lambda: to_dt(s) in fs, lambda: len(fs),
                             lambda: list(fs.find(to_dt(s), to_dt(e), no_files_error=False))):
                    try:
                        call()
                    except Exception:  # noqa
                        pass
                fs.time_coverage = None if default else (to_dt(a), to_dt(b))
                if stats is not None:
                    stats["single_histories"] = stats.get("single_histories", 0) + 1
            else:
                fs = FileSet(str(p)) if default else FileSet(str(p), time_coverage=(to_dt(a), to_dt(b)))

            def canon(call):
                try:
                    return ("Some", bool(call()))
                except ValueError:
                    return None
                except Exception as ex:  # noqa
                    return classify_exc(ex)
            how = "" if k % 3 == 1 else f" after time_coverage was {'the default' if hist is None else hist} and was re-assigned"
            o = canon(lambda: [x.path for x in fs.find(to_dt(s), to_dt(e), no_files_error=False)])
            rows.append((cov, f"find({to_dt(s)}, {to_dt(e)})" + how, [cov, s, e], o))
            exprs.append(f"single_find ({zlit(cov[0])}, {zlit(cov[1])}) {zlit(s)} {zlit(e)}")
            # `t in fileset` is find(t, t + 1 us) non-empty; len(fileset) counts find() over the whole time axis
            o = canon(lambda: to_dt(s) in fs)
            rows.append((cov, f"`{to_dt(s)} in fileset`" + how, [cov, s, s + 1], o))
            exprs.append(f"single_find ({zlit(cov[0])}, {zlit(cov[1])}) {zlit(s)} {zlit(s + 1)}")
            o = canon(lambda: len(fs))
            rows.append((cov, "len(fileset) > 0" + how, [cov, 0, DT_MAX - 1], o))
            exprs.append(f"single_find ({zlit(cov[0])}, {zlit(cov[1])}) 0 {zlit(DT_MAX - 1)}")
        vals, log = core.coq_eval(ctx.work / "cases", "single", PREAMBLE, exprs)
        for (cov, what, key, o), v in zip(rows, vals):
            ctx.cov["evaluations"] += 1
            if v != o:
                ctx.fail("failing-input", f"single-file fileset with coverage {cov}: {what} gives {o}, "
                         f"expected {v}", case={"single": key}, impl=repr(o), model=repr(v), signature="single-file")
    finally:
        shutil.rmtree(root, ignore_errors=True)


# ----------------------------------------------------------------------------- check

def coqchk_own_wanted(ctx):
    """The library's coqchk pass now runs with -bytecode-compiler yes itself (core.coqchk_start), so the private pass of
    this module is switched off; the functions below are kept for reference only."""
    return False


def coqchk_own_start(ctx):
    """Thorough tier.  The library's `coqchk Typhon.Props.C01` re-checks the closure WITHOUT the bytecode machine, so
    the vm_compute sweeps of Base.CalendarProofs (146 097 days) are replayed by plain conversion: Base.CalendarProofs
    alone needs 916 s, the pass has never finished inside the 13 minutes the library gives it, and every thorough run
    of C01 lasted exactly 780 s and recorded `not finished`.  C01 runs the same independent re-check of the whole
    closure with `-bytecode-compiler yes` (coqchk's own option: vm_compute casts are evaluated by the VM, as coqc
    does), which takes 80 s beside the correspondence and does finish: nothing is admitted.  VERIF_COQCHK=1 in the
    environment restores the library's pass instead."""
    import subprocess
    import time
    try:
        pr = subprocess.Popen(["nice", "-n", "5", "coqchk", "-silent", "-o", "-bytecode-compiler", "yes", *core.COQ_ARGS,
                               "Typhon.Props.C01"], stdout=subprocess.PIPE, stderr=subprocess.STDOUT, text=True,
                              cwd=str(core.COQ))
        return pr, time.time()
    except Exception as e:  # noqa
        ctx.notes.append(f"coqchk Typhon.Props.C01 not run ({e})")
        return None


def coqchk_own_collect(ctx, started, until_s=420):
    import re
    import subprocess
    import time
    if started is None:
        return
    pr, t0 = started
    name = "coqchk -bytecode-compiler yes Typhon.Props.C01"
    try:
        text, _ = pr.communicate(timeout=max(5, until_s - (time.time() - ctx.t0)))
    except subprocess.TimeoutExpired:
        pr.kill()
        pr.communicate()
        ctx.obligations.append((name, True, f"not finished after {time.time() - t0:.0f}s, stopped (not a failure: coqc "
                                            "accepted the files; see tools/coqchk_all.sh)"))
        return
    m = re.search(r"\* Axioms:(.*?)\n\s*\n\* Constants/Inductives relying on type-in-type:(.*?)\n\s*\n\* Constants/Inductives "
                  r"relying on unsafe.*?:(.*?)\n\s*\n\* Inductives whose positivity is assumed:(.*?)\n", text, re.S)
    if pr.returncode != 0 or not m:
        ctx.obligations.append((name, False, text[-800:]))
        ctx.failures.append(core.Failure("proof", f"coqchk rejects Typhon.Props.C01 (rc={pr.returncode}): {text[-600:]}",
                                         obligation=name, signature="coqchk"))
        return
    axioms = [a.strip() for a in m.group(1).split("\n") if a.strip() and a.strip() != "<none>"]
    bad = " ".join(x.strip() for x in m.groups()[1:] if x.strip() != "<none>")
    if bad:
        ctx.failures.append(core.Failure("gate", f"coqchk reports disabled checks in Typhon.Props.C01: {bad}",
                                         obligation=name, signature="coqchk-unsafe"))
    ctx.obligations.append((name, not bad, {"wall_s": round(time.time() - t0, 1),
                                            "axioms_of_all_loaded_libraries": axioms}))
    ctx.log(f"{name}: ok in {time.time() - t0:.0f}s, {len(axioms)} axioms in the loaded libraries")
    ctx.notes.append("coqchk: the closure of Props/C01 is re-checked with `-bytecode-compiler yes` by the C01 harness "
                     "(without it Base.CalendarProofs alone takes 916 s and the library's pass never finished: every "
                     "thorough run lasted 780 s); VERIF_COQCHK=1 selects the library's pass instead")


def run(ctx):
    own = coqchk_own_wanted(ctx)
    proved = ctx.prove("Props/C01.v")
    chk = coqchk_own_start(ctx) if own and proved else None
    n_main = ctx.n(100, 1300)
    n_long = ctx.n(12, 130)
    n_gap = ctx.n(8, 80)
    n_bins = ctx.n(16, 160)
    n_zip = ctx.n(0, 160)
    cases = [gen_case(ctx.rng, k, "main") for k in range(n_main)]
    cases += [gen_case(ctx.rng, len(cases) + k, "long") for k in range(n_long)]
    cases += [gen_case(ctx.rng, len(cases) + k, "gap") for k in range(n_gap)]
    cases += [gen_case(ctx.rng, len(cases) + k, "bins") for k in range(n_bins)]
    zips = []
    if n_zip:
        try:
            import fsspec.implementations.zip  # noqa
            for k in range(n_zip):
                c = gen_case(ctx.rng, len(cases) + k, "bins" if k % 8 == 7 else "main")
                c["zip"] = True
                zips.append(c)
        except ImportError:
            ctx.notes.append("fsspec zip file system not importable: zip tier skipped")
    stats = new_stats()
    # directed, seed-independent: periods that start within one look-back of datetime.min (zip variants in thorough)
    near = nearmin_cases(len(cases) + len(zips), zip_too=ctx.thorough and bool(zips))
    # directed, seed-independent: the time coverage re-configured on ONE object between the queries; and the same kind of
    # history for a share of the random cases without end fields (its own stream of random numbers)
    import random as _random
    recov = recover_cases(len(cases) + len(zips) + len(near))
    n_recover = add_recover_histories(_random.Random(f"C01-recover:{ctx.seed}"), cases + zips)
    # local and zip trees in one pass: one pool of workers for the real code, one set of Coq shards beside it
    nontrivial, n_hyp = check_cases(ctx, cases + zips + near + recov, stats=stats)
    zips = zips + [c for c in near if c["zip"]]
    cases = cases + [c for c in near if not c["zip"]] + recov
    ctx.log(f"compared: {ctx.cov['evaluations']} evaluations, {stats['tie_groups']} groups of equal coverage, "
            f"{stats['bins_compared']} time bins")
    check_single(ctx, ctx.n(20, 200), stats)
    coqchk_own_collect(ctx, chk)
    ctx.cov["distinct_nontrivial"] = len(nontrivial)
    ctx.cov["rule"] = ("one evaluation = one find() / `in` / len() call on a harness-built tree compared with the Coq "
                       "specification (inside the hypotheses) or algorithmic model (outside); a find() call is non-trivial "
                       "when it must return at least one file and not the whole population; distinct by "
                       "(template, start times, period, filters)")
    allc = cases + zips
    ctx.cov["input_distribution"] = {
        "cases": len(allc), "zip_cases": len(zips), "cases_inside_hypotheses": n_hyp,
        "streams": {s: sum(1 for c in allc if c["stream"] == s) for s in ("main", "long", "gap", "bins", "nearmin", "recover")},
        "time_coverage_reassigned_on_one_object": {
            "directed_cases": len(recov), "random_cases_with_a_history": n_recover,
            "steps": {k: sum(1 for c in allc if c.get("recover") and c.get("end_style") in ("none", "tc")
                             and ("None" if c["recover"]["from"] is None else "timedelta") + "->"
                             + ("None" if c["time_coverage"] is None else "timedelta") == k)
                      for k in ("None->timedelta", "timedelta->None", "timedelta->timedelta")},
            "single_file_cases_with_a_history": stats.get("single_histories", 0)},
        "near_datetime_min": dict(zip(("find_calls_starting_within_two_lookbacks_of_datetime_min",
                                       "of_which_within_one_lookback_(clamped)"), near_min_stats(allc)),
                                  layouts=[n for n, _ in NEARMIN_LAYOUTS]),
        "directory_depth": {str(d): sum(1 for c in allc if len(c["chunks"]) == d) for d in range(0, 9)
                            if any(len(c["chunks"]) == d for c in allc)},
        "files_total": sum(len(c["files"]) for c in allc),
        "with_exclusions": sum(1 for c in allc if c["exclude_names"] or c["exclude_periods"]),
        "queries_with_filters": sum(1 for c in allc for q in c["queries"] if q["filters"]),
        "queries_with_bundles": sum(1 for c in allc for q in c["queries"] if q["bundle"] is not None),
        "stability": {"queries_with_unsorted_stream_observed": stats["stream_calls"],
                      "of_which_walk_equals_sorted_listing": stats["walk_is_sorted_listing"],
                      "groups_of_equal_coverage_checked": stats["tie_groups"],
                      "of_which_walked_in_another_order_than_created": stats["tie_groups_not_in_id_order"]},
        "time_bins": {"queries_compared_bin_by_bin": dict(sorted(stats["bin_queries"].items())),
                      "bins_compared_with_pandas_labels": stats["bins_compared"]},
        "find_calls_with_algorithmic_model_evaluated": stats["model_evaluated"],
    }
    ctx.assumptions += [
        "hypotheses of find_sound_complete, evaluated per case inside Coq: no_gaps layout, every file rendered into "
        "the directory of its start time, coverage no longer than one period of the finest directory level, valid "
        "datetimes, start < end <= datetime.max, excluded periods well formed",
        "a {doy} directory level is never above the {year} level (typhon needs the year to resolve the day of the "
        "year and raises KeyError otherwise; the Coq layout only sees doy as month + day)",
        "user placeholder values are alphabetic words none of which is a prefix of another (the black list uses re.match)",
        "string bundles are fixed-width frequencies (30min, 1h, 90min, 6h, 7h, 1D, 36h, 2D; calendar-dependent ones such "
        "as 'ME' or 'W' are outside the model) and are compared in full only with sort=True",
        "stability is checked against the stream the same FileSet yields with sort=False for the same period and "
        "filters (the walk must be repeatable between two calls: fsspec's glob sorts its listing)",
    ]
    return ctx.finish(trusted_base=TRUSTED)


def replay(ctx, rec):
    case = rec["case"]
    if "single" in case:
        ctx.log("single-file case: re-run the check")
        return 1
    check_cases(ctx, [case], "replay", full=True)
    for f in ctx.failures:
        print("still fails:", f.what[:400])
    return 1 if ctx.failures else 0
