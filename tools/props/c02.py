"""C02 -- file names generated from a template parse back to the same times and attributes.

Theorems: coq/theories/Props/C02.v about the model coq/theories/Model/C02_template.v (render = get_filename,
matcher = the regex _fill_placeholders builds + re.match, retrieve/info = the time arithmetic of get_info), on top
of the calendar library coq/theories/Base/Calendar*.v.

Tie, on every run: (1) the constant tables of the tree under test (_time_placeholder widths, _temporal_resolution,
year2_threshold) are compared with the tables of the model; (2) grammar-generated templates x periods x fillings
are pushed through the REAL FileSet.get_filename / parse_filename / get_info (stub FileHandler for 'handler' and
'both') and through the model inside Coq (vm_compute); (3) independently of the model, the property's own law is
evaluated on the implementation's output for every case that satisfies the theorems' hypotheses (those booleans
are computed in Coq): start = s, attributes = fill, end = e / the promised completion / start + coverage, every
placeholder string recovered (compared with the harness's own field renderer), malformed names rejected.
A law violation is a failing input; a model/implementation difference without law violation is a broken
correspondence (reported as no-failing-input-found).
(4) Every name the implementation ACCEPTS (generated or malformed) must be an instance of the template with the
dictionary it returned (theorem parse_sound): the harness searches the occurrence strings / `*` words itself
(find_instance) and Coq checks the certificate with `assemble` (run_instance; theorem instance_certificate); no
certificate = the implementation mis-parsed a non-matching name.  (5) In the exact class of the sub-day end kind
(hypotheses of end_partial_exact, evaluated in Coq as exact_hyp) the reported end must be e itself.
"""
import datetime as dt

from lib import core
from lib.core import zlit, coq_list, coq_string

PREAMBLE = ("From Typhon Require Import Base.Calendar Model.C02_template.\n"
            "Open Scope string_scope.\n")
TRUSTED = [
    "correspondence harness tools/props/c02.py (template grammar, tokeniser of the generated templates, own field "
    "renderer used as oracle for the recovered placeholder strings, error enum mapping; find_instance only has to be "
    "complete -- every witness it returns is checked by `assemble` in Coq, theorem instance_certificate)",
    "Python re (priority semantics of lazy quantifiers / alternation on the generated regex family), str.format, "
    "datetime, os.path.abspath: modelled, exercised by the correspondence, not verified",
    "names are ASCII without newline (re's unicode \\d and '$' before a trailing newline are outside the statement)",
]
MIN = dt.datetime.min
US = dt.timedelta(microseconds=1)
DT_LAST = (dt.datetime.max - MIN) // US          # datetime.max in microseconds since datetime.min
FIELDS = ["year", "year2", "month", "day", "doy", "hour", "minute", "second",
          "decisecond", "centisecond", "millisecond", "microsecond"]
CTOR = {"year": "FYear", "year2": "FYear2", "month": "FMonth", "day": "FDay", "doy": "FDoy", "hour": "FHour",
        "minute": "FMinute", "second": "FSecond", "decisecond": "FDeci", "centisecond": "FCenti",
        "millisecond": "FMilli", "microsecond": "FMicro"}
SUB = ["hour", "minute", "second", "millisecond"]
UNIT = {"hour": 86400 * 10**6, "minute": 3600 * 10**6, "second": 60 * 10**6}
RES_US = {"hour": 3600 * 10**6, "minute": 60 * 10**6, "second": 10**6, "millisecond": 1000}


def us_of(t):
    return (t - MIN) // US


def of_us(u):
    return MIN + dt.timedelta(microseconds=u)


# ----------------------------------------------------------------------------- templates
# token: ("lit", text) | ("t", end: bool, field) | ("u", name) | ("star",)
# user: name -> ("any",) | ("alts", [values]) | ("digits", n) | None (not registered)

def template_string(tokens):
    out = []
    for t in tokens:
        if t[0] == "lit":
            out.append(t[1])
        elif t[0] == "t":
            out.append("{" + ("end_" if t[1] else "") + t[2] + "}")
        elif t[0] == "u":
            out.append("{" + t[1] + "}")
        else:
            out.append("*")
    return "".join(out)


def merge_lits(tokens):
    out = []
    for t in tokens:
        if t[0] == "lit":
            if not t[1]:
                continue
            if out and out[-1][0] == "lit":
                out[-1] = ("lit", out[-1][1] + t[1])
                continue
        out.append(tuple(t))
    res = []
    for t in out:                      # os.path.abspath would collapse repeated separators of the template
        if t[0] == "lit":
            x = t[1]
            while "//" in x:
                x = x.replace("//", "/")
            t = ("lit", x)
        res.append(t)
    return res


def cs(s):
    return f"(s2l {coq_string(s)})"


def coq_tokens(tokens, user):
    items = []
    for t in tokens:
        if t[0] == "lit":
            items.append(f"Lit {cs(t[1])}")
        elif t[0] == "t":
            items.append(f"T {'true' if t[1] else 'false'} {CTOR[t[2]]}")
        elif t[0] == "u":
            k = user.get(t[1])
            if k is None:
                kk = "None"
            elif k[0] == "any":
                kk = "(Some UAny)"
            elif k[0] == "alts":
                kk = f"(Some (UAlts {coq_list([cs(v) for v in k[1]])}))"
            else:
                kk = f"(Some (UDigits {int(k[1])}%nat))"
            items.append(f"U {cs(t[1])} {kk}")
        else:
            items.append("Star")
    return coq_list(items)


def coq_pairs(d):
    return coq_list([f"({coq_string(k)}, {coq_string(v)})" for k, v in d.items()])


def coq_optz(x):
    return "None" if x is None else f"(Some {zlit(x)})"


def coq_cfg(c):
    via = {"filename": "ViaFilename", "handler": "ViaHandler", "both": "ViaBoth"}[c["via"]]
    attrs = coq_list([f"({cs(k)}, {cs(v)})" for k, v in c["h_attr"].items()])
    return f"(Cfg {via} {coq_optz(c['coverage'])} {coq_optz(c['h_start'])} {coq_optz(c['h_end'])} {attrs})"


# ----------------------------------------------------------------------------- the harness's own field renderer

def own_text(field, t):
    if field == "year":
        return "%04d" % t.year
    if field == "year2":
        return "%02d" % (t.year % 100)
    if field == "month":
        return "%02d" % t.month
    if field == "day":
        return "%02d" % t.day
    if field == "doy":
        return "%03d" % t.timetuple().tm_yday
    if field == "hour":
        return "%02d" % t.hour
    if field == "minute":
        return "%02d" % t.minute
    if field == "second":
        return "%02d" % t.second
    if field == "millisecond":
        return "%03d" % (t.microsecond // 1000)
    if field == "decisecond":
        return "%01d" % (t.microsecond // 100000)
    if field == "centisecond":
        return "%02d" % (t.microsecond // 10000 % 100)
    return "%06d" % t.microsecond


def own_render(tokens, s, e, fill):
    out, binds = [], {}
    for t in tokens:
        if t[0] == "lit":
            out.append(t[1])
        elif t[0] == "t":
            x = own_text(t[2], e if t[1] else s)
            binds.setdefault(("end_" if t[1] else "") + t[2], x)
            out.append(x)
        elif t[0] == "u":
            x = fill.get(t[1], "q")
            binds.setdefault(t[1], x)
            out.append(x)
        else:
            out.append("xyz")
    return "".join(out), binds


# ----------------------------------------------------------------------------- instances of a template (parse_sound)

WIDTH = {"year": 4, "year2": 2, "month": 2, "day": 2, "doy": 3, "hour": 2, "minute": 2, "second": 2,
         "decisecond": 1, "centisecond": 2, "millisecond": 3, "microsecond": 6}     # compared with the tree by check_tables


def tok_key(t):
    return (("end_" if t[1] else "") + t[2]) if t[0] == "t" else t[1]


def is_digits(x):
    return x.isascii() and x.isdigit()


def find_instance(tokens, user, name, d):
    """Search the witness of `is_instance`: the string of every placeholder occurrence (in template order) and the words
    of the `*`s such that the template spells `name` (optionally followed by one newline), every string lies in the
    language of its placeholder's regex and the first occurrence of each key is d[key].  Returns (b, ws) with
    b = [(token, text)], or None when `name` is no instance of the template with this dictionary."""
    toks = [tuple(t) for t in tokens]
    n = len(name)
    first = {}
    for i, t in enumerate(toks):
        if t[0] in ("t", "u"):
            first.setdefault(tok_key(t), i)
    if set(first) != set(d):
        return None

    def in_lang(t, v):
        if t[0] == "t":
            return len(v) == WIDTH[t[2]] and is_digits(v)
        k = user.get(t[1])
        if k is None:
            return False
        if k[0] == "any":
            return v != "" and "\n" not in v
        if k[0] == "alts":
            return v in k[1]
        return len(v) == int(k[1]) and is_digits(v)

    def ends(i, pos):
        t = toks[i]
        if t[0] == "lit":
            return [pos + len(t[1])] if name.startswith(t[1], pos) else []
        if t[0] == "star":
            out, q = [pos], pos
            while q < n and name[q] != "\n":
                q += 1
                out.append(q)
            return out
        if first[tok_key(t)] == i:
            v = d[tok_key(t)]
            return [pos + len(v)] if isinstance(v, str) and name.startswith(v, pos) and in_lang(t, v) else []
        if t[0] == "t":
            w = WIDTH[t[2]]
            return [pos + w] if in_lang(t, name[pos:pos + w]) else []
        k = user.get(t[1])
        if k is None:
            return []
        if k[0] == "any":
            out, q = [], pos
            while q < n and name[q] != "\n":
                q += 1
                out.append(q)
            return out
        if k[0] == "alts":
            return [pos + len(v) for v in k[1] if name.startswith(v, pos)]
        w = int(k[1])
        return [pos + w] if in_lang(t, name[pos:pos + w]) else []

    dead = set()

    def go(i, pos):
        if i == len(toks):
            return [] if pos == n or (pos == n - 1 and name[pos] == "\n") else None
        if (i, pos) in dead:
            return None
        for q in ends(i, pos):
            if q > n:
                continue
            rest = go(i + 1, q)
            if rest is not None:
                return [(toks[i], name[pos:q])] + rest
        dead.add((i, pos))
        return None
    import sys
    lim = sys.getrecursionlimit()
    if lim < 4 * len(toks) + 200:
        sys.setrecursionlimit(4 * len(toks) + 200)
    w = go(0, 0)
    if w is None:
        return None
    return ([(t, x) for t, x in w if t[0] in ("t", "u")], [x for t, x in w if t[0] == "star"])


def coq_witness(tp, wit, name):
    b, ws = wit
    items = []
    for t, x in b:
        k = f"KT {'true' if t[1] else 'false'} {CTOR[t[2]]}" if t[0] == "t" else f"KU {cs(t[1])}"
        items.append(f"({k}, {coq_string(x)})")
    return (f"run_instance {tp} ({coq_list(items)} : list (key * string)) "
            f"({coq_list([coq_string(w) for w in ws])} : list string) {coq_string(name)}")


# ----------------------------------------------------------------------------- generators

SPECIAL_DAYS = [(2, 28), (2, 29), (3, 1), (12, 31), (1, 1), (12, 30), (1, 31), (4, 30), (7, 15), (10, 9)]
SEPS = ["_", "-", ".", "_", "-", "T", "Z", "", "", "v1.", "x", "_p", "-0", ".d."]
USEPS = ["_", "-", ".", "/", "__", "-v"]


def gen_time(rng, year2):
    if year2:
        y = rng.choice([1965, 1966, 1999, 2000, 2001, 2016, 2024, 2063, 2064, rng.randint(1965, 2064)])
    else:
        y = rng.choice([1000, 1001, 1600, 1899, 1900, 1999, 2000, 2016, 2017, 2100, 2400, 9998, 9999,
                        rng.randint(1000, 9999), rng.randint(1950, 2060)])
    if rng.random() < 0.7:
        m, d = rng.choice(SPECIAL_DAYS)
    else:
        m, d = rng.randint(1, 12), rng.randint(1, 31)
    while True:
        try:
            dt.date(y, m, d)
            break
        except ValueError:
            d -= 1
    style = rng.random()
    if style < 0.3:
        h, mi, se, us = 23, 59, 59, rng.choice([999000, 999999, 0, 500000])
    elif style < 0.5:
        h, mi, se, us = 0, 0, 0, rng.choice([0, 0, 1000, 1])
    else:
        h, mi, se, us = rng.randint(0, 23), rng.randint(0, 59), rng.randint(0, 59), rng.randint(0, 999999)
    return dt.datetime(y, m, d, h, mi, se, us)


def trunc_fields(t, spelt):
    """reset every sub-day field that is not spelt"""
    return t.replace(hour=t.hour if "hour" in spelt else 0, minute=t.minute if "minute" in spelt else 0,
                     second=t.second if "second" in spelt else 0,
                     microsecond=(t.microsecond // 1000 * 1000) if "millisecond" in spelt else 0)


def gen_case(rng, k, stream):
    """stream: 'law' (inside the statement), 'twist' (outside: algorithmic comparison only)"""
    year2 = rng.random() < 0.35
    ykind = "year2" if year2 else "year"
    dkind = rng.choice(["md", "md", "doy"])
    nsub = rng.choice([0, 1, 2, 2, 3, 3, 4])
    sub = SUB[:nsub]
    if rng.random() < 0.08 and nsub >= 2:                 # a gap in the start fields (e.g. hour + second)
        sub = [f for f in sub if f != rng.choice(sub[1:])] if len(sub) > 1 else sub
    date_fields = [ykind] + (["month", "day"] if dkind == "md" else ["doy"])
    if rng.random() < 0.1:
        date_fields = date_fields + (["doy"] if dkind == "md" else ["month", "day"])   # both spellings
    if rng.random() < 0.08:
        date_fields = date_fields + ["year" if year2 else "year2"]
        year2 = True
    # end fields
    ekind = rng.choice(["none", "none", "full", "full", "partial", "partial", "partial"])
    end_fields = []
    if ekind == "full":
        ey2 = rng.random() < 0.3
        end_fields = ["year2" if ey2 else "year"] + (["month", "day"] if rng.random() < 0.6 else ["doy"])
        extra = [f for f in SUB if f not in sub and rng.random() < 0.3]
        esub = [f for f in SUB if f in sub or f in extra]
        end_fields += esub
    elif ekind == "partial":
        c = rng.choice(["hour", "hour", "minute", "second"])
        i = SUB.index(c)
        depth = rng.randint(i, 3)
        end_fields = SUB[i:depth + 1]
        if rng.random() < 0.7 and nsub:                    # the exact class: every sub-unit field of the start
            end_fields = [f for f in SUB[i:] if f in sub or f in end_fields]
        if rng.random() < 0.05 and len(end_fields) > 2:
            end_fields = [end_fields[0]] + end_fields[2:]
    # user placeholders
    user, fill = {}, {}
    names = rng.sample(["sat", "orbit", "mode", "v"], rng.choice([0, 0, 1, 1, 2]))
    for nme in names:
        kind = rng.choice(["any", "any", "alts", "digits"])
        if kind == "any":
            user[nme] = ("any",)
            fill[nme] = "".join(rng.choice("abcNOAA0189") for _ in range(rng.randint(1, 6)))
        elif kind == "alts":
            vs = rng.choice([["noaa", "metop"], ["a", "b", "cc"], ["n18", "n19", "m01"], ["x"], ["L1B", "L2"]])
            user[nme] = ("alts", vs)
            fill[nme] = rng.choice(vs)
        else:
            n = rng.randint(1, 5)
            user[nme] = ("digits", n)
            fill[nme] = "".join(rng.choice("0123456789") for _ in range(n))
    # assemble: directory part and file part
    toks = [("lit", "/vt/")]
    if rng.random() < 0.5:                                 # temporal / user directories, placeholders repeated below
        levels = rng.choice([[ykind], [ykind, "month"], [ykind, "month", "day"], [ykind, "doy"], []])
        for f in levels:
            if f in date_fields or rng.random() < 0.5:
                toks += [("t", False, f), ("lit", "/")]
                if f not in date_fields:
                    date_fields.append(f)
        if names and rng.random() < 0.6:
            toks += [("u", names[0]), ("lit", "/")]
    if rng.random() < 0.4:
        toks.append(("lit", rng.choice(["data_", "MHS.", "f-", "a.b_", "S2"])))
    body = []
    for nme in names:
        if rng.random() < 0.7:
            body += [("u", nme), ("lit", rng.choice(USEPS))]
    for f in date_fields:
        body += [("t", False, f), ("lit", rng.choice(SEPS))]
    for f in sub:
        body += [("t", False, f), ("lit", rng.choice(SEPS))]
    if end_fields:
        body.append(("lit", rng.choice(["-", "_", "-e", "."])))
        for f in end_fields:
            body += [("t", True, f), ("lit", rng.choice(SEPS))]
    for nme in names:
        if rng.random() < 0.5:
            body += [("lit", rng.choice(USEPS)), ("u", nme)]
    toks += body
    toks.append(("lit", rng.choice([".nc", ".dat", ".h5", ".txt", "", ".hdf"])))
    # every declared user placeholder occurs at least once
    for nme in names:
        if ("u", nme) not in toks:
            toks[1:1] = [("u", nme), ("lit", "/")]
    # times
    s_spelt = set(sub)
    s = trunc_fields(gen_time(rng, year2), s_spelt)
    if ekind == "partial":
        unit = UNIT[end_fields[0]]
        res = RES_US[end_fields[-1]]
        delta = rng.choice([0, res, unit - res, unit, unit + res, rng.randrange(0, unit, res), rng.randrange(0, 3 * unit, res)])
    elif ekind == "full":
        delta = rng.choice([0, 1000, 86400 * 10**6 - 1000, 86400 * 10**6, 40 * 86400 * 10**6, 366 * 86400 * 10**6,
                            rng.randrange(0, 10**12), rng.randrange(0, 4 * 10**13)])
    else:
        delta = rng.choice([0, 10**6, 3600 * 10**6, rng.randrange(0, 10**11)])
    try:
        e = of_us(us_of(s) + delta)
    except OverflowError:
        e = s
    if ekind == "full":
        e = trunc_fields(e, set(end_fields))
        if "year2" in end_fields and not (1965 <= e.year <= 2064):
            e = s
        if e < s:
            e = s
    cfg = {"via": rng.choice(["filename"] * 6 + ["both", "both", "handler"]), "coverage": None,
           "h_start": None, "h_end": None, "h_attr": {}}
    if rng.random() < 0.4:
        cfg["coverage"] = rng.choice([3600 * 10**6, 10**6, 86400 * 10**6, 6 * 3600 * 10**6 + 1000])
    if cfg["via"] != "filename":
        hs = us_of(gen_time(rng, False))
        style = rng.random()
        if style < 0.35:
            cfg["h_start"], cfg["h_end"] = hs, min(hs + rng.randrange(0, 10**10), DT_LAST)
        elif style < 0.55:
            cfg["h_end"] = hs
        elif style < 0.7:
            cfg["h_start"] = hs
        if rng.random() < 0.6:
            cfg["h_attr"] = {rng.choice(names + ["source", "sat"]): rng.choice(["H", "handler-v", "7"])}
    if k % 6 == 1 and not any(t[0] == "t" and t[1] for t in toks):
        # whatever the seed: a template without end fields, info_via='both', a time_coverage and a handler that knows only
        # the start (another one than the name's) -- the end must be the handler's start + time_coverage
        cfg.update({"via": "both", "coverage": rng.choice([3600 * 10**6, 6 * 3600 * 10**6 + 1000, 86400 * 10**6]),
                    "h_start": us_of(gen_time(rng, False)), "h_end": None})
    case = {"id": k, "stream": stream, "tokens": merge_lits(toks), "user": user, "fill": fill,
            "s": us_of(s), "e": us_of(e), "cfg": cfg, "twist": None, "bad_names": []}
    if stream == "twist":
        apply_twist(rng, case)
    if case["tokens"] and case["tokens"][-1][0] == "lit" and case["tokens"][-1][1].endswith("/"):
        # (see apply_twist) a template ending in a path separator is a directory, not a file-name template
        case["tokens"][-1] = ("lit", case["tokens"][-1][1].rstrip("/") or "f")
    return case


TWISTS = ["year_low", "year2_out", "off_resolution", "e_before_s", "end_day", "end_month_day", "end_doy", "end_milli",
          "end_year", "only_year", "no_year", "hour_only", "parse_only_field", "star", "unfilled", "special_fill",
          "regex_literal", "special_literal", "ambiguous_any", "unknown_parse", "user_only", "year9999_roll",
          "prefix_alts", "empty_fill"]


def apply_twist(rng, case):
    tw = rng.choice(TWISTS)
    case["twist"] = tw
    toks = [tuple(t) for t in case["tokens"]]
    s, e = of_us(case["s"]), of_us(case["e"])

    def drop(pred):
        return merge_lits([t for t in toks if not (t[0] == "t" and pred(t))])
    if tw == "year_low":
        s = s.replace(year=rng.choice([1, 9, 10, 99, 100, 999]), day=min(s.day, 28))
        e = max(e.replace(year=s.year, day=min(e.day, 28)), s)
    elif tw == "year2_out":
        y = rng.choice([1960, 1964, 2065, 2070, 1900])
        s = s.replace(year=y, day=min(s.day, 28))
        e = s
        toks = [("t", t[1], "year2") if t[0] == "t" and t[2] == "year" else t for t in toks]
    elif tw == "off_resolution":
        s = s + dt.timedelta(microseconds=rng.choice([1, 999, 1000, 10**6, 61 * 10**6, 3601 * 10**6]))
        e = max(e, s)
    elif tw == "e_before_s":
        try:
            e = s - dt.timedelta(microseconds=rng.choice([1000, 10**6, 3600 * 10**6, 86400 * 10**6, 400 * 86400 * 10**6]))
        except OverflowError:
            pass
    elif tw in ("end_day", "end_month_day", "end_doy", "end_milli", "end_year"):
        toks = drop(lambda t: t[1])
        add = {"end_day": ["day"], "end_month_day": ["month", "day"], "end_doy": ["doy"],
               "end_milli": ["millisecond"], "end_year": ["year"]}[tw]
        toks = toks[:-1] + [("lit", "-")] + [("t", True, f) for f in add] + toks[-1:]
        try:
            e = s + dt.timedelta(days=rng.choice([0, 1, 3, 27, 31, 40, 400]), microseconds=rng.choice([0, 5000]))
        except OverflowError:
            e = s
    elif tw == "only_year":
        toks = drop(lambda t: not t[1] and t[2] in ("month", "day", "doy"))
    elif tw == "no_year":
        toks = drop(lambda t: not t[1] and t[2] in ("year", "year2"))
    elif tw == "hour_only":
        toks = drop(lambda t: not t[1] and t[2] in ("year", "year2", "month", "day", "doy"))
    elif tw == "parse_only_field":
        toks = toks[:-1] + [("lit", "_"), ("t", rng.random() < 0.3, rng.choice(["microsecond", "decisecond", "centisecond"]))] + toks[-1:]
    elif tw == "star":
        i = rng.randrange(1, len(toks) + 1)
        toks = toks[:i] + [("star",)] + toks[i:]
    elif tw == "unfilled":
        if case["fill"]:
            del case["fill"][sorted(case["fill"])[0]]
        else:
            case["user"]["sat"] = rng.choice([("any",), ("alts", ["noaa"]), ("alts", ["a", "b"]), ("digits", 3)])
            toks = toks[:1] + [("u", "sat"), ("lit", "_")] + toks[1:]
    elif tw == "special_fill":
        case["user"]["sat"] = ("any",)
        case["fill"]["sat"] = rng.choice(["a*b", "x(y", "q?", "a|b", "[z", "n!", "a<b", "a\\b", "a{b"][:8])
        if ("u", "sat") not in toks:
            toks = toks[:1] + [("u", "sat"), ("lit", "_")] + toks[1:]
    elif tw == "regex_literal":
        toks = toks[:1] + [("lit", rng.choice(["a+b", "x^", "p$q", "c)", "d]"]))] + toks[1:]
    elif tw == "special_literal":
        toks = toks[:1] + [("lit", rng.choice(["a(b", "x?", "a|b", "n!", "<x"]))] + toks[1:]
    elif tw == "ambiguous_any":
        case["user"]["sat"] = ("any",)
        case["fill"]["sat"] = rng.choice(["n18", "2016", "a_b", "20160229x", "7"])
        toks = [t for t in toks if t != ("u", "sat")]
        toks = merge_lits(toks[:1] + [("u", "sat")] + toks[1:])
    elif tw == "unknown_parse":
        case["user"]["foo"] = None
        case["fill"]["foo"] = "bar"
        toks = toks[:1] + [("u", "foo"), ("lit", "_")] + toks[1:]
    elif tw == "user_only":
        case["user"]["sat"] = ("any",)
        case["fill"]["sat"] = "noaa"
        toks = [("lit", "/vt/"), ("u", "sat"), ("lit", ".nc")]
    elif tw == "year9999_roll":
        s = dt.datetime(9999, 12, 31, 23, 59, 0)
        e = dt.datetime(9999, 12, 31, 0, 1, 0)
    elif tw == "prefix_alts":
        case["user"]["sat"] = ("alts", rng.choice([["noaa", "noaa18"], ["noaa18", "noaa"], ["a", "ab", "abc"]]))
        case["fill"]["sat"] = rng.choice(case["user"]["sat"][1])
        if ("u", "sat") not in toks:
            toks = toks[:1] + [("u", "sat"), ("lit", rng.choice(["_", "1", "b"]))] + toks[1:]
    elif tw == "empty_fill":
        case["user"]["sat"] = ("any",)
        case["fill"]["sat"] = ""
        if ("u", "sat") not in toks:
            toks = toks[:1] + [("u", "sat"), ("lit", "_")] + toks[1:]
    if all(t[0] == "lit" for t in merge_lits(toks)):
        # no placeholder left: that would be a single-file fileset (its `time_coverage` is a period, its times do not come
        # from the name) -- not a template in the sense of C02; the twist is void and the case stays as generated
        case["twist"] = tw + "-void"
        return
    case["tokens"] = merge_lits(toks)
    if case["tokens"][-1][0] == "lit" and case["tokens"][-1][1].endswith("/"):
        # a template that ends in a path separator names a directory, not a file (FileSet normalises the separator away):
        # not a file-name template in the sense of C02 -- the generated literal loses its trailing separator
        case["tokens"][-1] = ("lit", case["tokens"][-1][1].rstrip("/") or "f")
    case["s"], case["e"] = us_of(s), us_of(e)


def malformed(rng, name, tokens):
    """names derived from a generated one that an exact match of the template must reject (or, for the last
    kind, may accept: the model decides)"""
    out = []
    body = name[4:]
    if not body:
        return out
    for _ in range(3):
        kind = rng.choice(["del", "ins_digit", "digit_to_letter", "suffix", "prefix", "truncate", "dot", "dup_mismatch"])
        i = rng.randrange(len(body))
        if kind == "del":
            m = body[:i] + body[i + 1:]
        elif kind == "ins_digit":
            m = body[:i] + rng.choice("0123456789") + body[i:]
        elif kind == "digit_to_letter":
            ds = [j for j, ch in enumerate(body) if ch.isdigit()]
            if not ds:
                continue
            j = rng.choice(ds)
            m = body[:j] + rng.choice("xO-") + body[j + 1:]
        elif kind == "suffix":
            m = body + rng.choice(["x", "0", ".bak", "_"])
        elif kind == "prefix":
            m = rng.choice(["x", "0", "_"]) + body
        elif kind == "truncate":
            m = body[:max(1, len(body) - rng.randint(1, 3))]
        elif kind == "dot":
            ds = [j for j, ch in enumerate(body) if ch == "."]
            if not ds:
                continue
            j = rng.choice(ds)
            m = body[:j] + rng.choice("x0_") + body[j + 1:]
        else:
            ds = [j for j, ch in enumerate(body) if ch.isdigit()]
            if not ds:
                continue
            j = rng.choice(ds)
            m = body[:j] + str((int(body[j]) + 1) % 10) + body[j + 1:]
        if m != body:
            out.append("/vt/" + m)
    return out


# ----------------------------------------------------------------------------- running the real code

def err_name(ex):
    n = type(ex).__name__
    if n == "UnknownPlaceholderError":
        return "EUnknown"
    if n == "UnfilledPlaceholderError":
        return "EUnfilled"
    if isinstance(ex, ValueError):
        return "ENoMatch" if "does not match the given" in str(ex) else "EValue"
    if isinstance(ex, KeyError):
        return "EKey"
    if isinstance(ex, TypeError):
        return "EType"
    if isinstance(ex, OverflowError):
        return "EOverflow"
    return "Other:" + n + ":" + str(ex)[:60]


def guard(f):
    try:
        return ["Ok", f()]
    except Exception as ex:  # noqa
        return ["Error", err_name(ex)]


def make_fileset(case):
    from typhon.files import FileSet
    from typhon.files.handlers.common import FileHandler, FileInfo
    cfg = case["cfg"]
    placeholder = {}
    for nme, k in case["user"].items():
        if k is None or k[0] == "any":
            continue
        if k[0] == "alts":
            placeholder[nme] = list(k[1]) if len(k[1]) > 1 else k[1][0]
        else:
            placeholder[nme] = "\\d{%d}" % k[1]
    tokens = [tuple(t) for t in case["tokens"]]
    path_tokens = [t for t in tokens if not (t[0] == "u" and case["user"].get(t[1], 0) is None)]
    kw = {}
    if cfg["via"] != "filename":
        # (clamped: the harness's own conversions never leave datetime's range)
        hs = None if cfg["h_start"] is None else of_us(min(max(cfg["h_start"], 0), DT_LAST))
        he = None if cfg["h_end"] is None else of_us(min(max(cfg["h_end"], 0), DT_LAST))
        attrs = dict(cfg["h_attr"])

        def info(file_info):
            return FileInfo(file_info.path, [hs, he], dict(attrs))
        kw["handler"] = FileHandler(info=info)
        kw["info_via"] = cfg["via"]
    if cfg["coverage"] is not None:
        kw["time_coverage"] = dt.timedelta(microseconds=cfg["coverage"])
    if placeholder and late_placeholders(case):
        # history: the same configuration reached step by step on one object -- build with the default regexes, use the
        # object once (parse / get_info of a name, whatever comes out), then narrow the user placeholders with
        # set_placeholders(); from here on it must behave exactly like the object configured through the constructor
        # (names other than the one under test: get_info keeps a path-keyed cache, which is C15's business; the
        # warm-up names are the harness's own arithmetic: computed first, in range by construction, never reported)
        warm = []
        try:
            toks = [tuple(t) for t in case["tokens"]]
            day = 86400 * 10**6
            warm.append(own_render(toks, of_us(case["s"]), of_us(case["e"]), case["fill"])[0] + ".warm")
            if max(case["s"], case["e"]) + day <= DT_LAST:
                warm.append(own_render(toks, of_us(case["s"] + day), of_us(case["e"] + day), case["fill"])[0])
        except Exception:  # noqa
            pass
        fs = FileSet(template_string(merge_lits(path_tokens)), **kw)
        for w in warm:
            guard(lambda: dict(fs.parse_filename(w)))
            guard(lambda: info_obs(fs, w))
        fs.set_placeholders(**placeholder)
        return fs
    fs = FileSet(template_string(merge_lits(path_tokens)), placeholder=placeholder or None, **kw)
    return fs


def late_placeholders(case):
    import zlib
    return zlib.crc32(repr((case["tokens"], case["s"])).encode()) % 3 == 0


def info_obs(fs, name):
    i = fs.get_info(name)
    return [us_of(i.times[0]), us_of(i.times[1]), {str(k): str(v) for k, v in i.attr.items()}]


def run_impl(case):
    tokens = [tuple(t) for t in case["tokens"]]
    explicit = any(t[0] == "u" and case["user"].get(t[1], 0) is None for t in tokens)
    try:
        fs = make_fileset(case)
    except Exception as ex:  # noqa
        return {"construct": err_name(ex)}
    s, e = of_us(case["s"]), of_us(case["e"])
    obs = {}
    if explicit:
        tmpl = template_string(tokens)
        obs["render"] = guard(lambda: fs.get_filename((s, e), template=tmpl, fill=dict(case["fill"])))
    else:
        obs["render"] = guard(lambda: fs.get_filename((s, e), fill=dict(case["fill"])))
    name = obs["render"][1] if obs["render"][0] == "Ok" else own_render(tokens, s, e, case["fill"])[0]
    obs["name"] = name
    if explicit:
        obs["parse"] = guard(lambda: dict(fs.parse_filename(name, template=template_string(tokens))))
        obs["info"] = None
    else:
        obs["parse"] = guard(lambda: dict(fs.parse_filename(name)))
        obs["info"] = guard(lambda: info_obs(fs, name))
    obs["bad"] = []
    if not explicit:
        for m in case["bad_names"]:
            obs["bad"].append([m, guard(lambda: dict(fs.parse_filename(m))), guard(lambda: info_obs(fs, m))])
    return obs


def source_tables():
    from typhon.files import FileSet
    import re
    widths = []
    for f in FIELDS:
        for pre in ("", "end_"):
            m = re.fullmatch(r"\\d\{(\d+)\}", FileSet._time_placeholder.get(pre + f, ""))
            widths.append((pre + f, int(m.group(1)) if m else FileSet._time_placeholder.get(pre + f)))
    res = [(k, v // US) for k, v in FileSet._temporal_resolution.items()]
    return widths, FileSet.year2_threshold, res, sorted(FileSet._time_placeholder), list(FileSet._special_chars)


# ----------------------------------------------------------------------------- evaluation

def norm_model(v):
    """("Ok", x) / ("Error", "EValue") as printed by Coq -> ["Ok", x] / ["Error", name]"""
    if isinstance(v, tuple) and v and v[0] == "Ok":
        return ["Ok", v[1] if len(v) == 2 else list(v[1:])]
    if isinstance(v, tuple) and v and v[0] == "Error":
        return ["Error", v[1][1] if isinstance(v[1], tuple) else v[1]]
    return ["?", v]


T_PARSE = "result (list (string * string))"
T_INFO = "result (Z * Z * list (string * string))"


def case_term(case, name, inst):
    """ONE Coq term per case (the template is shared by `let`; a term per question cost four times as much):
    (render, (parse, (info, ((hyps, promised, exact), ([(parse, info) of each malformed name], [certificates])))))"""
    tp = coq_tokens(case["tokens"], case["user"])
    s, e = zlit(case["s"]), zlit(case["e"])
    bad = coq_list([f"(run_parse tp {coq_string(m)}, run_info c tp {coq_string(m)})" for m in case["bad_names"]])
    certs = coq_list([x[3] for x in inst if x[3] is not None])
    return (f"let tp := {tp} in let c := {coq_cfg(case['cfg'])} in "
            f"let fl : list (string * string) := {coq_pairs(case['fill'])} in "
            f"(run_render tp {s} {e} fl, (run_parse tp {coq_string(name)}, (run_info c tp {coq_string(name)}, "
            f"((hyps tp {s} {e} fl, promised_partial tp {s} {e}, exact_hyp tp {s} {e}), "
            f"(({bad} : list ({T_PARSE} * {T_INFO})), ({certs} : list (bool * list (string * string))))))))")


def case_values(val, n_bad, n_cert):
    """the value of case_term in the flat layout [render, parse, info, hyps, parse_1, info_1, ...], [certificates]"""
    try:
        r, (p, (i, hx)) = val                       # Coq prints the left-nested ((hyps..., exact), (bad, certs)) flat
        h, (bad, certs) = tuple(hx[:6]), hx[6]
        if len(hx) != 7:
            return None, None
        if len(bad) != n_bad or len(certs) != n_cert:
            return None, None
        flat = [r, p, i, h]
        for bp, bi in bad:
            flat += [bp, bi]
        return flat, list(certs)
    except Exception:  # noqa
        return None, None


def instance_exprs(case, obs):
    """for every name the implementation accepted: (name, dictionary, witness or None, Coq certificate or None)"""
    out = []
    if obs.get("info", 0) is None and any(case["user"].get(t[1], 0) is None for t in case["tokens"] if t[0] == "u"):
        return out                       # parse_filename with an explicit template of unregistered placeholders
    tp = "tp"                            # bound by case_term
    accepted = []
    if obs["parse"][0] == "Ok":
        accepted.append((obs["name"], obs["parse"][1]))
    for mname, ip, _ii in obs["bad"]:
        if ip[0] == "Ok":
            accepted.append((mname, ip[1]))
    for name, d in accepted:
        wit = find_instance(case["tokens"], case["user"], name, d)
        out.append((name, d, wit, None if wit is None else coq_witness(tp, wit, name)))
    return out


def info_norm(x):
    if x[0] == "Ok":
        s, e, a = x[1]
        return ["Ok", [s, e, dict(a) if not isinstance(a, dict) else a]]
    return x


def parse_norm(x):
    if x[0] == "Ok":
        return ["Ok", dict(x[1]) if not isinstance(x[1], dict) else x[1]]
    return x


def law_check(case, obs, hyp, promised):
    """the property itself on the implementation's output; returns a list of (signature, message)"""
    det, start_ok, full_ok, partial = hyp
    bad = []
    if not (det and start_ok):
        return bad
    tokens = [tuple(t) for t in case["tokens"]]
    cfg = case["cfg"]
    s, e = case["s"], case["e"]
    if obs["render"][0] != "Ok":
        return [("law-render", f"get_filename raised {obs['render'][1]} for a template/period/fill of the statement")]
    _, want_binds = own_render(tokens, of_us(s), of_us(e), case["fill"])
    if obs["parse"] != ["Ok", want_binds]:
        bad.append(("law-parse", f"parse_filename({obs['name']!r}) = {obs['parse'][1]} but the strings written were {want_binds}"))
    if obs["info"] is None:
        return bad
    if any(t[0] == "t" and t[1] for t in tokens) and not (full_ok or partial) and cfg["via"] != "handler":
        return bad        # an end-field set the statement does not name (e.g. end_doy alone): model comparison only
    if cfg["via"] != "filename" and cfg["h_start"] is None and cfg["h_end"] is not None and cfg["via"] == "handler":
        if obs["info"] != ["Error", "EValue"]:
            bad.append(("law-info-error", f"an end time without start time must raise ValueError, got {obs['info']}"))
        return bad
    users = {t[1] for t in tokens if t[0] == "u"}
    want_attr = {u: case["fill"][u] for u in users}
    ends = [t[2] for t in tokens if t[0] == "t" and t[1]]
    if cfg["via"] == "filename":
        want_s = s
        if ends and full_ok:
            want_e = e
        elif ends and partial:
            want_e = promised
        elif not ends:
            want_e = s + cfg["coverage"] if cfg["coverage"] is not None else s
        else:
            want_e = None
    else:
        if cfg["via"] == "both":
            want_attr = {**want_attr, **cfg["h_attr"]}
            fs_, fe_ = s, (e if ends and full_ok else promised if ends and partial else None if not ends else "?")
        else:
            want_attr = dict(cfg["h_attr"])
            fs_, fe_ = None, None
        if fe_ == "?":
            return bad
        st = cfg["h_start"] if cfg["h_start"] is not None else fs_
        en = cfg["h_end"] if cfg["h_end"] is not None else fe_
        if st is None and en is None:
            want_s, want_e = 0, us_of(dt.datetime.max)
        elif st is None:
            return bad
        else:
            want_s = st
            want_e = en if en is not None else (st + cfg["coverage"] if cfg["coverage"] is not None else st)
    if want_e is not None and want_e > us_of(dt.datetime.max):
        # start + time_coverage / the rolled end lies beyond datetime.max: OverflowError is the stated outcome
        # (no_end_fields, roundtrip_end_partial: Error EOverflow)
        if obs["info"] != ["Error", "EOverflow"]:
            bad.append(("law-info-error", f"get_info({obs['name']!r}) = {obs['info']} although the end lies beyond "
                                          f"datetime.max (OverflowError expected)"))
        return bad
    if obs["info"][0] != "Ok":
        bad.append(("law-info-error", f"get_info({obs['name']!r}) raised {obs['info'][1]}"))
        return bad
    gs, ge, ga = obs["info"][1]
    if gs != want_s:
        bad.append(("law-start", f"get_info(get_filename(({of_us(s)}, {of_us(e)}))) reports start {of_us(gs)} "
                                 f"instead of {of_us(want_s)} (name {obs['name']!r})"))
    if ga != want_attr:
        bad.append(("law-attr", f"attributes {ga} instead of {want_attr} (name {obs['name']!r})"))
    if want_e is not None and ge != want_e:
        bad.append(("law-end", f"period ({of_us(s)}, {of_us(e)}) -> name {obs['name']!r} -> end {of_us(ge)} "
                               f"instead of {of_us(want_e)}"))
    return bad


def partial_exact(case):
    """the conditions under which the completed end must be e itself"""
    tokens = [tuple(t) for t in case["tokens"]]
    sf = [t[2] for t in tokens if t[0] == "t" and not t[1]]
    ef = [t[2] for t in tokens if t[0] == "t" and t[1]]
    c = next((f for f in SUB[:3] if f in ef), None)
    if c is None:
        return False
    below = SUB[SUB.index(c):]
    e = of_us(case["e"])
    if any((f in sf) and (f not in ef) for f in below):
        return False
    vals = {"hour": e.hour, "minute": e.minute, "second": e.second, "millisecond": e.microsecond // 1000}
    if any(f not in ef and vals[f] != 0 for f in below):
        return False
    if e.microsecond % 1000:
        return False
    return 0 <= case["e"] - case["s"] < UNIT[c]


def eval_batched(ctx, name, exprs, shard, timeout):
    """core.coq_eval labels every term with its index as a `nat` literal, whose cost grows with the index (0.3 s per
    term at index 30 000: quadratic in the number of terms).  Terms are therefore handed over in batches of at most
    16 shards, each batch numbered from 0."""
    vals, logs = [], []
    batch = 16 * shard
    for k in range(0, len(exprs), batch):
        v, log = core.coq_eval(ctx.work / "cases", name, PREAMBLE, exprs[k:k + batch], shard=shard, timeout=timeout)
        vals += v
        if log:
            logs.append(log)
    return vals, logs


def eval_robust(ctx, exprs):
    """Evaluation with one retry: coqc stops at the first term it cannot evaluate and a shard can die under load
    (timeout, kill), which would leave every later term of that shard unevaluated.  Terms without a value are
    evaluated once more in small shards, then -- if few are left -- one by one, so that only a term Coq really
    rejects is reported."""
    vals, logs = eval_batched(ctx, "c02", exprs, 40, 600)
    for rnd, (shard, limit) in enumerate([(8, None), (1, 160)]):
        miss = [i for i, x in enumerate(vals) if x is None]
        if not miss or (limit is not None and len(miss) > limit):
            break
        ctx.log(f"{len(miss)} of {len(exprs)} terms came back without a value; evaluating them again (shards of {shard})")
        again, log = eval_batched(ctx, f"c02_retry{rnd}", [exprs[i] for i in miss], shard, 600)
        logs += log
        for i, x in zip(miss, again):
            vals[i] = x
    return vals, "\n".join(logs)


def check_cases(ctx, cases):
    cases = [c for c in cases if not all(t[0] == "lit" for t in c["tokens"])]   # (replayed records of single-file templates)
    obs_all = [run_impl(c) for c in cases]
    exprs, index = [], []
    for c, o in zip(cases, obs_all):
        if "construct" in o:
            index.append(None)
            continue
        o["_inst"] = instance_exprs(c, o)
        index.append(len(exprs))
        exprs.append(case_term(c, o["name"], o["_inst"]))
    vals, log = eval_robust(ctx, exprs)
    if log:
        ctx.log(log[-2000:])
    nontrivial, stats = set(), {}
    for c, o, ix in zip(cases, obs_all, index):
        ctx.cov["evaluations"] += 1
        stats[c["stream"]] = stats.get(c["stream"], 0) + 1
        tag = f"template {template_string(c['tokens'])!r}"
        if ix is None:
            ctx.fail("correspondence", f"FileSet(...) raised {o['construct']} for {tag}", case=c, impl=o,
                     signature="construct-error")
            continue
        inst = o.pop("_inst")
        n_cert = sum(1 for x in inst if x[3] is not None)
        v, v_cert = (None, None) if vals[ix] is None else case_values(vals[ix], len(c["bad_names"]), n_cert)
        if v is None or any(x is None for x in v + v_cert):
            ctx.fail("correspondence", f"Coq evaluation of the model failed for {tag}", case=c, signature="coq-eval")
            continue
        m_render, m_parse, m_info = norm_model(v[0]), parse_norm(norm_model(v[1])), info_norm(norm_model(v[2]))
        hyp, promised, exact = tuple(v[3][:4]), v[3][4], v[3][5]
        promised = promised[1] if isinstance(promised, tuple) else None
        det, start_ok, full_ok, partial = hyp
        inside = bool(det and start_ok)
        regexy = any(t[0] == "lit" and any(ch in "{*[<(?!|\\^$+)]}" for ch in t[1]) for t in c["tokens"])
        # the property's law on the implementation's output
        laws = law_check(c, o, hyp, promised)
        for sig, msg in laws:
            ctx.fail("failing-input", f"{msg}; {tag}, fill {c['fill']}, info_via {c['cfg']['via']}", case=c,
                     impl={k: o[k] for k in ("render", "parse", "info")}, model={"render": m_render, "parse": m_parse, "info": m_info},
                     signature=sig)
        # the exact class of the sub-day end kind (theorems end_partial_exact / roundtrip_end_partial_exact): the
        # hypotheses are evaluated in Coq (exact_hyp) and, independently, by the harness (partial_exact); the end is e
        if inside and partial:
            stats["partial_inside"] = stats.get("partial_inside", 0) + 1
            if exact:
                stats["partial_exact"] = stats.get("partial_exact", 0) + 1
                ds, de = of_us(c["s"]).date(), of_us(c["e"]).date()
                if ds != de:
                    stats["partial_exact_next_day"] = stats.get("partial_exact_next_day", 0) + 1
                    if (ds.year, ds.month) != (de.year, de.month):
                        stats["partial_exact_over_month_or_year_end"] = stats.get("partial_exact_over_month_or_year_end", 0) + 1
            elif promised is not None and promised != c["e"]:
                stats["partial_promised_differs_from_e"] = stats.get("partial_promised_differs_from_e", 0) + 1
            if bool(exact) != bool(partial_exact(c)):
                ctx.fail("correspondence", f"specification: the exact class of the sub-day end kind is decided differently by "
                         f"the model (exact_hyp = {exact}) and by the harness ({partial_exact(c)}); {tag}, period "
                         f"({of_us(c['s'])}, {of_us(c['e'])})", case=c, signature="spec-exact-class")
            if exact and promised != c["e"]:
                ctx.fail("proof", f"specification: promised end {promised} differs from e={c['e']} in the exact class; {tag}",
                         case=c, signature="spec-partial-exact")
            if (exact and c["cfg"]["via"] == "filename" and o["info"] is not None and o["info"][0] == "Ok"
                    and o["info"][1][1] != c["e"] and not any(sig == "law-end" for sig, _ in laws)):
                ctx.fail("failing-input", f"period ({of_us(c['s'])}, {of_us(c['e'])}) -> name {o['name']!r} -> end "
                         f"{of_us(o['info'][1][1])}: the end spells every sub-unit field of the start and 0 <= e - s < unit, "
                         f"so it must come back as e; {tag}", case=c, impl=o["info"], signature="law-end-exact")
        # parse_sound on the implementation: an accepted name is an instance of the template with the returned dictionary
        j = 0
        for name, d, wit, cert in ([] if regexy else inst):
            stats["accepted_names"] = stats.get("accepted_names", 0) + 1
            if wit is None:
                ctx.fail("failing-input" if det else "correspondence",
                         f"parse_filename({name!r}) = {d}, but the name is no instance of {tag} with these strings "
                         f"(no choice of placeholder words spells it): a non-matching name is mis-parsed",
                         case=dict(c, bad_names=[name] if name != o["name"] else []), impl=d, signature="law-parse-sound")
                continue
            r = v_cert[j]
            j += 1
            okc, dd = (r[0], r[1]) if isinstance(r, tuple) and len(r) == 2 else (None, None)
            if okc is not True or dict(dd) != d:
                ctx.fail("correspondence", f"specification: the witness found by the harness for {name!r} ({wit}) is not "
                         f"accepted by `assemble` of the model (run_instance = {r}); {tag}", case=c, impl=d,
                         signature="spec-instance")
            else:
                stats["instance_certificates"] = stats.get("instance_certificates", 0) + 1
        # model against implementation
        diffs = []
        if list(m_render) == ["Error", "EUnfilled"] and o["render"][0] == "Ok":
            # the statement itself: "an unfilled placeholder raises the dedicated error" -- wherever the placeholder stands
            ctx.fail("failing-input", f"get_filename returned {o['render'][1]!r} although a user placeholder of {tag} is left unfilled "
                     f"(fill {c['fill']}); UnfilledPlaceholderError expected", case=c, impl=o["render"], model=list(m_render),
                     signature="law-unfilled")
        elif m_render != o["render"]:
            diffs.append(("render", o["render"], m_render))
        if regexy:
            pass      # a literal with regex syntax: the template is a user-written regex, outside the model
        elif m_parse != parse_norm(o["parse"]):
            diffs.append(("parse", o["parse"], m_parse))
        if not regexy and o["info"] is not None and m_info != info_norm(o["info"]):
            diffs.append(("info", o["info"], m_info))
        for j, (mname, ip, ii) in enumerate([] if regexy else o["bad"]):
            mp, mi = parse_norm(norm_model(v[4 + 2 * j])), info_norm(norm_model(v[5 + 2 * j]))
            if mp != parse_norm(ip) or mi != info_norm(ii):
                if inside and c["cfg"]["via"] != "handler" and mp[0] == "Error" and ip[0] == "Ok":
                    ctx.fail("failing-input", f"the name {mname!r} does not match {tag} but parse_filename accepts it as "
                             f"{ip[1]} instead of raising ValueError", case=dict(c, bad_names=[mname]), impl=[ip, ii],
                             model=[mp, mi], signature="law-reject")
                else:
                    diffs.append((f"malformed {mname!r}", [ip, ii], [mp, mi]))
        if diffs and not laws:
            what, im, mo = diffs[0]
            ctx.fail("correspondence", f"{what}: implementation {im} / model {mo}; {tag}, fill {c['fill']}, "
                     f"twist {c['twist']}, period ({of_us(c['s'])}, {of_us(c['e'])})", case=c, impl=im, model=mo,
                     signature=f"model-{what.split()[0]}" + ("" if inside else "-outside"))
        if inside and o["render"][0] == "Ok" and (o["info"] is None or o["info"][0] == "Ok"):
            nontrivial.add(repr((c["tokens"], c["s"], c["e"], sorted(c["fill"].items()), c["cfg"]["via"])))
        if c["id"] % 37 == 0:
            ctx.sample({"template": template_string(c["tokens"]), "period": [str(of_us(c["s"])), str(of_us(c["e"]))],
                        "fill": c["fill"], "name": o["name"], "info": o["info"], "hypotheses": list(hyp),
                        "twist": c["twist"]}, limit=8)
    return len(nontrivial), stats


def check_tables(ctx):
    vals, log = core.coq_eval(ctx.work / "cases", "tables", PREAMBLE, ["tables"])
    widths, thr, res, names, special = source_tables()
    if vals[0] is None:
        ctx.fail("translation", "cannot evaluate the model's tables: " + log[-500:], signature="tables")
        return
    *mw, mthr, mres = vals[0]
    mw = mw[0] if len(mw) == 1 else mw
    want_w = []
    for f, w in mw:
        want_w += [(f, w), ("end_" + f, w)]
    ok = True
    if sorted(widths) != sorted(want_w):
        ok = False
        ctx.fail("translation", f"FileSet._time_placeholder differs from the model's table: {widths} vs {want_w}",
                 signature="table-widths", obligation="_time_placeholder")
    if thr != mthr:
        ok = False
        ctx.fail("translation", f"FileSet.year2_threshold = {thr}, the property (and the model) say {mthr}",
                 signature="table-threshold", obligation="year2_threshold")
    if [r for _, r in res] != mres or [k for k, _ in res] != ["year", "month", "day", "hour", "minute", "second",
                                                                 "decisecond", "centisecond", "millisecond", "microsecond"]:
        ok = False
        ctx.fail("translation", f"FileSet._temporal_resolution differs from the model's table: {res} vs {mres}",
                 signature="table-resolution", obligation="_temporal_resolution")
    if sorted(special) != sorted("{*[<(?!|\\"):
        ok = False
        ctx.fail("translation", f"FileSet._special_chars = {special}", signature="table-special",
                 obligation="_special_chars")
    ctx.add_obligation("constant tables of fileset.py = tables of the model", ok,
                       "_time_placeholder, _temporal_resolution, year2_threshold, _special_chars")


def run(ctx):
    ctx.prove("Props/C02.v")
    check_tables(ctx)
    n_law = ctx.n(330, 6500)        # (thorough: 9 000 cases = 9 000 Coq terms, one per case)
    n_tw = ctx.n(170, 2500)
    cases = []
    for k in range(n_law + n_tw):
        c = gen_case(ctx.rng, k, "law" if k < n_law else "twist")
        cases.append(c)
    # malformed names need the generated name: render with the harness's own renderer (ASCII, in-statement cases)
    for c in cases:
        if c["stream"] == "law" and ctx.rng.random() < 0.6:
            name, _ = own_render([tuple(t) for t in c["tokens"]], of_us(c["s"]), of_us(c["e"]), c["fill"])
            c["bad_names"] = malformed(ctx.rng, name, c["tokens"])
    nt, stats = check_cases(ctx, cases)
    ctx.log(f"correspondence: {len(cases)} cases through the implementation and the model, {nt} inside the hypotheses")
    ctx.cov["distinct_nontrivial"] = nt
    ctx.cov["rule"] = ("one case = template (directory + file part, year|year2, month+day|doy, 0-4 sub-day fields, end "
                       "fields none / complete / sub-day suffix, 0-2 user placeholders as .+? / value list / \\d{n}, "
                       "repeated placeholders, literal dots) x period x fill x info_via; non-trivial = the case meets the "
                       "hypotheses of the theorems (deterministic template, start in range and at resolution, s <= e; "
                       "booleans computed in Coq), get_filename and get_info both succeeded; distinct by input. Cases "
                       "outside the hypotheses (twists) and malformed names are compared with the algorithmic model only")
    ctx.cov["input_distribution"] = {
        "streams": {k: v for k, v in stats.items() if k in ("law", "twist")},
        "clauses": {k: v for k, v in stats.items() if k not in ("law", "twist")},
        "twists": {**{t: sum(1 for c in cases if c["twist"] == t) for t in TWISTS},
                   "void (no placeholder would be left)": sum(1 for c in cases if (c["twist"] or "").endswith("-void"))},
        "info_via": {v: sum(1 for c in cases if c["cfg"]["via"] == v) for v in ("filename", "both", "handler")},
        "end_kind": {"none": sum(1 for c in cases if not any(t[0] == "t" and t[1] for t in c["tokens"])),
                     "with_end": sum(1 for c in cases if any(t[0] == "t" and t[1] for t in c["tokens"]))},
        "malformed_names": sum(len(c["bad_names"]) for c in cases),
        "year2_cases": sum(1 for c in cases if any(t[0] == "t" and t[2] == "year2" for t in c["tokens"])),
        "doy_cases": sum(1 for c in cases if any(t[0] == "t" and t[2] == "doy" for t in c["tokens"])),
    }
    ctx.assumptions += [
        "templates of the deterministic class: literals without regex syntax (dots allowed), no '*', every user "
        "placeholder filled with a value of its regex that the next token cannot continue (checked per case in Coq)",
        "start spelt by year|year2 and month+day|doy, years 1000-9999 resp. 1965-2064, unspelt fields zero, s <= e",
        "names are ASCII without newline",
    ]
    return ctx.finish(trusted_base=TRUSTED)


def replay(ctx, rec):
    case = rec["case"]
    if not case:
        print("nothing to replay (not a case-level failure); re-run ./check C02 quick")
        return 1
    case["tokens"] = [tuple(t) for t in case["tokens"]]
    case["user"] = {k: (None if v is None else tuple(v)) for k, v in case["user"].items()}
    check_cases(ctx, [case])
    for f in ctx.failures:
        print("still fails:", f.kind, f.what[:400])
    return 1 if ctx.failures else 0
