"""C06 -- GeoIndex.query returns exactly the points within the radius.

Theorems: coq/theories/Props/C06.v (index logic: for every permutation drawn by the shuffle and every tree
that answers radius queries correctly the result is exactly the set of pairs within r, each once, indices
as passed in, distances aligned and in kilometres) and coq/theories/Props/C06_units.v (the unit table of
the tree under test, translated on every run into coq/gen/C06_units.v, equals the definitions of the units).

Tie to the code: the real GeoIndex is built under a harness-seeded numpy.random, the permutation actually
drawn is read back from index.shuffler, the call of the scikit-learn tree is recorded by a proxy placed on
index.tree, and
  * the *specification* (all pairs of a dense distance matrix within r, r converted with the definitions of
    the units) is evaluated inside Coq on a matrix computed by an independent oracle (unit vectors in
    80-bit long double; nothing of typhon.geodesy) -- the implementation's result must equal it outside a
    declared guard band around the radius;
  * the *model* (translation through the shuffler, pair list, scaling to km) is evaluated inside Coq on the
    recorded answers of the tree -- the implementation's result must equal it.
"""
import ast
import math
from fractions import Fraction
from pathlib import Path

import numpy as np

from lib import core
from lib.core import zlit, coq_list, coq_string

LD = np.longdouble
PI = LD(4) * np.arctan(LD(1))
GEN_FILE = core.GEN / "C06_units.v"

TRUSTED = [
    "correspondence harness tools/props/c06.py (generators, long-double distance oracle, guard band, recording proxy on index.tree)",
    "scikit-learn BallTree/KDTree.query_radius: hypothesis rq_spec of every theorem; checked on every run against a brute-force "
    "evaluation of the recorded call (stored data, query points, radius), never assumed silently",
    "translator of UNITS_CONVERSION_FACTORS in tools/props/c06.py (ast; decimal literals taken exactly; fail-closed)",
    "split_units / Python float() parsing of the radius string (exercised through to_kilometers, not modelled)",
    "IEEE-754 rounding of the coordinate transformation and of the tree's distance computation (bridged per pair by the guard band)",
]

# spellings -> kilometres, the definitions (used only by the generator to aim at a length; the decision is Coq's)
SI = {"cm": Fraction(1, 100000), "centimeter": Fraction(1, 100000), "centimeters": Fraction(1, 100000),
      "m": Fraction(1, 1000), "meter": Fraction(1, 1000), "meters": Fraction(1, 1000),
      "km": Fraction(1), "kilometer": Fraction(1), "kilometers": Fraction(1),
      "mi": Fraction(1609344, 1000000), "mile": Fraction(1609344, 1000000), "miles": Fraction(1609344, 1000000),
      "yd": Fraction(9144, 10000000), "yds": Fraction(9144, 10000000), "yard": Fraction(9144, 10000000),
      "yards": Fraction(9144, 10000000),
      "ft": Fraction(3048, 10000000), "foot": Fraction(3048, 10000000), "feet": Fraction(3048, 10000000)}
UNIT_CLASS = {u: c for c, us in {"cm": ["cm", "centimeter", "centimeters"], "m": ["m", "meter", "meters"],
                                 "km": ["km", "kilometer", "kilometers"], "mi": ["mi", "mile", "miles"],
                                 "yd": ["yd", "yds", "yard", "yards"], "ft": ["ft", "foot", "feet"]}.items() for u in us}


# ----------------------------------------------------------------------------- translation of the unit table

class Untranslatable(Exception):
    pass


def _num(node, src):
    """Exact value of a constant arithmetic expression; decimal literals are read as written."""
    if isinstance(node, ast.Constant) and isinstance(node.value, (int, float)) and not isinstance(node.value, bool):
        text = ast.get_source_segment(src, node)
        try:
            return Fraction(text.replace("_", ""))
        except Exception:
            raise Untranslatable(f"numeric literal {text!r}")
    if isinstance(node, ast.UnaryOp) and isinstance(node.op, (ast.USub, ast.UAdd)):
        v = _num(node.operand, src)
        return -v if isinstance(node.op, ast.USub) else v
    if isinstance(node, ast.BinOp):
        a, b = _num(node.left, src), _num(node.right, src)
        if isinstance(node.op, ast.Add):
            return a + b
        if isinstance(node.op, ast.Sub):
            return a - b
        if isinstance(node.op, ast.Mult):
            return a * b
        if isinstance(node.op, ast.Div) and b != 0:
            return a / b
        if isinstance(node.op, ast.Pow) and b.denominator == 1 and abs(b) <= 64 and (a != 0 or b >= 0):
            return a ** int(b)
    raise Untranslatable(ast.dump(node)[:80])


def translate_units(repo):
    """[(sorted spellings, Fraction)] read from the source of the tree under test (not from an import)."""
    src = (Path(repo) / "typhon" / "geographical.py").read_text()
    tree = ast.parse(src)
    value = None
    for node in tree.body:
        if isinstance(node, ast.Assign) and any(isinstance(t, ast.Name) and t.id == "UNITS_CONVERSION_FACTORS"
                                                for t in node.targets):
            value = node.value
    if value is None or not isinstance(value, (ast.List, ast.Tuple)):
        raise Untranslatable("UNITS_CONVERSION_FACTORS is not a literal list at module level")
    table = []
    for row in value.elts:
        if not isinstance(row, (ast.List, ast.Tuple)) or len(row.elts) != 2:
            raise Untranslatable("row is not [spellings, factor]")
        names, factor = row.elts
        if isinstance(names, ast.Call) and isinstance(names.func, ast.Name) and names.func.id in ("set", "frozenset") \
                and len(names.args) == 1:
            names = names.args[0]
        if not isinstance(names, (ast.Set, ast.List, ast.Tuple)):
            raise Untranslatable("spellings are not a literal set")
        ns = []
        for e in names.elts:
            if not (isinstance(e, ast.Constant) and isinstance(e.value, str)):
                raise Untranslatable("spelling is not a string literal")
            ns.append(e.value)
        table.append((sorted(set(ns)), _num(factor, src)))
    return table


def write_gen(ctx):
    """Regenerate coq/gen/C06_units.v from the tree under test. Returns the name of the table to evaluate with."""
    try:
        table = translate_units(core.REPO)
        if any(f <= 0 for _, f in table):
            raise Untranslatable("non-positive factor")
        if any('"' in n for ns, _ in table for n in ns):
            raise Untranslatable("quote in a spelling")
        rows = [f"  ({coq_list([coq_string(n) for n in ns])}%string, {f.numerator} # {f.denominator})" for ns, f in table]
        body = ("(* GENERATED by tools/props/c06.py from typhon/geographical.py:UNITS_CONVERSION_FACTORS of the tree under\n"
                "   test on every run -- do not edit. Spellings sorted; decimal literals taken exactly as written. *)\n"
                "From Coq Require Import String QArith List.\nImport ListNotations.\n"
                "From Typhon Require Import Model.C06_geoindex.\nOpen Scope Q_scope.\n\n"
                "Definition gen_units : units_table :=\n [\n" + ";\n".join(rows) + "\n ].\n")
        ctx.add_obligation("translation: UNITS_CONVERSION_FACTORS -> coq/gen/C06_units.v", True,
                           f"{len(table)} rows, {sum(len(ns) for ns, _ in table)} spellings")
        ok = True
    except (Untranslatable, SyntaxError, OSError) as e:
        body = ("(* GENERATED by tools/props/c06.py: the unit table of the tree under test could NOT be translated;\n"
                "   gen_units is left empty so that every obligation about it breaks. *)\n"
                "From Coq Require Import String QArith List.\nImport ListNotations.\n"
                "From Typhon Require Import Model.C06_geoindex.\n\nDefinition gen_units : units_table := [].\n")
        ctx.add_obligation("translation: UNITS_CONVERSION_FACTORS -> coq/gen/C06_units.v", False, str(e))
        ctx.failures.append(core.Failure("translation", f"UNITS_CONVERSION_FACTORS cannot be translated: {e}",
                                         obligation="coq/gen/C06_units.v", signature="translation-units"))
        ok = False
    core.GEN.mkdir(parents=True, exist_ok=True)
    if not GEN_FILE.exists() or GEN_FILE.read_text() != body:
        GEN_FILE.write_text(body)
    good, log, _ = core.coq_build([GEN_FILE])
    if not good:
        ctx.log(log[-1500:])
        ctx.failures.append(core.Failure("translation", "coq/gen/C06_units.v does not compile: " + log[-600:],
                                         obligation="coq/gen/C06_units.v", signature="translation-units"))
    return ok and good


PREAMBLE = ("From Coq Require Import QArith.\nFrom Typhon Require Import Model.C06_geoindex.\n"
            "From TyphonGen Require Import C06_units.\nFrom Coq Require Import Uint63.\nOpen Scope uint63_scope.\n")
# In the case files plain numerals are primitive 63-bit integers (cheap to read and print); the few exact
# rationals are written with explicit %Z / %positive.


# ----------------------------------------------------------------------------- literals

def qlit(fr):
    fr = Fraction(fr)
    return f"(Qmake ({fr.numerator})%Z {fr.denominator}%positive)"


def dbl_lit(x):
    """(mantissa, k) with x = mantissa / 2^k exactly, k >= 0."""
    num, den = float(x).as_integer_ratio()
    return num, den.bit_length() - 1


def radius_text(r):
    return r["x"] if r["kind"] == "num" else f"{r['x']}{r['sep']}{r['unit']}"


def radius_arg(r):
    """The object handed to query(): a Python number or a string."""
    if r["kind"] == "num":
        return int(r["x"]) if r.get("int") else float(r["x"])
    return radius_text(r)


def radius_lit(r):
    x = Fraction(int(r["x"])) if r.get("int") else Fraction(float(r["x"]))
    if r["kind"] == "num":
        return f"(RNum {qlit(x)})"
    return f"(RStr {qlit(x)} {coq_string(r['unit'])}%string)"


def radius_km_si(r):
    """Kilometres by the definitions of the units (None where to_kilometers must refuse)."""
    x = Fraction(int(r["x"])) if r.get("int") else Fraction(float(r["x"]))
    if r["kind"] == "num":
        return x
    if x == 0:
        return None
    if r["unit"] == "":
        return x
    return x * SI[r["unit"]] if r["unit"] in SI else None


def metric_of(case):
    return "haversine" if case["metric"] == "haversine" else "minkowski"


def metric_lit(case):
    return "Haversine" if metric_of(case) == "haversine" else "Minkowski"


# ----------------------------------------------------------------------------- oracle (independent of typhon.geodesy)

def unit_vectors(lat, lon):
    la = np.asarray(lat, dtype=LD) * PI / LD(180)
    lo = np.asarray(lon, dtype=LD) * PI / LD(180)
    c = np.cos(la)
    return np.stack([c * np.cos(lo), c * np.sin(lo), np.sin(la)], axis=1)


def oracle(case, R):
    """Dense matrices (build i x query j): central angle [rad] and the distance of the metric [m], long double."""
    u, v = unit_vectors(case["lat"], case["lon"]), unit_vectors(case["qlat"], case["qlon"])
    diff = np.sqrt(((u[:, None, :] - v[None, :, :]) ** 2).sum(axis=2))
    summ = np.sqrt(((u[:, None, :] + v[None, :, :]) ** 2).sum(axis=2))
    theta = LD(2) * np.arctan2(diff, summ)
    if metric_of(case) == "haversine":
        d = LD(R) * theta
    else:
        d = LD(R) * diff
    return theta, d


def band_m(case, theta, d, r_m):
    """Half-width [m] of the guard band around the radius, per pair: float rounding of the implementation
    (coordinates ~1e-9 m, radius conversion ~1e-16 relative) with a wide margin; for the haversine formula the
    conditioning of arcsin near the antipode (error ~ 4e-16/eps rad at angle pi - eps)."""
    b = np.full(d.shape, 1e-4, dtype=LD) + LD(1e-9) * LD(r_m) + LD(1e-9) * d
    if metric_of(case) == "haversine":
        eps = np.maximum(PI - theta, LD(1e-12))
        b = b + LD(1e-7) / eps
    return b


# ----------------------------------------------------------------------------- running the real code

class RecordingTree:
    """Stands in for index.tree; forwards everything and keeps the arguments and the answer of query_radius."""

    def __init__(self, tree):
        self._tree = tree
        self.calls = []

    def query_radius(self, X, r, *args, **kwargs):
        res = self._tree.query_radius(X, r, *args, **kwargs)
        self.calls.append({"X": np.array(X, dtype=float, copy=True), "r": r, "args": args, "kwargs": dict(kwargs), "res": res})
        return res

    def __getattr__(self, name):
        return getattr(self._tree, name)


def run_impl(case, run):
    """One construction + query of the real GeoIndex under a seeded numpy.random."""
    from typhon.geographical import GeoIndex
    lat, lon = np.array(case["lat"], dtype=float), np.array(case["lon"], dtype=float)
    qlat, qlon = np.array(case["qlat"], dtype=float), np.array(case["qlon"], dtype=float)
    if case.get("int_dtype"):
        # whole-degree coordinates handed over as integer arrays (np.arange grids): same points, another dtype
        lat, lon, qlat, qlon = (a.astype(np.int64) for a in (lat, lon, qlat, qlon))
    kwargs = {}
    if case["metric"] is not None:
        kwargs["metric"] = case["metric"]
    if run["tree"] is not None:
        kwargs["tree_class"] = run["tree"]
    if run["leaf"] is not None:
        kwargs["leaf_size"] = run["leaf"]
    if run["shuffle"] is not None:
        kwargs["shuffle"] = run["shuffle"]
    o = {}
    state = np.random.get_state()
    try:
        np.random.seed(run["seed"])
        try:
            index = GeoIndex(lat, lon, **kwargs)
        except Exception as e:  # noqa
            return {"error": f"GeoIndex(): {type(e).__name__}: {str(e)[:120]}"}
        sh = getattr(index, "shuffler", None)
        o["shuffler"] = None if sh is None else [int(t) for t in np.asarray(sh).ravel()]
        rec = None
        try:
            o["tree_class"] = type(index.tree).__name__
            o["stored"] = np.array(index.tree.data, dtype=float, copy=True)
            rec = RecordingTree(index.tree)
            index.tree = rec
        except Exception:  # noqa   (a rewrite without .tree: only the result is compared)
            rec = None
        for extra in range(run.get("others_between", 0)):
            try:
                if extra == 0:
                    other = GeoIndex(lat[::-1].copy(), lon[::-1].copy(), **kwargs)          # same size
                    other.query(qlat[:1], qlon[:1], r=radius_arg(case["r"]))
                else:
                    GeoIndex(np.concatenate([lat, lat[:1]]), np.concatenate([lon, lon[:1]]), **kwargs)   # another size
            except Exception as e:  # noqa
                o["error"] = f"second GeoIndex(): {type(e).__name__}: {str(e)[:120]}"
                return o
        sh2 = getattr(index, "shuffler", None)
        sh2 = None if sh2 is None else [int(t) for t in np.asarray(sh2).ravel()]
        if sh2 != o["shuffler"]:
            o["shuffler_changed"] = [o["shuffler"], sh2]
        try:
            res = index.query(qlat, qlon, r=radius_arg(case["r"]))
        except Exception as e:  # noqa
            o["error"] = f"query(): {type(e).__name__}: {str(e)[:120]}"
            return o
        if rec is not None and len(rec.calls) == 1:
            o["call"] = rec.calls[0]
        if not (isinstance(res, tuple) and len(res) == 2):
            o["error"] = f"query() returned {type(res).__name__}, not (pairs, distances)"
            return o
        pairs, dist = np.asarray(res[0]), np.asarray(res[1])
        o["pairs_shape"], o["dist_shape"] = list(pairs.shape), list(dist.shape)
        o["same_object"] = res[0] is res[1]
        if pairs.size == 0:
            o["pairs"], o["dist"] = [], ([] if dist.size == 0 else dist.ravel().tolist())
        elif pairs.ndim == 2 and pairs.shape[0] == 2:
            o["pairs"] = [(int(a), int(b)) for a, b in zip(pairs[0], pairs[1])]
            o["dist"] = [float(x) for x in dist.ravel()] if dist.dtype.kind in "fiu" else None
        else:
            o["error"] = f"pairs has shape {list(pairs.shape)}"
        # history: the caller reuses its query buffers -- the same array OBJECTS are overwritten in place with the query
        # points in reversed order and the same index is queried again; pair (i, j) must come back as (i, m-1-j)
        if run.get("requery_in_place") and "pairs" in o and qlat.size > 1:
            try:
                qlat[:] = qlat[::-1].copy()
                qlon[:] = qlon[::-1].copy()
                p3 = np.asarray(index.query(qlat, qlon, r=radius_arg(case["r"]))[0])
                mm = qlat.size
                o["pairs_requery"] = [] if p3.size == 0 else sorted((int(a), mm - 1 - int(b)) for a, b in zip(p3[0], p3[1]))
                qlat[:] = qlat[::-1].copy()
                qlon[:] = qlon[::-1].copy()
            except Exception as e:  # noqa
                o["pairs_requery_error"] = f"second query() on the overwritten arrays: {type(e).__name__}: {str(e)[:120]}"
        # the same query without distances: the pairs must be the same pairs (indices of the arrays as passed in)
        try:
            p2 = np.asarray(index.query(qlat, qlon, r=radius_arg(case["r"]), return_distance=False))
            if p2.size == 0:
                o["pairs_nodist"] = []
            elif p2.ndim == 2 and p2.shape[0] == 2:
                o["pairs_nodist"] = sorted((int(a), int(b)) for a, b in zip(p2[0], p2[1]))
            else:
                o["pairs_nodist_error"] = f"query(return_distance=False) returned shape {list(p2.shape)}"
        except Exception as e:  # noqa
            o["pairs_nodist_error"] = f"query(return_distance=False): {type(e).__name__}: {str(e)[:120]}"
        return o
    finally:
        np.random.set_state(state)


def tree_hypothesis(case, o, R):
    """rq_spec on this instance, independent of typhon: the recorded answer of the scikit-learn tree equals the
    brute-force evaluation of the recorded call (stored rows, query rows, radius) outside the guard band.
    Returns (holds, message)."""
    call = o.get("call")
    if call is None or "stored" not in o:
        return True, "no tree call recorded"
    try:
        X, Y, r = o["stored"], call["X"], float(call["r"])
        res = call["res"]
        if isinstance(res, tuple):
            jag_i, jag_d = res
        else:
            jag_i, jag_d = res, None
        if X.shape[1] == 3:
            Xl, Yl = X.astype(LD), Y.astype(LD)
            d = np.sqrt(((Xl[:, None, :] - Yl[None, :, :]) ** 2).sum(axis=2))
            band = LD(1e-9) * abs(r) + LD(1e-9) * d + LD(1e-4)
        else:
            def uv(A):
                la, lo = A[:, 0].astype(LD), A[:, 1].astype(LD)
                c = np.cos(la)
                return np.stack([c * np.cos(lo), c * np.sin(lo), np.sin(la)], axis=1)
            u, v = uv(X), uv(Y)
            diff = np.sqrt(((u[:, None, :] - v[None, :, :]) ** 2).sum(axis=2))
            summ = np.sqrt(((u[:, None, :] + v[None, :, :]) ** 2).sum(axis=2))
            d = LD(2) * np.arctan2(diff, summ)
            band = LD(1e-9) * abs(r) + LD(1e-9) * d + LD(2e-11) + LD(4e-15) / np.maximum(PI - d, LD(1e-12))
        inside = d <= LD(r)
        grey = np.abs(d - LD(r)) <= band
        for j in range(Y.shape[0]):
            got = np.zeros(X.shape[0], dtype=bool)
            idx = np.asarray(jag_i[j], dtype=int)
            if len(set(idx.tolist())) != len(idx):
                return False, f"tree reported a stored position twice for query row {j}"
            got[idx] = True
            bad = (got != inside[:, j]) & ~grey[:, j]
            if bad.any():
                t = int(np.nonzero(bad)[0][0])
                return False, (f"tree answer for query row {j} and stored position {t}: reported={bool(got[t])}, "
                               f"distance {float(d[t, j])!r} vs radius {r!r}")
            if jag_d is not None:
                dd = np.asarray(jag_d[j], dtype=float)
                ref = d[idx, j]
                off = np.abs(dd.astype(LD) - ref) > band[idx, j]
                off &= ~(np.isnan(dd) & grey[idx, j])
                if off.any():
                    t = int(idx[np.nonzero(off)[0][0]])
                    return False, f"tree distance for query row {j}, stored position {t} is off"
        return True, ""
    except Exception as e:  # noqa
        return True, f"tree hypothesis not evaluated ({type(e).__name__}: {e})"


# ----------------------------------------------------------------------------- Coq expressions

def obs_lit(o):
    """The recorded answers of the tree: per query row [(stored position, mantissa, k)]."""
    call = o.get("call")
    if call is None or not isinstance(call["res"], tuple):
        return None
    jag_i, jag_d = call["res"]
    rows = []
    for ii, dd in zip(jag_i, jag_d):
        items = []
        for t, x in zip(np.asarray(ii).tolist(), np.asarray(dd, dtype=float).tolist()):
            if not math.isfinite(x):
                return None
            mant, k = dbl_lit(x)
            if mant < 0 or mant >= 2 ** 62 or t < 0:
                return None
            items.append(f"({t}, {mant}, {k})")
        rows.append(coq_list(items))
    return coq_list(rows)


def case_expr(case, d_um, obs, R, tbl):
    n, m = len(case["lat"]), len(case["qlat"])
    mat = coq_list([coq_list([str(x) for x in row]) for row in d_um])
    Rq, mt, r = qlit(Fraction(R)), metric_lit(case), radius_lit(case["r"])
    models = []
    for o in obs:
        lit = obs_lit(o) if "pairs" in o else None
        if lit is None:
            models.append("None")
            continue
        s = o["shuffler"]
        if s is not None and any(t < 0 for t in s):
            models.append("None")
            continue
        sh = "None" if s is None else f"(Some {coq_list([str(t) for t in s])})"
        models.append(f"(Some (eval_model {Rq} {mt} {m} {sh} {lit}))")
    return (f"(eval_spec si_units {Rq} {mt} {r} {n} {m} {mat}, eval_r_tree {tbl} {Rq} {mt} {r}, "
            f"{coq_list(models)})")


# ----------------------------------------------------------------------------- generators

def _sph(rng):
    return math.degrees(math.asin(rng.uniform(-1, 1))), rng.uniform(-180, 180)


def _near(rng, lat, lon, spread_km):
    """A point about spread_km away (flat approximation, good enough for a generator)."""
    dlat = rng.gauss(0, 1) * spread_km / 111.2
    c = max(0.02, math.cos(math.radians(lat)))
    dlon = rng.gauss(0, 1) * spread_km / (111.2 * c)
    la = max(-90.0, min(90.0, lat + dlat))
    lo = ((lon + dlon + 180.0) % 360.0) - 180.0
    return la, lo


def _antipode(lat, lon):
    return -lat, (lon + 180.0 if lon <= 0 else lon - 180.0)


SPECIAL = [(90.0, 0.0), (90.0, 120.0), (-90.0, -45.0), (0.0, 180.0), (0.0, -180.0), (0.0, 0.0), (45.0, 180.0),
           (-45.0, -180.0), (89.9999, 10.0), (89.9999, -170.0), (0.0, 179.9999), (0.0, -179.9999), (-90.0, 0.0)]
SIZES_Q = [1, 1, 1, 2, 2, 3, 3, 4, 5, 6, 8, 10, 13, 20, 30, 50, 80, 120, 200]
UNITS = sorted(SI) + ["", "km", "m", "km", "m", "miles", "cm", "cm"]


def gen_radius(rng, r_km):
    """Write about r_km kilometres as a number or in some unit."""
    if rng.random() < 0.25:
        if r_km >= 3 and rng.random() < 0.4:
            return {"kind": "num", "x": str(int(round(r_km))), "int": True}
        return {"kind": "num", "x": repr(float(r_km))}
    unit = rng.choice(UNITS)
    x = float(Fraction(r_km) / (SI[unit] if unit else 1))
    style = rng.random()
    if style < 0.25 and x >= 3:
        text = str(int(round(x)))
    elif style < 0.45:
        text = "%.6e" % x
    elif style < 0.6:
        text = "%.3f" % x if x >= 0.01 else repr(x)
    else:
        text = repr(x)
    if float(text) == 0:
        text = repr(x)
    sep = rng.choice([" ", " ", "", "  "]) if unit else ""
    return {"kind": "str", "x": text, "sep": sep, "unit": unit}


def gen_runs(rng, case, k):
    runs = []
    for i in range(k):
        tree = rng.choice([None, "Ball", "KD"]) if metric_of(case) == "minkowski" else rng.choice([None, "Ball"])
        shuffle = rng.choice([None, True, True, False])
        # history: between the construction of the index and its query, other indexes are built (same size and
        # another size, same and other points) -- the answer of the first index must not depend on them
        runs.append({"tree": tree, "leaf": rng.choice([None, None, 1, 2, 5, 40, 100]), "shuffle": shuffle,
                     "seed": rng.randrange(2 ** 31), "others_between": rng.choice([0, 0, 1, 2]),
                     "requery_in_place": rng.random() < 0.4})
    if not any(r["shuffle"] is not False for r in runs):
        runs[0]["shuffle"] = True
    return runs


def gen_case(rng, k, nruns, big=None, dateline=None):
    """One input: build points, query points, radius, metric; and `nruns` constructions (tree class, leaf size,
    shuffle, seed)."""
    style = rng.choice(["global", "cluster", "cluster", "cluster", "grid", "single", "single", "special", "tiny"])
    if big:
        n, m = big
        style = rng.choice(["cluster", "global", "grid"])
    elif style == "tiny":
        n, m = rng.choice([1, 1, 2, 3]), rng.choice([1, 1, 2])
    elif style == "single":
        n, m = rng.choice([1, 2, 2, 3, 3, 4, 6]), rng.choice([1, 1, 2, 3])
    else:
        cap = 12000 if rng.random() < 0.04 else 2500          # entries of the dense matrix evaluated inside Coq
        n, m = rng.choice(SIZES_Q), rng.choice(SIZES_Q)
        while n * m > cap:
            n, m = rng.choice(SIZES_Q), rng.choice(SIZES_Q)
    metric = rng.choice([None, "minkowski", "haversine", "haversine"])
    pts, qs = [], []
    r_km = None
    if style == "global":
        pts = [_sph(rng) for _ in range(n)]
        qs = [_sph(rng) for _ in range(m)]
    elif style in ("cluster", "tiny"):
        c = rng.choice(SPECIAL) if rng.random() < 0.3 else _sph(rng)
        spread = 10 ** rng.uniform(-2.5, 3.5)
        pts = [_near(rng, *c, spread) for _ in range(n)]
        qs = [_near(rng, *c, spread) for _ in range(m)]
        r_km = spread * 10 ** rng.uniform(-0.7, 0.5)
    elif style == "grid":
        c = _sph(rng)
        step = 10 ** rng.uniform(-2, 0.5)
        w = max(1, int(math.sqrt(n)))
        pts = [(max(-90.0, min(90.0, c[0] * 0.8 + (i // w) * step)), ((c[1] + (i % w) * step + 180) % 360) - 180)
               for i in range(n)]                                     # sorted, almost gridded (the SEVIRI situation)
        qs = [_near(rng, *rng.choice(pts), step * 111 * 0.7) for _ in range(m)]
        r_km = step * 111 * 10 ** rng.uniform(-0.5, 0.4)
    elif style == "single":
        # build points far from each other; query 0 next to exactly one of them; the others far away
        pts = []
        while len(pts) < n:
            p = _sph(rng)
            pts.append(p)
        target = rng.randrange(n)
        off = 10 ** rng.uniform(-3, 0.5)
        qs = [_near(rng, *pts[target], off)] + [_sph(rng) for _ in range(m - 1)]
        r_km = off * 6
    elif style == "special":
        pool = SPECIAL + [_antipode(*p) for p in SPECIAL[:6]]
        pts = [rng.choice(pool) if rng.random() < 0.6 else _sph(rng) for _ in range(n)]
        qs = []
        for _ in range(m):
            t = rng.random()
            if t < 0.3:
                qs.append(rng.choice(pts))                          # coincides with a build point
            elif t < 0.5:
                qs.append(_antipode(*rng.choice(pts)))              # antipode of a build point
            elif t < 0.7:
                qs.append(_near(rng, *rng.choice(pts), 10 ** rng.uniform(-3, 2)))
            else:
                qs.append(rng.choice(pool))
    if dateline is not None:
        # directed, whatever the seed: ALL build points on one side of the date line, ALL query points on the other (or the
        # meridian itself written once as 180 and once as -180); the pairs reach across it
        n, m = 12, 5
        lat0 = [10.0, -35.0, 62.0, 0.0][dateline % 4]
        east = dateline % 2 == 0
        lon_b = (lambda: rng.uniform(179.0, 180.0)) if east else (lambda: rng.uniform(-180.0, -179.0))
        lon_q = (lambda: rng.uniform(-180.0, -179.0)) if east else (lambda: rng.uniform(179.0, 180.0))
        pts = [(lat0 + rng.uniform(-1, 1), lon_b()) for _ in range(n)]
        qs = [(lat0 + rng.uniform(-1, 1), lon_q()) for _ in range(m)]
        if dateline >= 4:
            pts[0], qs[0] = (lat0, 180.0), (lat0 + 0.01, -180.0)
        style, r_km = "dateline", 150.0
        metric = [None, "haversine"][dateline % 2] if dateline < 4 else ["haversine", "minkowski"][dateline % 2]
    # duplicates
    if n > 2 and rng.random() < 0.3:
        for _ in range(rng.randint(1, max(1, n // 4))):
            pts[rng.randrange(n)] = pts[rng.randrange(n)]
    if m > 1 and rng.random() < 0.2:
        qs[rng.randrange(m)] = rng.choice(pts)
    int_dtype = False
    if rng.random() < 0.08:
        # whole-degree coordinates, handed to GeoIndex as INTEGER arrays (np.arange grids): the same points as the floats
        pts = [(float(max(-90, min(90, round(p[0])))), float(max(-180, min(180, round(p[1]))))) for p in pts]
        qs = [(float(max(-90, min(90, round(q[0])))), float(max(-180, min(180, round(q[1]))))) for q in qs]
        int_dtype, r_km = True, None
    case = {"id": k, "style": style, "metric": metric, "int_dtype": int_dtype,
            "lat": [float(p[0]) for p in pts], "lon": [float(p[1]) for p in pts],
            "qlat": [float(q[0]) for q in qs], "qlon": [float(q[1]) for q in qs]}
    # radius: aimed just off the distance of a random pair, or log-uniform metres .. half the circumference,
    # or the one the style suggests
    t = rng.random()
    aimed = None
    if t < 0.35 or (r_km is None and t < 0.6):
        _, d = oracle(case, 6.3781e6)
        dij = float(d[rng.randrange(n), rng.randrange(m)]) / 1000.0
        if dij > 1e-3:
            aimed = dij * (1 + rng.choice([-1, 1]) * rng.choice([1e-6, 1e-4, 1e-2, 0.2]))
    if aimed is not None:
        r_km = aimed
    elif r_km is None or t > 0.85:
        r_km = 10 ** rng.uniform(-3, math.log10(20037.0))
    r_km = min(max(r_km, 1e-3), 20037.0)
    case["r"] = gen_radius(rng, r_km)
    case["runs"] = gen_runs(rng, case, nruns)
    return case


# ----------------------------------------------------------------------------- check of generated inputs

def _cls(case):
    r = case["r"]
    return "number" if r["kind"] == "num" else (UNIT_CLASS.get(r["unit"], r["unit"]) or "no-unit")


def check_cases(ctx, cases, tbl, stats):
    from typhon.constants import earth_radius
    R = float(earth_radius)
    prepared = []
    for case in cases:
        theta, d = oracle(case, R)
        d_um = [[int(x) for x in row] for row in np.rint(d * LD(1e6)).astype(np.int64).tolist()]
        obs = [run_impl(case, run) for run in case["runs"]]
        prepared.append((case, theta, d, d_um, obs))
    exprs = [case_expr(case, d_um, obs, R, tbl) for case, _, _, d_um, obs in prepared]
    shard = max(1, min(60, -(-len(exprs) // (2 * core.NPROC))))
    vals, log = core.coq_eval(ctx.work / "cases", "query", PREAMBLE, exprs, shard=shard, timeout=800)
    if log:
        ctx.log(log[-1500:])
    for (case, theta, d, d_um, obs), v in zip(prepared, vals):
        n, m = len(case["lat"]), len(case["qlat"])
        slim = {k: case[k] for k in case if k != "runs"}
        r_si = radius_km_si(case["r"])
        if v is None:
            ctx.cov["evaluations"] += len(obs)
            ctx.fail("correspondence", "Coq evaluation of the case failed", case=case, signature="coq-eval")
            continue
        spec_v, rtree_v, models = v
        if spec_v is None or r_si is None:
            # the radius is refused by the specification (zero length, unknown unit): not generated here
            ctx.fail("correspondence", f"radius {radius_text(case['r'])!r} is refused by the specification",
                     case=case, signature="radius-refused")
            continue
        spec = {(i, j): um for i, j, um in spec_v[1]}
        r_m = float(r_si * 1000)
        band = band_m(case, theta, d, r_m)
        grey = np.abs(d - LD(r_m)) <= band
        if metric_of(case) == "haversine":
            grey |= theta > PI - LD(1e-6)
        inside = {(int(i), int(j)) for i, j in zip(*np.nonzero(d <= LD(r_m)))}
        greyset = {(int(i), int(j)) for i, j in zip(*np.nonzero(grey))}
        if (set(spec) ^ inside) - greyset:
            ctx.fail("proof", "the specification evaluated in Coq and the harness oracle select different pairs",
                     case=slim, signature="oracle-vs-spec")
        ngrey = len(greyset)
        clear = len(inside - greyset)
        nontrivial = 0 < clear and len(inside | greyset) < n * m
        for run, o, mv in zip(case["runs"], obs, models):
            ctx.cov["evaluations"] += 1
            stats["runs"] += 1
            one = dict(slim, runs=[run])
            tag = f"{metric_of(case)}"
            if "error" in o and "pairs" not in o:
                ctx.fail("failing-input", f"{o['error']} (n={n}, m={m}, r={radius_text(case['r'])!r}, {run})",
                         case=one, impl=o.get("error"), signature="query-error")
                continue
            hyp_ok, hyp_msg = tree_hypothesis(case, o, R)
            sh = o["shuffler"]
            perm_ok = sh is None or sorted(sh) == list(range(n))
            got = o["pairs"]
            gotset = set(got)
            dists = o["dist"]
            kind = "failing-input" if hyp_ok else "correspondence"
            shortcut = bool(o.get("same_object")) and len(got) > 0
            problems = []
            # 1. the pairs: exactly the specification's, each once, indices of the arrays as passed in
            if len(gotset) != len(got):
                problems.append(("pairs-repeated", f"a pair is reported twice: {sorted(got)[:6]}"))
            if any(not (0 <= i < n and 0 <= j < m) for i, j in gotset):
                problems.append(("pairs-range", f"index out of range in {sorted(got)[:6]}"))
            missing = sorted(set(spec) - gotset - greyset)
            extra = sorted(gotset - set(spec) - greyset)
            if missing or extra:
                why = ""
                call = o.get("call")
                sig = "pairs:" + tag
                if case["r"]["kind"] == "str" and case["r"]["unit"]:
                    try:
                        from typhon.geographical import to_kilometers
                        km = float(to_kilometers(radius_text(case["r"])))
                        if abs(km - float(r_si)) > 1e-9 * float(r_si):
                            why = (f"; to_kilometers({radius_text(case['r'])!r}) = {km!r} km, the length is "
                                   f"{float(r_si)!r} km")
                            sig = "radius-unit:" + _cls(case)
                    except Exception:  # noqa
                        pass
                if not why and call is not None and rtree_v is not None:
                    rt = Fraction(rtree_v[1][0], rtree_v[1][1])
                    if abs(float(call["r"]) - float(rt)) > 1e-9 * float(rt):
                        why = f"; the tree was asked for radius {float(call['r'])!r}, the model for {float(rt)!r}"
                        sig = "radius:" + tag
                if o.get("shuffler_changed"):
                    sig = "history:" + tag
                    why += (f"; the index's shuffler changed from {o['shuffler_changed'][0][:8]} to {o['shuffler_changed'][1][:8]} "
                            f"when {run.get('others_between')} other GeoIndex objects were built between its construction and this query")
                if shortcut:
                    sig = "zero-pair-shortcut"
                    why += "; the pair array itself came back as `distances` (short cut taken for a non-empty result)"
                problems.append((sig, f"pairs missing {missing[:5]} ({len(missing)}), not within the radius "
                                      f"{extra[:5]} ({len(extra)}); shuffler {None if sh is None else sh[:8]}{why}"))
            # 1b. query(..., return_distance=False): the same pairs (outside the guard band), each once
            if "pairs_nodist_error" in o:
                problems.append(("nodist-error", o["pairs_nodist_error"]))
            elif "pairs_nodist" in o:
                nd = o["pairs_nodist"]
                ndset = set(nd)
                miss2 = sorted(set(spec) - ndset - greyset)
                extra2 = sorted(ndset - set(spec) - greyset)
                if len(ndset) != len(nd) or miss2 or extra2:
                    problems.append(("pairs-without-distances:" + tag,
                                     f"query(return_distance=False): pairs missing {miss2[:5]} ({len(miss2)}), not within the radius "
                                     f"{extra2[:5]} ({len(extra2)}), repeated {len(nd) - len(ndset)}; with distances the call returned "
                                     f"{sorted(got)[:5]}; shuffler {None if sh is None else sh[:8]}"))
            # 1c. the query arrays overwritten in place and queried again
            if "pairs_requery_error" in o:
                problems.append(("requery-error", o["pairs_requery_error"]))
            elif "pairs_requery" in o:
                rq = set(o["pairs_requery"])
                miss3 = sorted(set(spec) - rq - greyset)
                extra3 = sorted(rq - set(spec) - greyset)
                if miss3 or extra3:
                    problems.append(("history-requery:" + tag,
                                     f"the same index queried again with the SAME query arrays overwritten in place (reversed order): pairs "
                                     f"missing {miss3[:5]} ({len(miss3)}), not within the radius {extra3[:5]} ({len(extra3)}) (indices mapped back)"))
            # 2. the distances: one per pair, kilometres, aligned
            if dists is None or o["dist_shape"] != [len(got)]:
                sig = "zero-pair-shortcut" if shortcut else "distances-shape"
                problems.append((sig, f"distances have shape {o['dist_shape']} for {len(got)} pairs"
                                      + (" (the pair array itself is returned as distances)" if shortcut else "")))
            elif not (missing or extra):
                worst = None
                for (i, j), x in zip(got, dists):
                    if not (0 <= i < n and 0 <= j < m):
                        continue
                    if metric_of(case) == "haversine" and theta[i, j] > PI - LD(1e-6):
                        continue
                    ref = spec.get((i, j), d_um[i][j])
                    tol = 200 + 1e-9 * ref + float(band[i, j]) * 1e6
                    if not (abs(x * 1e9 - ref) <= tol):
                        worst = (i, j, x, ref / 1e9)
                        break
                if worst:
                    problems.append(("distances-km:" + tag,
                                     f"pair {worst[:2]} is reported at {worst[2]!r} km, its distance is {worst[3]!r} km"))
            for sig, msg in problems:
                ctx.fail(kind, f"GeoIndex.query: {msg} [n={n}, m={m}, r={radius_text(case['r'])!r}, metric={case['metric']}, "
                               f"tree={run['tree']}, leaf={run['leaf']}, shuffle={run['shuffle']}, seed={run['seed']}]"
                               + ("" if hyp_ok else f" -- TREE HYPOTHESIS FAILS: {hyp_msg}")
                               + ("" if perm_ok else " -- shuffler is not a permutation"),
                         case=one, impl={"pairs": sorted(got)[:50], "distances": (dists or [])[:50] if dists else o["dist_shape"],
                                         "shuffler": sh if sh is None else sh[:50]},
                         model={"pairs_within_radius": sorted(spec)[:50]}, signature=sig)
            if not hyp_ok and not problems:
                ctx.fail("correspondence", f"scikit-learn tree hypothesis fails on a recorded call: {hyp_msg}", case=one,
                         signature="tree-hypothesis")
            # 3. the model on the recorded tree answers = the implementation (algorithm correspondence)
            if mv is not None and not problems:
                mod = sorted((i, j, um) for i, j, um in mv[1])
                imp = sorted((i, j, x * 1e9) for (i, j), x in zip(got, dists))
                same = len(mod) == len(imp) and all(a[:2] == b[:2] and (abs(a[2] - b[2]) <= 2 + 1e-12 * abs(a[2]))
                                                     for a, b in zip(mod, imp))
                if not same:
                    ctx.fail("correspondence", "the model evaluated on the recorded tree answers differs from the result of "
                             f"GeoIndex.query although the result meets the specification (model {mod[:4]}, impl {imp[:4]})",
                             case=one, signature="model-vs-impl")
                stats["model_runs"] += 1
            if nontrivial and not problems:
                stats["nontrivial"].add((case["id"], run["seed"], run["tree"], run["leaf"], run["shuffle"]))
            stats["metric"][tag] = stats["metric"].get(tag, 0) + 1
            stats["tree"][o.get("tree_class", "?")] = stats["tree"].get(o.get("tree_class", "?"), 0) + 1
            stats["shuffled"] += sh is not None
            if sh is not None and sh != sorted(sh):
                stats["perms"].add(tuple(sh[:12]))
        stats["unit"][_cls(case)] = stats["unit"].get(_cls(case), 0) + 1
        stats["style"][case["style"]] = stats["style"].get(case["style"], 0) + 1
        stats["grey_pairs"] += ngrey
        stats["pairs_within"] += len(spec)
        stats["max_n"] = max(stats["max_n"], n)
        stats["max_m"] = max(stats["max_m"], m)
        if case["id"] % 37 == 0:
            ctx.sample({"n": n, "m": m, "metric": case["metric"], "r": radius_text(case["r"]), "style": case["style"],
                        "pairs_within_radius": len(spec), "boundary_pairs": ngrey, "runs": case["runs"][:2]}, limit=6)


# ----------------------------------------------------------------------------- to_kilometers

def gen_unit_cases(rng, k):
    cases = []
    for u in sorted(SI) + [""]:
        for text in ["5", "5000", "3.1", "500000", "2.5e3", "0.001", "1e-3", "12756.2", "7", "0", "0.0"]:
            cases.append({"x": text, "sep": rng.choice([" ", "", "  "]) if u else "", "unit": u})
    for _ in range(k):
        u = rng.choice(sorted(SI) + ["", "parsec", "kms", "M", "Km", "nm", "inch"])
        x = 10 ** rng.uniform(-3, 7)
        text = rng.choice([repr(x), "%.4g" % x, str(int(x) + 1), "%.3e" % x])
        cases.append({"x": text, "sep": rng.choice([" ", "", "  "]) if u else "", "unit": u})
    return cases


def check_units(ctx, cases, tbl, stats):
    from typhon.geographical import to_kilometers
    exprs = []
    for c in cases:
        lit = f"(RStr {qlit(Fraction(float(c['x'])))} {coq_string(c['unit'])}%string)"
        exprs.append(f"(eval_to_km si_units {lit}, eval_to_km {tbl} {lit})")
    vals, log = core.coq_eval(ctx.work / "cases", "units", PREAMBLE, exprs, shard=400)
    if log:
        ctx.log(log[-1500:])
    for c, v in zip(cases, vals):
        ctx.cov["evaluations"] += 1
        text = f"{c['x']}{c['sep']}{c['unit']}"
        try:
            got = float(to_kilometers(text))
        except ValueError:
            got = None
        except Exception as e:  # noqa
            got = f"{type(e).__name__}: {e}"
        if v is None:
            ctx.fail("correspondence", "Coq evaluation of to_km failed", case=c, signature="coq-eval")
            continue
        si, gen = v

        def val(t):
            return None if t is None else Fraction(t[1][0], t[1][1])

        def agree(a, b):
            if a is None or b is None or isinstance(a, str):
                return a is None and b is None
            return abs(a - float(b)) <= 1e-12 * abs(float(b))
        si, gen = val(si), val(gen)
        cls = UNIT_CLASS.get(c["unit"], c["unit"] or "no-unit")
        if not agree(got, si):
            ctx.fail("failing-input", f"to_kilometers({text!r}) = {got!r}, the length is "
                     f"{'refused (ValueError expected)' if si is None else repr(float(si)) + ' km'}",
                     case={"to_kilometers": c}, impl=got, model=None if si is None else float(si), signature="unit:" + cls)
        elif not agree(got, gen):
            ctx.fail("correspondence", f"to_kilometers({text!r}) = {got!r} but the model on the translated table gives "
                     f"{None if gen is None else float(gen)!r}", case={"to_kilometers": c}, signature="unit-model:" + cls)
        if si is not None and c["unit"]:
            stats["unit_nontrivial"].add(text)


# ----------------------------------------------------------------------------- run / replay

def new_stats():
    return {"runs": 0, "model_runs": 0, "nontrivial": set(), "metric": {}, "tree": {}, "unit": {}, "style": {}, "shuffled": 0,
            "perms": set(), "grey_pairs": 0, "pairs_within": 0, "max_n": 0, "max_m": 0, "unit_nontrivial": set()}


def run(ctx):
    gen_ok = write_gen(ctx)
    tbl = "gen_units" if gen_ok else "si_units"
    ctx.prove("Props/C06.v")
    ctx.prove("Props/C06_units.v")
    ctx.prove("Props/C06_metric.v")
    stats = new_stats()
    rng = ctx.rng
    ninputs, nruns = ctx.n(200, 3000), ctx.n(3, 8)
    check_units(ctx, gen_unit_cases(rng, ctx.n(100, 2000)), tbl, stats)
    big = [(3, 1500), (2, 2600), (1200, 4)]         # more than a thousand query / build points also in the quick tier
    if ctx.thorough:
        big = [(5000, 3), (3, 5000), (5000, 1), (2000, 8), (8, 2000), (1000, 20), (20, 1000), (500, 60), (60, 500),
               (300, 200), (3500, 4), (1, 5000)]
    cases = []
    for k in range(ninputs):
        b = big[k // 50] if (big and k % 50 == 49 and k // 50 < len(big)) else None
        dl = (k // 10) if (k % 10 == 5 and k // 10 < 6) else None
        cases.append(gen_case(rng, k, nruns if not b else 3, big=b, dateline=dl))
    batch = 400
    for s in range(0, len(cases), batch):
        check_cases(ctx, cases[s:s + batch], tbl, stats)
        ctx.log(f"inputs {min(s + batch, len(cases))}/{len(cases)}: {stats['runs']} runs, failures so far {len(ctx.failures)}")
    ctx.cov["distinct_nontrivial"] = len(stats["nontrivial"]) + len(stats["unit_nontrivial"])
    ctx.cov["rule"] = ("a run = one GeoIndex built (metric, tree class, leaf size, shuffle, numpy seed) over one input (build points, "
                       "query points, radius) and queried once; it is non-trivial when at least one pair lies clearly within the "
                       "radius and at least one pair does not (pairs inside the guard band around the radius do not count) and the "
                       "result was accepted; distinct by (input, seed, tree, leaf, shuffle). A to_kilometers case is non-trivial "
                       "when it carries a known unit and a non-zero length; distinct by text.")
    ctx.cov["input_distribution"] = {
        "inputs": len(cases), "runs": stats["runs"], "runs_with_model_evaluated_on_recorded_tree_answers": stats["model_runs"],
        "metric": stats["metric"], "tree_class": stats["tree"], "radius_written_as": stats["unit"], "styles": stats["style"],
        "runs_shuffled": stats["shuffled"], "distinct_nonidentity_permutations_read_back(prefix 12)": len(stats["perms"]),
        "pairs_within_radius_total": stats["pairs_within"], "pairs_in_guard_band_total": stats["grey_pairs"],
        "max_build_points": stats["max_n"], "max_query_points": stats["max_m"],
        "guard_band": "|d - r| <= 1e-4 m + 1e-9 r + 1e-9 d (+ 1e-7 m / (pi - angle) for haversine; angle > pi - 1e-6 always boundary)",
        "to_kilometers_cases": len(stats["unit_nontrivial"]),
    }
    ctx.assumptions += [
        "rq_spec: the scikit-learn tree returns exactly the stored rows within the radius with their distances (checked per run "
        "on the recorded call; a run where it fails is not used as a counter-example)",
        "the shuffler read back from the index is a permutation of 0..n-1 (checked per run)",
        "decisions inside the guard band around the radius are not compared (either outcome accepted)",
        "KD tree + haversine is rejected by scikit-learn itself and is not generated; the largest inputs have 5000 points on one "
        "side and at most 8 on the other (the dense distance matrix is evaluated inside Coq)",
        "query() is called as in the statement (return_distance left at its default True) and once more with return_distance=False (pairs only)",
    ]
    return ctx.finish(trusted_base=TRUSTED)


def replay(ctx, rec):
    gen_ok = write_gen(ctx)
    tbl = "gen_units" if gen_ok else "si_units"
    ctx.failures = [f for f in ctx.failures if f.kind != "translation"] if rec.get("kind") != "translation" else ctx.failures
    case = rec.get("case") or {}
    stats = new_stats()
    if "to_kilometers" in case:
        check_units(ctx, [case["to_kilometers"]], tbl, stats)
    elif "lat" in case:
        check_cases(ctx, [case], tbl, stats)
    else:
        ctx.prove("Props/C06.v")
        ctx.prove("Props/C06_units.v")
    for f in ctx.failures:
        print("still fails:", f.what[:400])
    return 1 if ctx.failures else 0
