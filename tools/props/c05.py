"""C05 -- collocating two filesets = collocating all their data, for any process count, bundle mode,
output kind and split into files.

Theorems: coq/theories/Props/C05.v
  * union_over_matches / pipeline_exact: the model of collocate_filesets (find -> match (C03) -> array_split
    over the workers -> per worker flat pairs, collocate per pair, bundling state machine) emits, summed over
    all workers and bundles, exactly collocate(all data of A, all data of B), each pair once -- for every
    process count, bundle mode and split of the data into files (hypotheses: unique points, every point inside
    the coverage of its file, max_interval a whole number of seconds >= 0; `collocate` is a parameter that is
    assumed to return exactly the pairs meeting the criterion);
  * bundling_lossless, skip_errors_local, array_split_concat, file_output_lossless (+ the refutation of
    losslessness when two emitted sets get the same name), queue_exactly_once / queue_bounded / queue_progress
    over all interleavings of the result queue.
Tie: tools/harness/c05_driver.py runs the real collocate_filesets / Collocations.search end to end (pickle
handler, 1-4 worker processes, logged result queue); the model and the specification are evaluated on the same
case inside Coq; the spatial relation is decided by an independent long-double chord computation.
Style "slow-consumer" (some runs of every tier + one directed case): output to memory, 2-4 processes, 5-7 primary
files with partners in every one of them, and a caller that spends 0.2-0.4 s on each yielded dataset -- the workers
fill the bounded result queue and exit while the parent is suspended at its `yield`, so whatever the parent's wait
loop fails to drain after the last worker died is missing from the total (a failing input, not only a queue trace
the model rejects).  Style "slow-poll": the same kind of data, but the parent is held up 0.1-0.2 s every time
results.empty() has answered True and one worker is made to finish clearly last (reader delay on the last primary
file): its last results become visible and it ends between the parent's last look into the queue and the snapshot that
finds nobody alive -- exactly the state in which, by theorem drain_needed, a parent without the drain after the last
worker died loses what is in the queue.  The total never depends on those pauses for the code as it is (theorems
queue_exactly_once, queue_liveness, drain_needed).
Style "skip-bundle" (directed cases under every seed + some generated runs of every tier): skip_file_errors with an
unreadable primary or secondary file that is the FIRST or a MIDDLE one of its worker's chunk, bundle='primary' /
'daily', output to memory and to files, 1-2 processes, collocations in every file pair after the unreadable file (so
that a bundle is cached when the worker's loop ends) and data that straddle midnight (daily bundles of the unreadable
file's day and of the next).  A skipped pair makes `processed` lag behind len(matches) for the rest of the loop; the
law is the one of theorem skip_errors_local: exactly the collocations with a point of the unreadable file are missing,
every other one is reported once -- the worker's last cached bundle included (theorems bundling_lossless_with_skips,
guarded_final_flush_exact: a final flush that waits for processed == len(matches) never happens after a skip).
"""
import json
import math
import os
from concurrent.futures import ThreadPoolExecutor
from pathlib import Path

from lib import core
from lib.core import zlit, coq_list

PREAMBLE = "From Typhon Require Import Model.C05_pipeline Model.C05_queue.\n"
DRIVER = core.VERIF / "tools" / "harness" / "c05_driver.py"
US = 1000000
BIG = 10 ** 15                      # "no period": far outside every generated time (microseconds)
SHADOW_A, SHADOW_B = 100000, 200000
PROCESS_NAMES = ['Newton', 'Einstein', 'Bohr', 'Darwin', 'Pasteur', 'Freud', 'Galilei', 'Lavoisier']

TRUSTED = [
    "correspondence harness tools/props/c05.py + tools/harness/c05_driver.py (generators, pickle file handler, "
    "logging subclasses of multiprocessing Queue/Process, canonical sorting of id pairs; schedule perturbations: reader "
    "delays, a caller that pauses after every yielded dataset, a parent held up after every results.empty() == True)",
    "independent spatial oracle: 3-D chord between geocentric points in numpy long double, radius typhon.constants.earth_radius",
    "Collocator.collocate (property C04) enters the theorems as a parameter with the hypothesis that it returns exactly the "
    "pairs meeting the criterion; BallTree, xarray selection, pickling are exercised, not modelled",
    "FileSet.find (property C01) is modelled by its brute-force specification (coverage intersects the widened period)",
    "multiprocessing.Queue: no loss, per-producer FIFO, everything a worker has put is visible to empty()/get() once "
    "that worker is no longer alive (hypothesis of the queue model: Die needs an empty feeder)",
]


# ----------------------------------------------------------------------------- spatial oracle

def chord_km(p, q):
    import numpy as np
    from typhon.constants import earth_radius
    ld = np.longdouble
    r = ld(earth_radius)

    def cart(lat, lon):
        la, lo = np.deg2rad(ld(lat)), np.deg2rad(ld(lon))
        return r * np.cos(la) * np.cos(lo), r * np.cos(la) * np.sin(lo), r * np.sin(la)
    a, b = cart(p[1], p[2]), cart(q[1], q[2])
    return float(np.sqrt((a[0] - b[0]) ** 2 + (a[1] - b[1]) ** 2 + (a[2] - b[2]) ** 2) / ld(1000))


def near_pairs(case):
    """(id_a, id_b) of all point pairs closer than max_distance; None when some pair is too close to the
    threshold to be decided independently of rounding (the generator then draws again)."""
    out = []
    md = case["md"]
    pa = [p for f in case["A"] for p in f["pts"]]
    pb = [p for f in case["B"] for p in f["pts"]]
    for p in pa:
        for q in pb:
            if abs(p[1] - q[1]) > 3 and abs(p[1] - q[1]) * 111 > 2 * md:
                continue
            d = chord_km(p, q)
            if abs(d - md) <= 1e-6 * md:
                return None
            if d < md:
                out.append((p[3], q[3]))
    return out


# ----------------------------------------------------------------------------- generator

def period_us(case):
    s = -BIG if case["start"] is None else case["start"] * US
    e = BIG if case["end"] is None else case["end"] * US
    return s, e


def found_idx(case, which):
    s, e = period_us(case)
    m = case["mi"] * US
    return [k for k, f in enumerate(case[which]) if f["c0"] * US < e + m and s - m <= f["c1"] * US]


def tainted(case, near):
    """True when some matched file pair has, inside the time window collocate() selects, exactly the one
    collocation (first point, first point): Collocator.collocate then returns None (`pairs.any()`, defect of
    property C04, DESIGN section 6 #5).  Such cases are not used by this check."""
    nearset = set(near)
    s, e = period_us(case)
    m = case["mi"] * US
    for fa in case["A"]:
        for fb in case["B"]:
            ta = [p[0] for p in fa["pts"]]
            tb = [p[0] for p in fb["pts"]]
            cs = max(s, min(ta) - m, min(tb) - m)
            ce = min(e, max(ta) + m, max(tb) + m)
            wa = sorted([p for p in fa["pts"] if cs <= p[0] <= ce], key=lambda p: p[0])
            wb = sorted([p for p in fb["pts"] if cs <= p[0] <= ce], key=lambda p: p[0])
            sp = [(i, j) for i, p in enumerate(wa) for j, q in enumerate(wb) if (p[3], q[3]) in nearset]
            st = [(i, j) for (i, j) in sp if abs(wa[i][0] - wb[j][0]) < m]
            if sp == [(0, 0)] or st == [(0, 0)]:
                return True
            # equal times make the order inside the window depend on the sort: not generated, but be safe
            if len({p[0] for p in wa}) < len(wa) or len({p[0] for p in wb}) < len(wb):
                return True
    return False


def gen_case(rng, k, style=None):
    for _attempt in range(200):
        c = _gen_case(rng, k, style)
        if c is None:
            continue
        near = near_pairs(c)
        if near is None or tainted(c, near):
            continue
        c["near"] = [list(x) for x in near]
        return c
    raise RuntimeError("generator: no admissible case in 200 attempts")


def _gen_case(rng, k, style):
    style = style or rng.choice(["dense", "dense", "sparse", "sparse", "boundary", "cover", "gaps", "aligned"])
    unit = rng.choice([60, 600, 3600, 6 * 3600])
    nslots = rng.randint(3, 8)
    H = unit * nslots
    base = rng.choice([0, 0, 86400 - H // 2, 2 * 86400 - unit])          # some data straddles midnight
    mi = rng.choice([1, 5, 30, 300, unit // 2, unit])
    md = rng.choice([1.0, 5.0, 50.0])
    step = 8 * md / 111.0                                              # site grid spacing in degrees (>= 6.9 md)
    nsites = rng.randint(2, 6)
    sites = rng.sample([(i, j) for i in range(-6, 7) for j in range(-10, 11)], nsites)

    def cut(which, nmax, cover, nmin=1):
        if cover:
            return [[base - rng.randint(0, unit), base + H + rng.randint(0, unit)]]
        n = rng.randint(nmin, nmax)
        cuts = sorted(rng.sample(range(1, H // 10), min(n - 1, H // 10 - 1))) if n > 1 else []
        edges = [0] + [x * 10 for x in cuts] + [H]
        files = []
        for a, b in zip(edges[:-1], edges[1:]):
            if b - a < 4:
                continue
            if style == "gaps" and len(edges) > 2 and rng.random() < 0.3:
                continue                                              # a missing file
            lo, hi = a, b - 1
            if style == "gaps" and rng.random() < 0.4 and hi - lo > 20:
                hi -= rng.randint(1, (hi - lo) // 3)                  # coverage ends early: a gap
            files.append([base + lo, base + hi])
        if not files:
            files = [[base, base + H - 1]]
        if rng.random() < 0.15 and len(files) > 1:                    # overlapping coverages
            j = rng.randrange(len(files) - 1)
            files[j][1] = min(files[j + 1][1] - 1, files[j][1] + rng.randint(1, unit))
        return files
    skipb = style == "skip-bundle"
    slow = style in ("slow-consumer", "slow-poll") or skipb       # skip-bundle: the same kind of data
    if skipb:                                    # the data straddle midnight; 4-7 primary files over 2-3 secondary files
        base = rng.choice([86400 - H // 2, 86400 - H // 2, 2 * 86400 - unit, 0])
        cov_a = cut("A", 7, False, 4)
        cov_b = cut("B", 3, False, 2)
    elif slow:                                     # many primary files (one small result each), few secondary files
        cov_a = cut("A", 7, False, 5)
        cov_b = cut("B", 2, False)
    else:
        cov_a = cut("A", 5, style == "cover" and rng.random() < 0.4)
        cov_b = cut("B", 6, style == "cover")
    if style == "aligned":                       # both filesets cut at the same instants: partners across a cut
        cov_b = [list(f) for f in cov_a]         # are found only through the widening by max_interval
    ids = {"A": 0, "B": 1000}

    def point(which, f, site=None, t=None):
        if t is None:
            t = rng.randint((f[0] + 1) * US + 1, f[1] * US)
        if not ((f[0] + 1) * US < t <= f[1] * US):
            return None
        si = site if site is not None else rng.choice(sites)
        ang, rad = rng.random() * 2 * math.pi, rng.random() * 0.3 * md / 111.0
        lat = si[0] * step + rad * math.sin(ang)
        lon = si[1] * step + rad * math.cos(ang)
        ids[which] += 1
        return [t, lat, lon, ids[which]]
    files = {"A": [{"c0": f[0], "c1": f[1], "pts": []} for f in cov_a],
             "B": [{"c0": f[0], "c1": f[1], "pts": []} for f in cov_b]}
    npts = (1, 3) if style in ("sparse", "boundary") else (2, 6)
    for which in "AB":
        for f in files[which]:
            for _ in range(rng.randint(*npts)):
                p = point(which, (f["c0"], f["c1"]))
                if p:
                    f["pts"].append(p)
    # seeded partners: a point of A gets partners in B close in time (also across file boundaries)
    if slow:                                     # every primary file has partners: every match gives a result
        seeds = list(files["A"])
    else:
        seeds = [None] * (rng.randint(1, 4) if style != "dense" else rng.randint(3, 8))
    for fa in seeds:
        if fa is None:
            fa = rng.choice(files["A"])
        site = rng.choice(sites)
        p = point("A", (fa["c0"], fa["c1"]), site)
        if not p:
            continue
        fa["pts"].append(p)
        for fb in files["B"]:
            if slow or rng.random() < 0.7:
                dt = rng.randint(-mi * US + 1, mi * US - 1)
                q = point("B", (fb["c0"], fb["c1"]), site, p[0] + dt)
                if q:
                    fb["pts"].append(q)
    if style == "boundary" and len(files["B"]) > 1:
        # one primary point within max_interval of partners in two consecutive secondary files:
        # two emitted sets with the same first/last primary time
        j = rng.randrange(len(files["B"]) - 1)
        fb1, fb2 = files["B"][j], files["B"][j + 1]
        tb = fb2["c0"] * US
        site = rng.choice(sites)
        for fa in files["A"]:
            p = point("A", (fa["c0"], fa["c1"]), site, tb + rng.randint(-mi * US // 3, mi * US // 3) + 1)
            if p:
                fa["pts"].append(p)
                q1 = point("B", (fb1["c0"], fb1["c1"]), site, fb1["c1"] * US - rng.randint(0, mi * US // 4))
                q2 = point("B", (fb2["c0"], fb2["c1"]), site, (fb2["c0"] + 1) * US + 1 + rng.randint(0, mi * US // 4))
                if q1:
                    fb1["pts"].append(q1)
                if q2:
                    fb2["pts"].append(q2)
                break
    for which in "AB":
        files[which] = [f for f in files[which] if f["pts"]]
        if not files[which]:
            return None
    # shadows: a far-away point one microsecond before every point, so that a lone collocation is never the
    # index pair (0, 0) of its window (see tainted())
    if style in ("sparse", "boundary", "gaps") or rng.random() < 0.5:
        for which, lat0, sid in (("A", 70.0, SHADOW_A), ("B", -70.0, SHADOW_B)):
            n = 0
            for f in files[which]:
                extra = []
                for p in f["pts"]:
                    n += 1
                    extra.append([p[0] - 1, lat0 + (n % 7) * 0.5, -170.0 + n * 1.3, sid + n])
                f["pts"] = sorted(f["pts"] + extra, key=lambda p: p[0])
    for which in "AB":
        for f in files[which]:
            rng.shuffle(f["pts"]) if rng.random() < 0.3 else f["pts"].sort(key=lambda p: p[0])
        ts = [p[0] for f in files[which] for p in f["pts"]]
        if len(set(ts)) < len(ts):
            return None
    r = rng.random()
    if slow:
        r = 0.0                                  # the whole data: as many results as there are matches
    if r < 0.55:
        start, end = base - unit - mi, base + H + unit + mi
    elif r < 0.9:
        start = base + rng.randint(0, H // 2)
        end = start + rng.randint(max(2, H // 8), H)
    else:
        start, end = None, None
    for which in "AB":
        for f in files[which]:
            for p in f["pts"]:
                if start is not None and p[0] in (start * US, end * US):
                    return None
    case = {"id": k, "style": style, "A": files["A"], "B": files["B"], "mi": mi, "md": md, "start": start, "end": end,
            "processes": rng.randint(1, 4), "bundle": rng.choice([None, "primary", "daily"]),
            "output": rng.choice(["memory", "memory", "files", "files", "search"]),
            "bad": None, "skip": False, "np_seed": rng.randint(0, 10 ** 6), "delays": {}}
    if rng.random() < 0.2:
        which = rng.choice("AB")
        fnd = found_idx(case, which)
        if fnd:
            case["bad"] = [which, rng.choice(fnd)]
            case["skip"] = True
    for which in "AB":
        for j in range(len(files[which])):
            if rng.random() < 0.3:
                case["delays"][f"{which}:{j}"] = rng.choice([0.005, 0.02, 0.05])
    if slow:
        case.update({"processes": rng.randint(2, 4), "bundle": rng.choice([None, None, "primary"]), "output": "memory",
                     "bad": None, "skip": False})
    if skipb:
        # one unreadable file that is not the last one of its fileset in the period (file pairs with collocations come
        # after it in its worker's chunk), skip_file_errors, bundling on
        which = rng.choice("AB")
        fnd = found_idx(case, which)[:-1]
        if not fnd:
            return None
        case.update({"processes": rng.randint(1, 2), "bundle": rng.choice(["primary", "daily"]),
                     "output": rng.choice(["memory", "files"]), "bad": [which, rng.choice(fnd)], "skip": True})
    if style == "slow-consumer":
        # the caller takes its time for every yielded dataset; several workers, results handed over one by one
        case["consumer_sleep"] = rng.choice([0.2, 0.3, 0.4])
    if style == "slow-poll":
        # the parent pauses whenever it found the queue empty, and the worker with the last primary file finishes well
        # after everything else has been taken out of the queue
        case["poll_sleep"] = rng.choice([0.1, 0.15, 0.2])
        case["delays"][f"A:{len(files['A']) - 1}"] = rng.choice([1.2, 1.4])
    return case


def skip_bundle_directed(full):
    """skip_file_errors x bundle primary/daily x output memory/files x processes 1/2 x an unreadable primary /
    secondary file that is the first / a middle one of its worker's chunk.  Five primary files of 10 minutes
    (A0, A1 before midnight, A2..A4 after it) over three secondary files of 1000 s; every matched file pair
    (A0-B0, A1-B0, A1-B1, A2-B1, A3-B1, A3-B2, A4-B2) holds two collocations, each at a site of its own, every
    primary point has one partner (no two emitted sets with the same span).  With two processes the workers get
    A0..A2 (both days) and A3, A4.  `full` (thorough): all 32 combinations; otherwise the 16 combinations of
    bundle x output x processes x fileset of the unreadable file, first / middle alternating."""
    U = US
    o = 2 * 86400 - 1200                                # A2 starts at midnight of the third day
    pairs = {(0, 0): (100, 400), (1, 0): (700, 900), (1, 1): (1050, 1150), (2, 1): (1300, 1700),
             (3, 1): (1850, 1950), (3, 2): (2100, 2300), (4, 2): (2500, 2900)}
    a = [{"c0": o + 600 * k, "c1": o + 600 * k + 599, "pts": []} for k in range(5)]
    b = [{"c0": o + 1000 * j, "c1": o + 1000 * j + 999, "pts": []} for j in range(3)]
    site = 0
    for (k, j), ts in sorted(pairs.items()):
        for t in ts:
            site += 1
            a[k]["pts"].append([(o + t) * U + 3 * site, 0.0, float(site), site])
            b[j]["pts"].append([(o + t + 2) * U + 7 * site, 0.0, site + 0.01, 1000 + site])
    for f in a + b:
        f["pts"].sort(key=lambda p: p[0])
    out = []
    for ib, bundle in enumerate(("primary", "daily")):
        for io, output in enumerate(("memory", "files")):
            for ip, procs in enumerate((1, 2)):
                for iw, which in enumerate("AB"):
                    for pos in (0, 1):
                        if not full and pos != (ib + io + ip + iw) % 2:
                            continue
                        out.append({"style": "skip-bundle-directed", "A": [dict(f) for f in a], "B": [dict(f) for f in b],
                                    "mi": 30, "md": 5.0, "start": o - 100, "end": o + 3100, "processes": procs,
                                    "bundle": bundle, "output": output, "bad": [which, pos], "skip": True})
    return out


def directed_cases(rng, k0, full=False):
    """Cases every run contains whatever the seed: no matching file pair; the default period; a primary point
    with partners in two secondary files (two output files with one name)."""
    U = US
    out = []
    a = [{"c0": 0, "c1": 99, "pts": [[10 * U + 3, 0.0, 0.0, 1], [50 * U + 7, 0.0, 1.0, 2]]}]
    b = [{"c0": 5000, "c1": 5099, "pts": [[5010 * U + 1, 0.0, 0.0, 1001], [5050 * U + 9, 0.0, 1.0, 1002]]}]
    out.append({"style": "no-matching-pair", "A": a, "B": b, "mi": 5, "md": 5.0, "start": -100, "end": 6000,
                "processes": 2, "bundle": None, "output": "memory"})
    a = [{"c0": 0, "c1": 599, "pts": [[9 * U, 70.0, 0.0, 90], [10 * U + 3, 0.0, 0.0, 1], [300 * U + 7, 0.0, 1.0, 2]]},
         {"c0": 600, "c1": 1199, "pts": [[609 * U, 70.0, 5.0, 91], [610 * U + 1, 0.0, 3.0, 3], [900 * U + 5, 0.0, 4.0, 4]]}]
    b = [{"c0": 0, "c1": 1199, "pts": [[11 * U, -70.0, 0.0, 1090], [12 * U + 1, 0.0, 0.01, 1001],
                                      [305 * U, 0.0, 1.01, 1002], [880 * U + 9, 0.0, 4.01, 1003]]}]
    out.append({"style": "default-period", "A": a, "B": b, "mi": 30, "md": 5.0, "start": None, "end": None,
                "processes": 1, "bundle": "primary", "output": "memory"})
    a = [{"c0": 0, "c1": 1199, "pts": [[100 * U, 70.0, 0.0, 90], [598 * U, 70.0, 3.0, 91], [600 * U + 5, 0.0, 2.0, 1],
                                      [1000 * U + 1, 0.0, 3.0, 2]]}]
    b = [{"c0": 0, "c1": 599, "pts": [[100 * U + 1, -70.0, 0.0, 1090], [580 * U, -70.0, 2.0, 1091], [595 * U + 3, 0.0, 2.01, 1001]]},
         {"c0": 600, "c1": 1199, "pts": [[601 * U, -70.0, 4.0, 1092], [604 * U + 7, 0.0, 2.0, 1002], [1100 * U, 10.0, 10.0, 1003]]}]
    out.append({"style": "one-primary-two-secondary-files", "A": a, "B": b, "mi": 30, "md": 5.0, "start": -100, "end": 2000,
                "processes": 1, "bundle": None, "output": "files"})
    a = [{"c0": 0, "c1": 599, "pts": [[100 * U, 70.0, 0.0, 90], [101 * U + 3, 0.0, 0.0, 1], [594 * U, 70.0, 3.0, 91],
                                     [595 * U + 5, 0.0, 2.0, 2]]}]
    b = [{"c0": 0, "c1": 599, "pts": [[99 * U, -70.0, 0.0, 1090], [103 * U + 1, 0.0, 0.01, 1001]]},
         {"c0": 600, "c1": 1199, "pts": [[602 * U, -70.0, 4.0, 1092], [603 * U + 7, 0.0, 2.0, 1002], [1100 * U, 10.0, 10.0, 1003]]}]
    out.append({"style": "partners-across-a-common-cut", "A": a, "B": b, "mi": 30, "md": 5.0, "start": -100, "end": 2000,
                "processes": 2, "bundle": "primary", "output": "memory"})
    # six primary files with one collocation each, three workers, a caller that needs 0.3 s per yielded dataset:
    # the last results are put (and their workers gone) while the parent is suspended at its `yield`
    a = [{"c0": 100 * k, "c1": 100 * k + 99,
          "pts": [[(100 * k + 10) * U, 70.0, float(k), 90 + k], [(100 * k + 11) * U + 3, 0.0, float(k), 1 + k]]}
         for k in range(6)]
    b = [{"c0": 0, "c1": 599,
          "pts": [p for k in range(6) for p in ([(100 * k + 12) * U, -70.0, float(k), 1090 + k],
                                                [(100 * k + 13) * U + 1, 0.0, k + 0.01, 1001 + k])]}]
    out.append({"style": "slow-consumer-directed", "A": a, "B": b, "mi": 30, "md": 5.0, "start": -100, "end": 2000,
                "processes": 3, "bundle": None, "output": "memory", "consumer_sleep": 0.3})
    # the same data, a parent that pauses 0.15 s whenever it found the queue empty and a third worker whose last file
    # takes 1.2 s to read: its last result arrives when everything else has been yielded, and it is gone itself before
    # the parent asks who is alive
    out.append({"style": "slow-poll-directed", "A": [dict(f) for f in a], "B": [dict(f) for f in b], "mi": 30,
                "md": 5.0, "start": -100, "end": 2000, "processes": 3, "bundle": None, "output": "memory",
                "poll_sleep": 0.15, "delays": {"A:5": 1.2}})
    # max_interval of more than a day (26 h): the files do not overlap, they lie 25 h apart; the two points are partners
    a = [{"c0": 0, "c1": 599, "pts": [[100 * U + 3, 0.0, 0.0, 1], [300 * U, 70.0, 0.0, 90]]}]
    b = [{"c0": 90000, "c1": 90599, "pts": [[90050 * U + 1, 0.0, 0.01, 1001], [90300 * U, -70.0, 0.0, 1090]]},
         {"c0": 200000, "c1": 200599, "pts": [[200050 * U, 0.0, 0.0, 1002]]}]
    out.append({"style": "max-interval-above-a-day", "A": a, "B": b, "mi": 93600, "md": 5.0, "start": -100, "end": 300000,
                "processes": 1, "bundle": None, "output": "memory"})
    # an unreadable primary file under skip_file_errors that is NOT the last one of its worker and has secondary files only
    # it needs: three 60-minute primary files over nine 20-minute secondary files, the first (resp. middle) primary unreadable;
    # exactly the collocations of that primary file are lost, the others come out
    a = [{"c0": 3600 * k, "c1": 3600 * k + 3599,
          "pts": [[(3600 * k + 600 * j + 10) * U + 3, 0.0, float(3 * k + j), 1 + 6 * k + j] for j in range(6)]} for k in range(3)]
    b = [{"c0": 1200 * k, "c1": 1200 * k + 1199,
          "pts": [[(1200 * k + 600 * j + 12) * U + 1, 0.0, (2 * k + j) // 2 * 1.0 + ((2 * k + j) % 2) * 0.0 + 0.01 * 0, 1001 + 2 * k + j]
                  for j in range(2)]} for k in range(9)]
    # secondary point j of file k sits next to the primary point of the same 10-minute slot: slot s = 2k + j -> primary file s // 6, point s % 6
    for k in range(9):
        for j in range(2):
            sl = 2 * k + j
            b[k]["pts"][j][2] = float(3 * (sl // 6) + sl % 6) + 0.005
    for badk in (0, 1):
        out.append({"style": "unreadable-primary-not-last", "A": [dict(f) for f in a], "B": [dict(f) for f in b], "mi": 30, "md": 5.0,
                    "start": -100, "end": 20000, "processes": 1, "bundle": None, "output": "memory", "bad": ["A", badk], "skip": True})
    # secondary files whose pauses are exactly twice max_interval (the widened coverages of neighbours touch in one point):
    # every file pair once -- with output to memory and with bundles, where a pair reported twice shows
    b = [{"c0": 460 * k, "c1": 460 * k + 400,
          "pts": [[(460 * k + 100) * U + 1, 0.0, k + 0.01, 1001 + 2 * k], [(460 * k + 300) * U + 5, 0.0, k + 0.51, 1002 + 2 * k]]}
         for k in range(7)]
    a = [{"c0": 0, "c1": 3200,
          "pts": [p for k in range(7) for p in ([(460 * k + 101) * U + 3, 0.0, float(k), 1 + 2 * k],
                                                [(460 * k + 301) * U, 0.0, k + 0.5, 2 + 2 * k])]}]
    for bundle, procs in ((None, 1), ("primary", 2)):
        out.append({"style": "pauses-of-twice-max-interval", "A": [dict(f) for f in a], "B": [dict(f) for f in b], "mi": 30, "md": 5.0,
                    "start": -100, "end": 4000, "processes": procs, "bundle": bundle, "output": "memory"})
    out += skip_bundle_directed(full)
    for i, c in enumerate(out):
        c.setdefault("bad", None)
        c.setdefault("skip", False)
        c.update({"id": k0 + i, "np_seed": 1})
        c.setdefault("delays", {})
        near = near_pairs(c)
        c["near"] = [list(x) for x in near]
    return out


# ----------------------------------------------------------------------------- Coq terms

def coq_files(files):
    return coq_list([f"({zlit(f['c0'] * US)}, {zlit(f['c1'] * US)}, "
                     + coq_list([f"({zlit(p[0])}, {zlit(p[3])})" for p in f["pts"]]) + ")" for f in files])


def model_expr(case):
    s, e = period_us(case)
    cfg = f"{{| p_start := {zlit(s)}; p_end := {zlit(e)}; mi := {zlit(case['mi'])} |}}"
    md = {None: "MNone", "primary": "MPrimary", "daily": "MDaily"}[case["bundle"]]
    bad = "None"
    if case.get("bad") and case.get("skip"):
        which, j = case["bad"]
        pos = found_idx(case, which).index(j)
        bad = f"(Some ({'true' if which == 'A' else 'false'}, {pos}))"
    near = coq_list([f"({zlit(a)}, {zlit(b)})" for a, b in case["near"]])
    return (f"run_case {near} {cfg} {case['processes']}%nat {md} {bad} "
            f"{coq_files(case['A'])} {coq_files(case['B'])}")


def trace_actions(trace):
    """Log of the result queue -> (items per worker, actions of the queue model, observations).
    P w: Put;  G w: the feeder made the item visible (Flush, unless the worker was already seen dead: then its
    items were flushed before it died) and the parent got it (Get);  a group of is_alive
    answers: Die for every worker seen dead for the first time, then Snapshot;  E 1: EmptyTrue;  end: Leave."""
    names, items, acts = [], [], []
    dead, got_kinds, put_kinds = set(), [], {}
    inflight = {}
    in_snapshot = False

    def widx(n):
        if n not in names:
            names.append(n)
            items.append([])
            put_kinds[n] = []
        return names.index(n)
    # workers are numbered in the order of the first is_alive round (= process_list order)
    for ev in trace:
        if ev[0] == "A":
            widx(ev[1])
    for ev in trace:
        if ev[0] == "A":
            w = widx(ev[1])
            if ev[2] == "0" and w not in dead:
                dead.add(w)
                acts += [f"Flush {w}"] * inflight.get(w, 0)      # a dead worker's feeder has been joined
                inflight[w] = 0
                acts.append(f"Die {w}")
            in_snapshot = True
            continue
        if in_snapshot:
            acts.append("Snapshot")
            in_snapshot = False
        if ev[0] == "P":
            w = widx(ev[1])
            items[w].append(w * 1000 + len(items[w]))
            put_kinds[ev[1]].append(ev[2])
            inflight[w] = inflight.get(w, 0) + 1
            acts.append(f"Put {w}")
        elif ev[0] == "G":
            w = widx(ev[1])
            if inflight.get(w, 0) > 0:
                inflight[w] -= 1
                acts.append(f"Flush {w}")
            acts.append("Get")
            got_kinds.append((ev[1], ev[2]))
        elif ev[0] == "E" and ev[1] == "1":
            acts.append("EmptyTrue")
    if in_snapshot:
        acts.append("Snapshot")
    acts.append("Leave")
    return names, items, acts, put_kinds, got_kinds


def trace_expr(items, acts):
    total = sum(len(x) for x in items)
    it = coq_list([coq_list([str(x) for x in l]) for l in items])
    tr = coq_list(acts)
    z = "%Z"
    it = coq_list([coq_list([f"{x}{z}" for x in l]) for l in items])
    return (f"(trace_report {max(1, total)}%nat {it} {tr}, first_stuck {max(1, total)}%nat (init {it}) {tr} 0%nat)")


# ----------------------------------------------------------------------------- running the implementation

def run_impl(ctx, cases, jobs=6, batch=4):
    work = ctx.work / "runs"
    work.mkdir(parents=True, exist_ok=True)
    for old in work.glob("*.json"):
        old.unlink()
    batches = [cases[i:i + batch] for i in range(0, len(cases), batch)]

    def one(args):
        n, b = args
        fin, fout = work / f"in_{n:04d}.json", work / f"out_{n:04d}.json"
        fin.write_text(json.dumps(b))
        r = core.run_py(DRIVER, [fin, fout], timeout=120 + 60 * len(b))
        try:
            res = json.loads(fout.read_text())
        except Exception:  # noqa
            res = [{"id": c["id"], "sets": [], "yielded_names": [], "trace": [],
                    "error": f"HARNESS driver failed rc={r.returncode}: {(r.stderr or '')[-400:]}"} for c in b]
        for f in (fin, fout):
            if f.exists():
                f.unlink()
        return res
    out = {}
    with ThreadPoolExecutor(max_workers=jobs) as ex:
        for res in ex.map(one, list(enumerate(batches))):
            for o in res:
                out[o["id"]] = o
    return [out[c["id"]] for c in cases]


# ----------------------------------------------------------------------------- comparison

def owner_map(case):
    own = {}
    for which in "AB":
        for j, f in enumerate(case[which]):
            for p in f["pts"]:
                own[(which, p[3])] = j
    return own


def strip(case):
    return {k: v for k, v in case.items() if k != "near"}


def evaluate(ctx, cases, obs):
    exprs = [model_expr(c) for c in cases]
    tr = [trace_actions(o.get("trace") or []) for o in obs]
    exprs += [trace_expr(t[1], t[2]) for t in tr]
    vals, log = core.coq_eval(ctx.work / "cases", "pipe", PREAMBLE, exprs, shard=20)
    if log:
        ctx.log(log[-2000:])
    n = len(cases)
    nontrivial = set()
    stats = {"collisions": 0, "with_bad_file": 0, "emitted_sets": 0, "pairs": 0, "traces_accepted": 0}
    for c, o, v, tv, t in zip(cases, obs, vals[:n], vals[n:], tr):
        ctx.cov["evaluations"] += 1
        cs = strip(c)
        if v is None:
            ctx.fail("correspondence", "Coq evaluation of the pipeline model failed", case=cs, signature="coq-eval")
            continue
        model_sets, spec, ms, hyp = v
        spec = sorted(tuple(x) for x in spec)
        own = owner_map(c)
        expected = spec
        if c.get("bad") and c.get("skip"):
            which, j = c["bad"]
            stats["with_bad_file"] += 1
            expected = [x for x in spec if own[(which, x[0] if which == "A" else x[1])] != j]
        model_total = sorted(tuple(p) for w in model_sets for s in w for p in s[0])
        if hyp and model_total != expected:
            ctx.fail("proof", "the model's total and the specification disagree inside Coq (cannot happen while the "
                     "theorems stand)", case=cs, model=[model_total, expected], signature="model-vs-spec")
        kind = "failing-input" if hyp else "correspondence"
        what = (f"[{c['style']}; processes={c['processes']} bundle={c['bundle']} output={c['output']} "
                f"mi={c['mi']}s md={c['md']}km period={c['start']}..{c['end']}"
                + (f" unreadable={c['bad']}" if c.get("bad") else "")
                + (f" caller sleeps {c['consumer_sleep']}s per yielded dataset" if c.get("consumer_sleep") else "")
                + (f" parent held up {c['poll_sleep']}s after every empty()==True" if c.get("poll_sleep") else "") + "]")
        err = o.get("error")
        sets = [s for s in o.get("sets", []) if "pairs" in s]
        crashed = [s for s in o.get("sets", []) if "crashed" in s] or \
                  [x for x in o.get("yielded_names", []) if str(x).startswith("CRASHED")]
        if err and err.startswith("HARNESS"):
            ctx.fail("correspondence", f"the harness failed: {err}", case=cs, signature="harness")
            continue
        if err:
            fa, fb = found_idx(c, "A"), found_idx(c, "B")
            if "NoFilesError" in err and (not fa or not fb) and not expected:
                continue                      # find() reports a period without files by NoFilesError (C01)
            if "number sections" in err and not ms:
                ctx.fail(kind, f"collocate_filesets raised {err} although both filesets have files in the period; no "
                         f"pair of files matches, the result should be empty {what}", case=cs, impl=err,
                         model=expected, signature="no-matching-pair-valueerror")
                continue
            if "OverflowError" in err and c["start"] is None:
                ctx.fail(kind, f"collocate_filesets without start/end (the documented default period) raised {err}; "
                         f"{len(expected)} collocations exist {what}", case=cs, impl=err, model=expected,
                         signature="default-period-overflow")
                continue
            ctx.fail(kind, f"collocate_filesets raised {err} {what}", case=cs, impl=err, model=expected,
                     signature="pipeline-error")
            continue
        if crashed:
            ctx.fail(kind, f"a worker crashed and ProcessCrashed was yielded to the caller {what}", case=cs,
                     impl=str(crashed)[:300], model=expected, signature="worker-crashed")
            continue
        impl = sorted(tuple(p) for s in sets for p in s["pairs"])
        stats["emitted_sets"] += len(sets)
        stats["pairs"] += len(impl)
        names = o.get("yielded_names") or []
        # A loss is attributed to a NAME COLLISION only when it is verified: the sets read back are sets the model
        # emits, every missing set shares its rendered name (first/last primary time at the template's one-second
        # resolution) with another emitted set, exactly one set per shared name survived, every set with a name of
        # its own is present, and (when the generator yields the names) a name was really yielded twice.
        collision = False
        if c["output"] != "memory":
            named = [((s[1] // US, s[2] // US), sorted(tuple(p) for p in s[0])) for w in model_sets for s in w]
            by_name = {}
            for nm, ps in named:
                by_name.setdefault(nm, []).append(ps)
            isets_named = {}
            for s in sets:
                isets_named.setdefault((s["tmin"] // US, s["tmax"] // US), []).append(sorted(tuple(p) for p in s["pairs"]))
            shared = {nm for nm, l in by_name.items() if len(l) > 1}
            verified = bool(shared)
            for nm, l in by_name.items():
                got = isets_named.get(nm, [])
                if nm in shared:
                    verified = verified and len(got) == 1 and got[0] in l
                else:
                    verified = verified and got == l
            verified = verified and set(isets_named) <= set(by_name)
            if c["output"] == "files":
                verified = verified and len(set(names)) < len(names)
            collision = verified
        if impl != expected:
            lost = list(expected)
            extra = []
            for p in impl:
                if p in lost:
                    lost.remove(p)
                else:
                    extra.append(p)
            if collision and not extra:
                stats["collisions"] += 1
                dup = sorted({x for x in names if names.count(x) > 1})
                ctx.fail(kind, f"two emitted collocation sets got the same output file name and the later write "
                         f"replaced the earlier one: {len(lost)} of {len(expected)} collocations are missing from the "
                         f"output fileset (lost id pairs {lost[:4]}, names written twice {dup[:2]}) {what}",
                         case=cs, impl=impl, model=expected, signature="output-name-collision")
            elif extra and not lost:
                ctx.fail(kind, f"collocations reported more than once: {extra[:5]} {what}", case=cs, impl=impl,
                         model=expected, signature="duplicated-collocations")
            elif lost and not extra:
                # a run whose caller pauses after every yielded dataset is its own class: the loss is reproducible
                # (it does not hang on two workers finishing within one pass of the parent)
                note = ""
                skipb = bool(c.get("bad") and c.get("skip") and c["bundle"] is not None
                             and str(c["style"]).startswith("skip-bundle"))
                if skipb:
                    # is the loss exactly the LAST bundle of one or more workers (what the model hands over at the
                    # final flush)?  Said in the message only; the verdict does not depend on it.
                    lasts = [sorted(tuple(p) for p in w[-1][0]) for w in model_sets if w]
                    rest = sorted(lost)
                    hit = 0
                    for lb in lasts:
                        if lb and all(rest.count(p) >= lb.count(p) for p in lb):
                            for p in lb:
                                rest.remove(p)
                            hit += 1
                    note = (f"; none of them involves the unreadable file; the loss is exactly the last bundle of {hit} "
                            f"worker(s) -- the bundle cached when the worker's loop ended" if hit and not rest else
                            "; none of them involves the unreadable file")
                ctx.fail(kind, f"{len(lost)} of {len(expected)} collocations are missing: {lost[:5]}{note} {what}", case=cs,
                         impl=impl, model=expected,
                         signature=("lost-collocations-slow-consumer" if c.get("consumer_sleep") else
                                    "lost-collocations-slow-poll" if c.get("poll_sleep") else
                                    "lost-collocations-skipped-pair-bundle" if skipb else "lost-collocations"))
            else:
                ctx.fail(kind, f"wrong collocations: missing {lost[:4]}, unexpected {extra[:4]} {what}", case=cs,
                         impl=impl, model=expected, signature="wrong-collocations")
        # every emitted set carries / is named by the time span of the primaries it holds
        for s in sets:
            if s["attr_start"] != s["tmin"] or s["attr_end"] != s["tmax"]:
                ctx.fail(kind, f"start_time/end_time attributes {s['attr_start']}..{s['attr_end']} are not the first/last "
                         f"primary time {s['tmin']}..{s['tmax']} of the set {what}", case=cs, impl=s,
                         signature="span-attributes")
                break
            if "name" in s and (s["name_start"] != s["tmin"] // US * US or s["name_end"] != s["tmax"] // US * US):
                ctx.fail(kind, f"output file {s['name']} is not named by the time span of the collocations it holds "
                         f"({s['tmin']}..{s['tmax']} us) {what}", case=cs, impl=s, signature="output-name-not-span")
                break
        # structure of the bundles (what the model predicts for this process count): correspondence only
        if impl == expected and not collision:
            msets = sorted(sorted(tuple(p) for p in s[0]) for w in model_sets for s in w)
            isets = sorted(sorted(tuple(p) for p in s["pairs"]) for s in sets)
            if msets != isets:
                ctx.fail("correspondence", f"the collocations are complete but bundled differently from the model: "
                         f"{len(isets)} sets instead of {len(msets)} {what}", case=cs, impl=isets, model=msets,
                         signature="bundle-structure")
        # the recorded history of the result queue is a run of the queue model that ends with everything yielded
        if tv is None:
            ctx.fail("correspondence", "Coq evaluation of the queue trace failed", case=cs, signature="coq-eval")
        else:
            rep, stuck = tv if isinstance(tv, tuple) and len(tv) == 2 else (tv, None)
            allitems = sorted(x for l in t[1] for x in l)
            ok = isinstance(rep, tuple) and rep[0] == "Some"
            if ok:
                exited, yielded, left = rep[1]
                ok = exited is True and sorted(yielded) == allitems and left == []
            if not ok:
                ctx.fail("correspondence", f"the recorded put/get/is_alive history of the result queue is not a run of the "
                         f"queue model that ends with every result yielded (first action not enabled: {stuck}) {what}",
                         case=cs, impl=o.get("trace"), model=str(rep)[:300], signature="queue-trace")
            else:
                stats["traces_accepted"] += 1
            # results come back per producer in the order they were put
            for name in t[0]:
                if [k for (w, k) in t[4] if w == name] != t[3][name]:
                    ctx.fail("correspondence", f"results of worker {name} were received in another order or number than "
                             f"put {what}", case=cs, impl=o.get("trace"), signature="queue-order")
                    break
        files_matched = sum(len(js) for _, js in ms)
        if expected and files_matched >= 2 and len(expected) < len(c["near"]) + 1:
            nontrivial.add(json.dumps([cs["A"], cs["B"], c["mi"], c["start"], c["end"], c["processes"], c["bundle"],
                                       c["output"], c["bad"]], sort_keys=True))
        ctx.sample({"style": c["style"], "files": [len(c["A"]), len(c["B"])],
                    "points": [sum(len(f["pts"]) for f in c["A"]), sum(len(f["pts"]) for f in c["B"])],
                    "processes": c["processes"], "bundle": c["bundle"], "output": c["output"], "matches": ms,
                    "collocations": len(expected), "emitted_sets": len(sets)}, limit=6)
    return len(nontrivial), stats


def run(ctx):
    ctx.prove("Props/C05.v")
    n = ctx.n(20, 300)
    cases = [gen_case(ctx.rng, k) for k in range(n)]
    nslow = ctx.n(4, 16)
    cases += [gen_case(ctx.rng, n + k, "slow-consumer" if k % 2 == 0 else "slow-poll") for k in range(nslow)]
    nskip = ctx.n(4, 24)                       # generated AFTER the older styles: their random stream is unchanged
    cases += [gen_case(ctx.rng, n + nslow + k, "skip-bundle") for k in range(nskip)]
    cases += directed_cases(ctx.rng, n + nslow + nskip, full=ctx.thorough)
    ctx.log(f"{len(cases)} end-to-end configurations")
    obs = run_impl(ctx, cases, jobs=ctx.n(6, 8), batch=ctx.n(4, 10))
    ctx.log("implementation runs done: %.1f s of child wall time" % sum(o.get("wall", 0) for o in obs))
    nt, stats = evaluate(ctx, cases, obs)
    ctx.cov["distinct_nontrivial"] = nt
    ctx.cov["rule"] = ("one evaluation = one end-to-end run of collocate_filesets / Collocations.search on two harness-built "
                       "filesets (1-6 files each, 2-40 points) compared with the specification evaluated in Coq; non-trivial = "
                       "at least one collocation expected, at least two matched file pairs, and not every spatially close "
                       "pair is a collocation (time criterion or period excludes some); distinct by input and configuration")

    def count(key):
        d = {}
        for c in cases:
            d[str(c[key])] = d.get(str(c[key]), 0) + 1
        return d
    ctx.cov["input_distribution"] = {"cases": len(cases), "styles": count("style"), "processes": count("processes"),
                                     "bundle": count("bundle"), "output": count("output"),
                                     "default_period": sum(1 for c in cases if c["start"] is None),
                                     "slow_consumer": sum(1 for c in cases if c.get("consumer_sleep")),
                                     "slow_poll": sum(1 for c in cases if c.get("poll_sleep")),
                                     "skip_bundle": sum(1 for c in cases if str(c["style"]).startswith("skip-bundle")),
                                     **stats}
    ctx.assumptions += [
        "every point is stored in exactly one file whose coverage contains its time; max_interval is a whole number of "
        "seconds (hypotheses of the theorems, checked per case inside Coq)",
        "no point lies within 1e-6 (relative) of max_distance, exactly max_interval apart from a partner, or exactly on the "
        "period's end points (boundary cases are not generated)",
        "file pairs whose only collocation is the index pair (0, 0) of its time window are not generated: Collocator.collocate "
        "loses it (`pairs.any()`, property C04); datasets carry an index coordinate on their main dimension (without one "
        "Collocator._prepare_data selects the wrong points, property C04)",
    ]
    return ctx.finish(trusted_base=TRUSTED)


def replay(ctx, rec):
    case = rec["case"]
    near = near_pairs(case)
    case["near"] = [list(x) for x in near]
    obs = run_impl(ctx, [case], jobs=1, batch=1)
    evaluate(ctx, [case], obs)
    for f in ctx.failures:
        print("still fails:", f.what[:400])
    return 1 if ctx.failures else 0
