"""C14 -- column integrals and hydrostatic conversions agree with their defining integrals.

Route T + hand model: coq/gen/atmosphere.v (kernels, constants, ISA table) is regenerated from the tree under test on
every run; Model/C14_column.v models integrate_column (numpy.trapezoid on one lane and on whole slices of an n-d array),
integrate_water_vapor (both forms), column_relative_humidity, pressure2height and standard_atmosphere on lists of reals,
and Props/C14.v proves the laws of the property about that model. Model/C14_forms.v puts the two IWV formulations side by
side over z = pressure2height(p, T_v) (the hydrostatic height of the moist column); their exact layer-by-layer difference,
its bounds and the limit under grid refinement are theorems, swept on the implementation below. Model/C14_quad.v puts each
quadrature against the continuum integral (Coquelicot RInt): convergence on every sequence of grids whose mesh vanishes, the
C^2 / Lipschitz error bounds, and two analytic columns with closed forms whose proved bounds are checked on the implementation
on refined grids (continuum cases / laws below).

Tie (1): pointwise enclosures -- Coq's interval tactic proves that the real-valued model, evaluated at the very inputs
the implementation was called with, lies within a conditioning-based tolerance of the float the implementation returned
(grids of 2-50 levels, ranks 1-4, every axis).
Tie (2) / failing-input search: the laws the property states are swept on the implementation only (grids up to 10^4
levels), the defining integral being evaluated harness-side in exact rational arithmetic.
"""
import math
import re
from fractions import Fraction

import numpy as np

from lib import core, encl

NEEDED = ["atmosphere." + f for f in (
    "vmr2specific_humidity", "specific_humidity2vmr", "water_vapor_pressure2specific_humidity", "density",
    "e_eq_mixed_mk", "e_eq_water_mk", "e_eq_ice_mk", "isa_table")]
REQ = ("From Coq Require Import List Lia.\nImport ListNotations.\nFrom TyphonGen Require Import atmosphere.\n"
       "From Typhon Require Import Model.C14_column Model.C14_forms Proofs.C09_humidity Proofs.C14_hydro.")
REQ_CONT = ("From TyphonGen Require Import atmosphere.\nFrom Typhon Require Import Model.C14_quad.")
REQ_BARE = ("From Coq Require Import List Lia.\nImport ListNotations.\nFrom TyphonGen Require Import atmosphere.\n"
            "From Typhon Require Import Model.C14_column Model.C14_forms.")
TRUSTED = [
    "translator tools/translate (Python-ast -> Coq over R), fail-closed; float literals read as decimals (<= 2^-53 relative)",
    "IEEE-754 rounding is bridged pointwise by interval enclosures with tolerances that follow the conditioning "
    "(a few ulps of the sum of the magnitudes of the terms), never globally",
    "hand model of numpy.trapezoid / diff / cumsum / hstack / swapaxes and of scipy interp1d(linear, extrapolate) on lists; "
    "an array of any rank is handed to the model as its C-order block outer x n x inner (numpy reshape is trusted for that)",
    "constants.g = constants.earth_standard_gravity and the default R of density() = gas_constant_dry_air are read from "
    "the tree under test and compared with the translated constants on every run",
    "the two IWV formulations are compared over z = pressure2height(p, T_v), the code's own hydrostatic height at the virtual "
    "temperature T_v = T R_v / (R_d ((1 - x) Md / Mw + x)) (the harness forms T_v; the theorems are about exactly this z)",
    "continuum theorems (convergence, error bounds) are about the real-valued list model applied to an integrand sampled on the "
    "grid; the implementation is tied to them through the enclosures of trapz / iwv_hydro / iwv_general and by evaluating it on "
    "the two analytic columns (the harness samples the profiles in floating point; the slack covers that rounding)",
]
EPS = float(np.finfo(float).eps)
SAT = ("repeat first [rewrite mixed_is_ice by (unfold c_triple_point_water; lra) | "
       "rewrite mixed_is_liquid by (unfold c_triple_point_water; lra) | "
       "rewrite mixed_blend by (unfold c_triple_point_water; lra)]. "
       "unfold e_eq_water_mk, e_eq_ice_mk, c_triple_point_water, tanh, sinh, cosh; cbv zeta.")
KERNELS = ("vmr2specific_humidity specific_humidity2vmr water_vapor_pressure2specific_humidity density "
           "c_molar_mass_dry_air c_molar_mass_water c_earth_standard_gravity c_gas_constant_dry_air c_gas_constant_water_vapor")
TT = 273.16


def L(xs):
    return "[" + "; ".join(encl.rlit(float(x)) for x in xs) + "]"


def nice(x, digits=6):
    """a double with a short decimal expansion (keeps the Coq literals small)"""
    return float(f"{x:.{digits}g}")


# ----------------------------------------------------------------------------- generators

def grid(rng, n, kind, lo=0.0, hi=10.0):
    if kind in ("uniform", "uniform-desc"):
        g = np.linspace(lo, hi, n)
    else:
        w = rng.random(n - 1) + 0.05
        g = lo + (hi - lo) * np.concatenate([[0.0], np.cumsum(w) / w.sum()])
    g = np.array([nice(v, 9) for v in g])
    for i in range(1, n):           # keep it strictly monotone after rounding
        if g[i] <= g[i - 1]:
            g[i] = np.nextafter(g[i - 1], np.inf)
    return g[::-1].copy() if kind.endswith("desc") else g


KINDS = ("uniform", "uniform-desc", "irregular", "irregular-desc")


def pressure_grid(rng, n, top=100e2, bottom=1000e2, min_rel=0.0):
    """strictly decreasing pressures, irregular, successive ratios >= 1 + min_rel"""
    w = rng.random(n - 1) + 0.2
    lnp = math.log(bottom) - (math.log(bottom) - math.log(top)) * np.concatenate([[0.0], np.cumsum(w) / w.sum()])
    p = np.array([nice(v, 8) for v in np.exp(lnp)])
    for i in range(1, n):
        if p[i] >= p[i - 1] / (1 + min_rel):
            p[i] = nice(p[i - 1] / (1 + max(min_rel, 1e-6) * 1.5), 10)
    return p


def temperature_profile(rng, p):
    T0 = rng.uniform(250, 305)
    kappa = rng.uniform(0.12, 0.22)
    T = T0 * (p / p[0]) ** kappa + rng.normal(0, 1.0, p.size)
    T = np.array([nice(v, 7) for v in T])
    for i in range(T.size):        # stay away from the two branch temperatures of e_eq_mixed_mk
        for b in (TT, TT - 23):
            if abs(T[i] - b) < 1e-3:
                T[i] = nice(b + 0.01, 7)
    return T


def mixed_phase_oracle(T):
    """Murphy and Koop (2005) over ice and liquid water, blended quadratically between T_t - 23 K and T_t (IFS)."""
    T = np.asarray(T, dtype=float)
    ice = np.exp(9.550426 - 5723.265 / T + 3.53068 * np.log(T) - 0.00728332 * T)
    wat = np.exp(54.842763 - 6763.22 / T - 4.21 * np.log(T) + 0.000367 * T
                 + np.tanh(0.0415 * (T - 218.8)) * (53.878 - 1331.22 / T - 9.44523 * np.log(T) + 0.014025 * T))
    w = np.clip((T - TT + 23.0) / 23.0, 0.0, 1.0)
    return np.where(T >= TT, wat, np.where(T <= TT - 23.0, ice, ice + (wat - ice) * w ** 2))


def mag(ys, xs):
    """sum of the magnitudes of the terms of the trapezoidal sum: the scale of its rounding error"""
    ys, xs = np.abs(np.asarray(ys, float)), np.abs(np.asarray(xs, float))
    return float(np.sum((xs[1:] + xs[:-1]) * (ys[1:] + ys[:-1]) / 2))


def exact_trapz(ys, xs):
    """the integral of the piecewise-linear interpolant of (x, y), in exact rational arithmetic"""
    fy = [Fraction(float(v)) for v in ys]
    fx = [Fraction(float(v)) for v in xs]
    s = Fraction(0)
    for i in range(len(fx) - 1):
        s += (fx[i + 1] - fx[i]) * (fy[i + 1] + fy[i])
    return s / 2


def isa_table():
    """the ISA table as translated from the tree under test"""
    text = (core.GEN / "atmosphere.v").read_text()
    out = {}
    for k in ("h", "p", "temp"):
        m = re.search(rf"Definition isa_{k} : list R := \[(.*?)\]\.", text)
        out[k] = [Fraction(re.sub(r"[()\s]", "", t)) for t in m.group(1).split(";")]
    out["K"] = Fraction(re.search(r"Definition isa_zero_celsius : R := ([\d.]+)\.", text).group(1))
    return out


# ----------------------------------------------------------------------------- enclosure cases (tie 1)

class Raised(Exception):
    pass


def call(fn, *a, **k):
    try:
        with np.errstate(all="ignore"):
            return fn(*a, **k)
    except Exception as e:  # noqa
        raise Raised(f"{type(e).__name__}: {e}")


def enclosure_cases(ctx, mc, atm, have_hydro):
    rng = np.random.default_rng(ctx.seed + 14)
    cases, raised = [], []

    def add(fn, expr, args, thunk, prep, tol, idx=None):
        try:
            v = thunk()
            v = float(np.asarray(v).ravel()[idx] if idx is not None else np.asarray(v).reshape(()))
        except Raised as e:
            raised.append((fn, str(e), args))
            return
        except Exception as e:  # noqa  (wrong shape etc.)
            raised.append((fn, f"unusable result: {type(e).__name__}: {e}", args))
            return
        cases.append({"expr": expr, "value": v, "tol": max(float(tol), 1e-300), "prep": prep,
                      "meta": {"fn": fn, "args": args, "value": v}})

    sizes = [2, 3, 5, 8] + ([13, 30, 50] if ctx.thorough else [20])
    reps = ctx.n(1, 6)
    # integrate_column, one lane, with and without coordinates
    for n in sizes:
        for kind in KINDS:
            for _ in range(reps):
                xs = grid(rng, n, kind, rng.uniform(-5, 0), rng.uniform(1, 50))
                ys = np.array([nice(v, 6) for v in rng.uniform(-10, 10, n)])
                as_list = bool(rng.integers(0, 2))
                add("integrate_column", f"trapz {L(ys)} {L(xs)}", {"y": ys.tolist(), "x": xs.tolist(), "kind": kind},
                    (lambda ys=ys, xs=xs, as_list=as_list: call(mc.integrate_column, ys.tolist() if as_list else ys, xs)),
                    "cbv [trapz].", (4 * n + 32) * EPS * mag(ys, xs))
        ys = np.array([nice(v, 6) for v in rng.uniform(-10, 10, n)])
        add("integrate_column.unit", f"trapz_unit {L(ys)}", {"y": ys.tolist()},
            (lambda ys=ys: call(mc.integrate_column, ys)), "cbv [trapz_unit].", (4 * n + 32) * EPS * float(np.abs(ys).sum()) * 2)
    # integrate_column on arrays of rank 2-4, every axis (also counted from the end)
    for _ in range(ctx.n(8, 60)):
        rank = int(rng.integers(2, 5))
        shape = [int(rng.integers(1, 4)) for _ in range(rank)]
        axis = int(rng.integers(0, rank))
        shape[axis] = int(rng.integers(2, 7))
        Y = np.vectorize(lambda v: nice(v, 5))(rng.uniform(-5, 5, shape))
        xs = grid(rng, shape[axis], KINDS[int(rng.integers(0, 4))], 0.0, rng.uniform(1, 9))
        outer, n, inner = int(np.prod(shape[:axis], dtype=int)), shape[axis], int(np.prod(shape[axis + 1:], dtype=int))
        blk = Y.reshape(outer, n, inner)
        o, i = int(rng.integers(0, outer)), int(rng.integers(0, inner))
        use_axis = axis - rank if rng.integers(0, 2) else axis
        ylit = "[" + "; ".join("[" + "; ".join(L(r) for r in rows) + "]" for rows in blk) + "]"
        add("integrate_column.nd", f"nth {i} (nth {o} (integrate_nd {ylit} {L(xs)} {inner}) []) 0",
            {"shape": shape, "axis": use_axis, "lane": [o, i], "y": Y.tolist(), "x": xs.tolist()},
            (lambda Y=Y, xs=xs, use_axis=use_axis: np.asarray(call(mc.integrate_column, Y, xs, axis=use_axis)).reshape(outer, inner)),
            "cbv [integrate_nd trapz_rows vadd zip2 map nth repeat].", (4 * n + 32) * EPS * mag(blk[o, :, i], xs), idx=o * inner + i)
    # integrate_water_vapor, both forms
    g = 9.80665
    for _ in range(ctx.n(6, 40)):
        n = int(rng.choice([2, 3, 5, 8, 12]))
        p = pressure_grid(rng, n, min_rel=0.01)
        x = np.array([nice(v, 5) for v in rng.uniform(0, 0.04, n) * (p / p[0]) ** 2])
        add("integrate_water_vapor", f"iwv_hydro {L(x)} {L(p)}", {"vmr": x.tolist(), "p": p.tolist()},
            (lambda x=x, p=p: call(atm.integrate_water_vapor, x, p)),
            f"cbv [iwv_hydro trapz map {KERNELS}].", (4 * n + 64) * EPS * mag(x, p) / g)
        T = temperature_profile(rng, p)
        z = np.array([nice(v, 8) for v in np.cumsum(np.concatenate([[rng.uniform(0, 500)], rng.uniform(100, 3000, n - 1)]))])
        rho = x * p / (461.5 * T)
        add("integrate_water_vapor.general", f"iwv_general {L(x)} {L(p)} {L(T)} {L(z)}",
            {"vmr": x.tolist(), "p": p.tolist(), "T": T.tolist(), "z": z.tolist()},
            (lambda x=x, p=p, T=T, z=z: call(atm.integrate_water_vapor, x, p, T, z)),
            f"cbv [iwv_general trapz zip3 {KERNELS}].", (4 * n + 64) * EPS * mag(rho, z))
    # pressure2height with a temperature profile (any pressure order), and with the standard atmosphere
    for c in range(ctx.n(6, 40)):
        n = int(rng.choice([2, 3, 5, 10]))
        p = pressure_grid(rng, n, top=rng.choice([1e2, 100e2, 300e2]), min_rel=0.01)
        if c % 5 == 4:
            p = p[rng.permutation(n)]
        T = temperature_profile(rng, p)
        k = int(rng.integers(0, n))
        scale = float(np.sum((p[1:] + p[:-1]) / (0.5 * (p[1:] / T[1:] + p[:-1] / T[:-1]) / 287.0 * g))) if n > 1 else 0.0
        add("pressure2height", f"nth {k} (pressure2height {L(p)} {L(T)}) 0", {"p": p.tolist(), "T": T.tolist(), "k": k},
            (lambda p=p, T=T: call(atm.pressure2height, p, T)),
            f"cbv [pressure2height cumsum_from layers zip2 nth {KERNELS}].", (4 * n + 64) * EPS * scale + 1e-300, idx=k)
    if have_hydro:
        tab = isa_table()
        side_h = "first [lia | left; reflexivity | right; unfold isa_h; cbn [nth]; lra]"
        side_p = "first [lia | lra | left; reflexivity | right; unfold isa_p; cbn [nth]; lra]"
        open_seg = "unfold seg_h, seg_p, line, isa_kelvin, isa_h, isa_p, isa_temp, isa_zero_celsius; cbn [nth map]."

        def seg_h(z):
            zq = Fraction(encl.rlit(z).strip("()- ")) * (-1 if z < 0 else 1)
            k = 0
            while k < 6 and zq > tab["h"][k + 1]:
                k += 1
            return k

        def seg_p(pv):
            pq = Fraction(encl.rlit(pv))
            k = 0
            while k < 6 and pq <= tab["p"][k + 1]:
                k += 1
            return k
        zs = [-2000.0, -610.0, 0.0, 11000.0, 11000.5, 20000.0, 84852.0, 90000.0] + [nice(v, 7) for v in rng.uniform(-1500, 95000, ctx.n(8, 60))]
        for j, zv in enumerate(zs):
            k = seg_h(zv)
            arg = zv if j % 2 else np.asarray([zv, zv])
            add("standard_atmosphere.height", f"standard_atmosphere_h {encl.rlit(zv)}", {"z": zv, "segment": k},
                (lambda arg=arg: np.asarray(call(atm.standard_atmosphere, arg)).ravel()[:1]),
                f"rewrite (sa_h_segment {k}%nat) by ({side_h}). {open_seg}", 1e-11 * 400, idx=0)
        ps = [108900.0, 101325.0, 22632.0, 5474.9, 0.3734, 0.2, 120000.0] + [nice(v, 7) for v in 10 ** rng.uniform(-0.7, 5.08, ctx.n(8, 60))]
        for j, pv in enumerate(ps):
            k = seg_p(pv)
            arg = pv if j % 2 else np.asarray([pv, pv])
            add("standard_atmosphere.pressure", f"standard_atmosphere_p {encl.rlit(pv)}", {"p": pv, "segment": k},
                (lambda arg=arg: np.asarray(call(atm.standard_atmosphere, arg, coordinates="pressure")).ravel()[:1]),
                f"rewrite (sa_p_segment {k}%nat) by ({side_p}). {open_seg}", 1e-10 * 400, idx=0)
        for _ in range(ctx.n(3, 20)):
            n = int(rng.choice([2, 3, 4]))
            p = pressure_grid(rng, n, top=rng.choice([0.5e2, 50e2, 300e2]), bottom=rng.choice([1000e2, 1050e2, 500e2]), min_rel=0.02)
            k = int(rng.integers(1, n))
            rw = " ".join(f"try (rewrite (sa_p_segment {seg_p(v)}%nat {encl.rlit(v)}) by ({side_p}))." for v in dict.fromkeys(p.tolist()))
            scale = float(np.sum((p[1:] + p[:-1]) / (0.5 * (p[1:] + p[:-1]) / 200.0 / 287.0 * g)))
            add("pressure2height.isa", f"nth {k} (pressure2height_isa {L(p)}) 0", {"p": p.tolist(), "k": k},
                (lambda p=p: call(atm.pressure2height, p)),
                f"cbv [pressure2height_isa pressure2height cumsum_from layers zip2 map nth {KERNELS}]. {rw} {open_seg}",
                1e-10 * scale, idx=k)
        # column_relative_humidity: one column, and one lane of an array of rank 2-3 along every axis
        for c in range(ctx.n(5, 20)):
            n = int(rng.choice([2, 3, 4, 5]))
            p = pressure_grid(rng, n, top=rng.choice([200e2, 400e2]), min_rel=0.03)
            rank = 1 if c % 3 == 0 else int(rng.integers(2, 4))
            shape = [int(rng.integers(1, 4)) for _ in range(rank)]
            axis = int(rng.integers(0, rank))
            shape[axis] = n
            outer, inner = int(np.prod(shape[:axis], dtype=int)), int(np.prod(shape[axis + 1:], dtype=int))
            Tb = np.stack([np.stack([temperature_profile(rng, p) for _ in range(inner)], axis=1) for _ in range(outer)])
            with np.errstate(all="ignore"):
                qs = 0.622 * 611.0 * np.exp(17.5 * (Tb - 273.15) / (Tb - 32.0)) / p[None, :, None]   # rough scale only
            Qb = np.vectorize(lambda v: nice(v, 5))(qs * rng.uniform(0.1, 0.95, qs.shape))
            Q, T = Qb.reshape(shape), Tb.reshape(shape)
            o, i = int(rng.integers(0, outer)), int(rng.integers(0, inner))
            add("column_relative_humidity" + ("" if rank == 1 else ".nd"), f"crh {L(Qb[o, :, i])} {L(p)} {L(Tb[o, :, i])}",
                {"shape": shape, "axis": axis, "lane": [o, i], "q": Q.tolist(), "p": p.tolist(), "t": T.tolist()},
                (lambda Q=Q, T=T, p=p, axis=axis, rank=rank: np.asarray(
                    call(atm.column_relative_humidity, Q.copy(), p, T.copy(), **({} if rank == 1 else {"axis": axis}))).reshape(-1)),
                f"cbv [crh iwv_hydro trapz map zip2 qsat {KERNELS}]. {SAT}", 1e-9, idx=o * inner + i)
    # the general form over the hydrostatic height of the moist column (pressure2height at the virtual temperature): the
    # composite the theorems iwv_forms_* are about
    Rv_, Rd_, k_ = 461.52280831345604, 287.0570048905812, 0.0289645 / 0.01801528
    for _ in range(ctx.n(4, 16)):
        n = int(rng.choice([2, 3, 5, 8]))
        p = pressure_grid(rng, n, min_rel=0.01)
        x = np.array([nice(v, 5) for v in rng.uniform(0, 0.04, n) * (p / p[0]) ** 2])
        T = temperature_profile(rng, p)

        def composite(x=x, p=p, T=T):
            Tv = T * Rv_ / (Rd_ * ((1 - x) * k_ + x))
            return call(atm.integrate_water_vapor, x, p, T, call(atm.pressure2height, p, Tv))
        zs = 29.3 * T.max() * 1.02 * np.log(p[0] / p)          # rough scale of the heights only
        add("integrate_water_vapor.moist-column", f"iwv_general {L(x)} {L(p)} {L(T)} (moist_height {L(x)} {L(p)} {L(T)})",
            {"vmr": x.tolist(), "p": p.tolist(), "T": T.tolist(), "z": "pressure2height(p, T_v)"}, composite,
            f"cbv [iwv_general moist_height pressure2height cumsum_from layers virtual_temperature moist_factor trapz zip3 zip2 {KERNELS}].",
            (8 * n + 128) * EPS * mag(x * p / (461.5 * T), zs))
    return cases, raised


# ----------------------------------------------------------------------------- continuum cases (analytic columns)

def constants_of(atm):
    from typhon import constants
    return (float(constants.earth_standard_gravity), float(constants.gas_constant_water_vapor),
            float(constants.molar_mass_dry_air), float(constants.molar_mass_water))


def expo_column(atm, mc, x0, p0, T0, Hx, Hp, zs):
    """Exponential water-vapour density (isothermal column, vmr = x0 exp(-z/Hx), p = p0 exp(-z/Hp)) sampled on the heights zs
    (from 0 upwards): the general form of integrate_water_vapor on the implementation, the closed form of the integral
    (expo_column of Model/C14_quad.v), the proved bound Z h^2 k^2 rho0 / 12 of iwv_exponential_column and the rounding slack."""
    g, Rv, Md, Mw = constants_of(atm)
    Z, h = float(zs[-1]), float(np.max(np.diff(zs)))
    vmr, p, T = x0 * np.exp(-zs / Hx), p0 * np.exp(-zs / Hp), np.full(zs.size, T0)
    val = float(call(atm.integrate_water_vapor, vmr, p, T, zs))
    rho0, k = x0 * p0 / (Rv * T0), 1 / Hx + 1 / Hp
    closed = rho0 * -math.expm1(-k * Z) / k
    bound = Z * h ** 2 * k ** 2 * rho0 / 12
    return val, closed, bound, 8 * (zs.size + 64) * EPS * closed + 1e-9 * bound, Z, h


def quad_column(atm, mc, q0, pg):
    """Specific humidity q0 (p / ps)^2 sampled on the pressures pg (from ps downwards), handed over as vmr: the hydrostatic form
    on the implementation, the closed form q0 (ps^3 - p1^3) / (3 ps^2 g), the proved bound (ps - p1) h^2 (2 q0 / ps^2) / (12 g)
    of iwv_quadratic_column and the rounding slack."""
    g, Rv, Md, Mw = constants_of(atm)
    ps, p1, h = float(pg[0]), float(pg[-1]), float(np.max(-np.diff(pg)))
    q = q0 * (pg / ps) ** 2
    vmr = q / ((1 - q) * Mw / Md + q)            # specific humidity -> vmr, written out here
    val = float(call(atm.integrate_water_vapor, vmr, pg))
    closed = q0 * (ps ** 3 - p1 ** 3) / (3 * ps ** 2) / g
    bound = (ps - p1) * h ** 2 * (2 * q0 / ps ** 2) / 12 / g
    return val, closed, bound, 8 * (pg.size + 64) * EPS * closed + 1e-9 * bound, ps, p1, h


def refined_grid(rng, lo, hi, layers, uniform):
    if uniform:
        return np.linspace(lo, hi, layers + 1)
    g = grid(rng, layers + 1, "irregular", min(lo, hi), max(lo, hi))
    return g if lo < hi else g[::-1].copy()


def continuum_cases(ctx, mc, atm):
    """Goals for Coq: the value the implementation returns on a refined grid lies within the PROVED bound (plus rounding slack)
    of the closed form, both written with the definitions of Model/C14_quad.v the theorems iwv_exponential_column /
    iwv_quadratic_column are about:  |value - closed| / (bound + slack) <= 1."""
    rng = np.random.default_rng(ctx.seed + 1414)
    cases, raised = [], []
    for r in range(ctx.n(2, 6)):
        x0, p0, T0 = nice(rng.uniform(0.005, 0.04), 3), nice(rng.uniform(950e2, 1040e2), 4), nice(rng.uniform(230, 300), 3)
        Hx, Hp, Ztop = nice(rng.uniform(1500, 4000), 3), nice(rng.uniform(6500, 8500), 3), nice(rng.uniform(6000, 20000), 3)
        q0, ps, ptop = nice(rng.uniform(0.002, 0.02), 3), nice(rng.uniform(950e2, 1040e2), 4), nice(rng.uniform(100e2, 400e2), 3)
        for layers in (8, 64, 512):
            uniform = (r + layers) % 2 == 0
            try:
                zs = refined_grid(rng, 0.0, Ztop, layers, uniform)
                val, closed, bound, slack, Z, h = expo_column(atm, mc, x0, p0, T0, Hx, Hp, zs)
                par = " ".join(encl.rlit(v) for v in (x0, p0, T0, Hx, Hp))
                cases.append({"expr": f"(({encl.rlit(val)} - expo_column {par} {encl.rlit(Z)}) / ({encl.rlit(Z)} * {encl.rlit(h)} ^ 2 * "
                                      f"expo_curvature {par} / 12 + {encl.rlit(slack)}))", "value": 0.0, "tol": 1.0,
                              "prep": "unfold expo_column, expo_curvature, c_gas_constant_water_vapor; cbv zeta.",
                              "meta": {"fn": "integrate_water_vapor.continuum-general", "value": val, "closed_form": closed, "bound": bound,
                                       "args": {"x0": x0, "p0": p0, "T0": T0, "Hx": Hx, "Hp": Hp, "Z": Z, "layers": layers,
                                                "grid": "uniform" if uniform else "irregular", "h": h}}})
                pg = refined_grid(rng, ps, ptop, layers, uniform)
                val, closed, bound, slack, ps_, p1_, h = quad_column(atm, mc, q0, pg)
                cases.append({"expr": f"(({encl.rlit(val)} - quad_column {encl.rlit(q0)} {encl.rlit(ps_)} {encl.rlit(p1_)}) / "
                                      f"(({encl.rlit(ps_)} - {encl.rlit(p1_)}) * {encl.rlit(h)} ^ 2 * (2 * {encl.rlit(q0)} / {encl.rlit(ps_)} ^ 2) "
                                      f"/ 12 / c_earth_standard_gravity + {encl.rlit(slack)}))", "value": 0.0, "tol": 1.0,
                              "prep": "unfold quad_column, c_earth_standard_gravity.",
                              "meta": {"fn": "integrate_water_vapor.continuum-hydrostatic", "value": val, "closed_form": closed, "bound": bound,
                                       "args": {"q0": q0, "ps": ps_, "p1": p1_, "layers": layers,
                                                "grid": "uniform" if uniform else "irregular", "h": h}}})
            except Raised as e:
                raised.append(("integrate_water_vapor.continuum", str(e), {"layers": layers}))
    return cases, raised


# ----------------------------------------------------------------------------- law sweep on the implementation (tie 2)

def law_sweep(ctx, mc, atm, only=None):
    """Returns ([(signature, what, case)], evaluations). Every law is a clause of the property, evaluated on the
    implementation only; tolerances are a few ulps of the sum of the magnitudes of the terms involved."""
    from typhon import constants
    out, evals = [], [0]
    seen = set()
    rng = np.random.default_rng(ctx.seed)

    def bad(sig, what, case):
        if sig not in seen:
            seen.add(sig)
            out.append((sig, what, case))

    def small(a):
        a = np.asarray(a)
        return a.tolist() if a.size <= 60 else {"shape": list(a.shape), "head": a.ravel()[:8].tolist()}

    def guarded(sig, fn):
        if only and not sig.startswith(only.split(":")[0]):
            return
        try:
            fn()
        except Raised as e:
            bad(f"{sig.split(':')[0]}:raises", f"{sig}: the implementation raised {e}", {"law": sig, "error": str(e)})

    # ---- integrate_column -------------------------------------------------------------------------------------
    ns = [2, 3, 4, 7, 16, 50, 333] + ([1000, 10000] if not ctx.thorough else [1000, 2500, 10000, 10000])
    reps = ctx.n(2, 12)

    def column_laws():
        for n in ns:
            for kind in KINDS:
                for r in range(reps if n < 5000 else 1):
                    xs = grid(rng, n, kind, rng.uniform(-100, 0), rng.uniform(1, 1000))
                    ys = rng.uniform(-10, 10, n) if r % 3 else rng.integers(-9, 10, n)          # float and integer data
                    zs = rng.normal(0, 3, n)
                    case = {"n": n, "grid": kind, "y": small(ys), "x": small(xs)}
                    I = float(call(mc.integrate_column, ys, xs))
                    M = mag(ys, xs)
                    tol = (n + 16) * EPS * M + 1e-300
                    evals[0] += 6
                    ex = exact_trapz(ys, xs)
                    if not abs(Fraction(I) - ex) <= Fraction(tol):
                        bad("integrate_column:integral", f"integrate_column(y, x) = {I!r} but the integral of the piecewise-linear "
                            f"interpolant is {float(ex)!r} (n = {n}, {kind} grid)", case)
                    c, d = float(rng.uniform(-3, 3)), float(rng.uniform(-3, 3))
                    lin = float(call(mc.integrate_column, c * ys + d * zs, xs))
                    Iz = float(call(mc.integrate_column, zs, xs))
                    if not abs(lin - (c * I + d * Iz)) <= 4 * (n + 16) * EPS * (abs(c) * M + abs(d) * mag(zs, xs)) + 1e-300:
                        bad("integrate_column:linear", f"not linear in y: I(c y + d z) = {lin!r}, c I(y) + d I(z) = {c * I + d * Iz!r} (n = {n})",
                            dict(case, c=c, d=d, z=small(zs)))
                    k = int(rng.integers(0, n))
                    parts = float(call(mc.integrate_column, ys[:k + 1], xs[:k + 1])) + float(call(mc.integrate_column, ys[k:], xs[k:]))
                    if not abs(parts - I) <= 4 * tol:
                        bad("integrate_column:additive", f"not additive at grid index {k}: {parts!r} != {I!r} (n = {n})", dict(case, k=k))
                    rev = float(call(mc.integrate_column, ys[::-1], xs[::-1]))
                    if not abs(rev + I) <= 4 * tol:
                        bad("integrate_column:reversal", f"reversing the coordinate gives {rev!r}, expected {-I!r} (n = {n})", case)
                    unit = float(call(mc.integrate_column, ys))
                    ar = float(call(mc.integrate_column, ys, np.arange(n, dtype=float)))
                    exu = exact_trapz(ys, np.arange(n))
                    if not (abs(unit - ar) <= 4 * (n + 16) * EPS * mag(ys, np.arange(n)) + 1e-300 and
                            abs(Fraction(unit) - exu) <= Fraction(4 * (n + 16) * EPS * float(np.abs(ys).sum()) * 2 + 1e-300)):
                        bad("integrate_column:unit-spacing", f"x=None gives {unit!r}, unit spacing gives {float(exu)!r} (n = {n})", case)

    def nd_laws():
        for c in range(ctx.n(40, 400)):
            rank = 1 + c % 4
            shape = [int(rng.integers(1, 5)) for _ in range(rank)]
            axis = int(rng.integers(0, rank))
            shape[axis] = int(rng.choice([2, 3, 9, 40, 200]))
            Y = rng.uniform(-5, 5, shape)
            xs = grid(rng, shape[axis], KINDS[c % 4], 0.0, rng.uniform(1, 99))
            use_axis = axis - rank if c % 3 == 0 else axis
            res = np.asarray(call(mc.integrate_column, Y, xs, axis=use_axis))
            want_shape = tuple(s for j, s in enumerate(shape) if j != axis)
            case = {"shape": shape, "axis": use_axis, "y": small(Y), "x": small(xs)}
            evals[0] += 1
            if res.shape != want_shape:
                bad("integrate_column:axis", f"result shape {res.shape} for input {tuple(shape)} along axis {use_axis}, expected {want_shape}", case)
                continue
            Ym = np.moveaxis(Y, axis, -1).reshape(-1, shape[axis])
            rf = res.reshape(-1)
            for j in rng.permutation(rf.size)[:6]:
                lane = Ym[j]
                tol = (shape[axis] + 16) * EPS * mag(lane, xs) + 1e-300
                evals[0] += 1
                if not abs(Fraction(float(rf[j])) - exact_trapz(lane, xs)) <= Fraction(tol):
                    bad("integrate_column:axis", f"lane {int(j)} of an array of shape {tuple(shape)} along axis {use_axis}: {float(rf[j])!r}, "
                        f"integral of that lane {float(exact_trapz(lane, xs))!r}", dict(case, lane=int(j)))

    def nd_default_spacing():
        # no coordinates given: unit spacing along the chosen axis of an array of ANY shape, the default axis (0) included
        for c in range(ctx.n(24, 240)):
            rank = 1 + c % 4
            shape = [int(rng.integers(2, 5)) for _ in range(rank)]
            axis = c % rank
            shape[axis] = int(rng.choice([2, 3, 7, 40]))
            Y = rng.uniform(-5, 5, shape)
            kw = {} if (axis == 0 and c % 2) else {"axis": (axis - rank if c % 3 == 0 else axis)}
            case = {"shape": shape, "axis": kw.get("axis", "default"), "y": small(Y), "x": None}
            res = np.asarray(call(mc.integrate_column, Y, **kw))
            want_shape = tuple(s_ for j, s_ in enumerate(shape) if j != axis)
            evals[0] += 1
            if res.shape != want_shape:
                bad("integrate_column:axis-default-spacing", f"without coordinates: result shape {res.shape} for input {tuple(shape)} along "
                    f"axis {kw.get('axis', 'default (0)')}, expected {want_shape}", case)
                continue
            xs = np.arange(shape[axis], dtype=float)
            Ym = np.moveaxis(Y, axis, -1).reshape(-1, shape[axis])
            rf = res.reshape(-1)
            for j in range(rf.size):
                lane = Ym[j]
                tol = (shape[axis] + 16) * EPS * mag(lane, xs) + 1e-300
                if not abs(Fraction(float(rf[j])) - exact_trapz(lane, xs)) <= Fraction(tol):
                    bad("integrate_column:axis-default-spacing", f"without coordinates: lane {int(j)} of an array of shape {tuple(shape)} along "
                        f"axis {kw.get('axis', 'default (0)')}: {float(rf[j])!r}, unit-spaced integral of that lane "
                        f"{float(exact_trapz(lane, xs))!r}", dict(case, lane=int(j)))
                    break

    guarded("integrate_column:laws", column_laws)
    guarded("integrate_column:axis", nd_laws)
    guarded("integrate_column:axis-default-spacing", nd_default_spacing)

    # ---- integrate_water_vapor ----------------------------------------------------------------------------------
    g = float(constants.earth_standard_gravity)
    Rv, Rd = float(constants.gas_constant_water_vapor), float(constants.gas_constant_dry_air)
    Md, Mw = float(constants.molar_mass_dry_air), float(constants.molar_mass_water)

    def iwv_laws():
        for n in [2, 3, 10, 60, 400] + ([3000] if not ctx.thorough else [3000, 10000]):
            for r in range(ctx.n(2, 10)):
                p = pressure_grid(rng, n, top=float(rng.choice([1e2, 100e2, 300e2])))
                x = rng.uniform(0, 0.05, n) * (p / p[0]) ** rng.uniform(0, 4)
                if r == 0:
                    x[:] = 0.0
                case = {"n": n, "vmr": small(x), "p": small(p)}
                iwv = float(call(atm.integrate_water_vapor, x, p))
                q = np.asarray(call(atm.vmr2specific_humidity, x))
                evals[0] += 3
                if not iwv >= 0:
                    bad("integrate_water_vapor:nonnegative", f"IWV = {iwv!r} < 0 for vmr >= 0 and decreasing p (n = {n})", case)
                ex = -exact_trapz(q, p) / Fraction(g)
                if not abs(Fraction(iwv) - ex) <= Fraction((n + 32) * EPS * mag(q, p) / g + 1e-300):
                    bad("integrate_water_vapor:integral", f"IWV = {iwv!r} but -1/g int q dp = {float(ex)!r} (n = {n})", case)
                T = 200 + 100 * (p / p[0]) ** 0.19 + rng.normal(0, 1, n)
                z = np.cumsum(np.concatenate([[0.0], rng.uniform(10, 900, n - 1)]))
                gen = float(call(atm.integrate_water_vapor, x, p, T, z))
                rho = x * np.asarray(call(atm.density, p, T, Rv))
                exg = exact_trapz(rho, z)
                if not (gen >= 0 and abs(Fraction(gen) - exg) <= Fraction((n + 32) * EPS * mag(rho, z) + 1e-300)):
                    bad("integrate_water_vapor:general-integral", f"IWV(vmr, p, T, z) = {gen!r} but int rho_v dz = {float(exg)!r} (n = {n})",
                        dict(case, T=small(T), z=small(z)))
        # arrays of rank >= 2: both forms integrate every profile (lane) along the chosen axis, as the 1-d call does
        for shape in ((5, 3), (4, 4), (3, 2, 6), (2, 5, 5)):
            for axis in range(-len(shape), len(shape)):
                nl = shape[axis]
                if nl < 2:
                    continue
                pl = pressure_grid(rng, nl, top=200e2)
                sh1 = [1] * len(shape)
                sh1[axis] = nl
                P = np.broadcast_to(pl.reshape(sh1), shape).copy() * (1 + 0.01 * rng.random(shape))
                P = np.moveaxis(-np.sort(-np.moveaxis(P, axis, 0), axis=0), 0, axis)          # decreasing along the axis
                X = rng.uniform(0, 0.04, shape)
                Tt = 220 + 70 * rng.random(shape)
                Z = np.moveaxis(np.cumsum(rng.uniform(50, 900, np.moveaxis(P, axis, 0).shape), axis=0), 0, axis)
                for form, args in (("hydrostatic", (X, P)), ("general", (X, P, Tt, Z))):
                    case = {"law": "iwv-lanes", "form": form, "shape": list(shape), "axis": axis}
                    try:
                        got = np.asarray(atm.integrate_water_vapor(*args, axis=axis), dtype=float)
                    except Exception as e:  # noqa
                        bad("integrate_water_vapor:lanes-raises", f"{form} form on a field of shape {shape} along axis {axis} raised "
                            f"{type(e).__name__}: {e}", case)
                        continue
                    lanes = [np.moveaxis(a, axis, -1).reshape(-1, nl) for a in args]
                    want = np.array([float(atm.integrate_water_vapor(*[l[i] for l in lanes])) for i in range(lanes[0].shape[0])])
                    want = want.reshape(np.moveaxis(X, axis, -1).shape[:-1])
                    evals[0] += want.size
                    if got.shape != want.shape or not np.all(np.abs(got - want) <= 1e-12 * np.maximum(np.abs(want), 1e-300) + 1e-15):
                        bad("integrate_water_vapor:lanes", f"{form} form on a field of shape {shape} along axis {axis}: result of shape "
                            f"{got.shape} differs from the per-profile calls (shape {want.shape}" +
                            (f", max relative difference {float(np.max(np.abs(got - want) / np.maximum(np.abs(want), 1e-300))):.3g})"
                             if got.shape == want.shape else ")"), case)
        for bad_args in (("T",), ("z",)):
            try:
                atm.integrate_water_vapor(np.array([0.01, 0.0]), np.array([1e5, 5e4]), **{bad_args[0]: np.array([280.0, 250.0])})
                bad("integrate_water_vapor:needs-both", f"only `{bad_args[0]}` given and no ValueError", {"law": "needs-both"})
            except ValueError:
                pass
            except Exception as e:  # noqa
                raise Raised(f"{type(e).__name__}: {e}")

    kM = Md / Mw

    def virtual_temperature(x, T):
        """the temperature at which dry air (the default R of density / pressure2height) has the density of the moist air"""
        return T * Rv / (Rd * ((1 - x) * kM + x))

    def forms(x, p, T):
        """both forms on the implementation, z = pressure2height(p, T_v); the layer defects and contrasts of
        Props/C14.v (iwv_forms_layer_identity, iwv_forms_close) formed from the implementation's own q and density"""
        Tv = virtual_temperature(x, T)
        z = np.asarray(call(atm.pressure2height, p, Tv))
        hyd = float(call(atm.integrate_water_vapor, x, p))
        gen = float(call(atm.integrate_water_vapor, x, p, T, z))
        q = np.asarray(call(atm.vmr2specific_humidity, x))
        rho = np.asarray(call(atm.density, p, Tv))
        dp = p[:-1] - p[1:]
        defect = math.fsum(dp / (2 * g) * (q[:-1] - q[1:]) * (rho[:-1] - rho[1:]) / (rho[:-1] + rho[1:]))
        rm1 = dp / p[1:]
        contrast = rm1 + (kM - 1) * np.abs(x[:-1] - x[1:]) + np.abs(T[:-1] - T[1:]) / T[:-1]
        slack = 16 * (p.size + 64) * EPS * (mag(q, p) / g) + 1e-300
        return hyd, gen, defect, contrast, rm1, slack

    def iwv_forms():
        """iwv_forms_layer_identity, iwv_forms_close, iwv_forms_close_second_order of Props/C14.v, on the implementation"""
        for n in [2, 3, 10, 60, 400] + ([3000] if not ctx.thorough else [3000, 10000]):
            for r in range(ctx.n(3, 12)):
                p = pressure_grid(rng, n, top=float(rng.choice([1e2, 100e2, 300e2])))
                noise = float(rng.choice([0.0, 0.3, 3.0]))
                T = np.clip(200 + 100 * (p / p[0]) ** 0.19 + rng.normal(0, 1, n) * noise, 180.0, 330.0)
                x = np.clip(rng.uniform(0, 0.05) * (p / p[0]) ** rng.uniform(0, 4) * (1 + rng.uniform(-0.3, 0.3, n) * (r % 2)), 0.0, 0.05)
                if r == 2:
                    x[:] = 0.0
                case = {"n": n, "vmr": small(x), "p": small(p), "T": small(T), "z": "pressure2height(p, T_v)"}
                hyd, gen, defect, contrast, rm1, slack = forms(x, p, T)
                evals[0] += 3
                if not abs((gen - hyd) - defect) <= slack:
                    bad("integrate_water_vapor:forms-identity", f"general form {gen!r} - hydrostatic form {hyd!r} = {gen - hyd!r} but the sum of the "
                        f"layer defects dp/(2g) (q0-q1) (rho0-rho1)/(rho0+rho1) is {defect!r} (n = {n}, z = pressure2height(p, T_v))", case)
                e, dx = float(contrast.max()), float(np.abs(np.diff(x)).max())
                second = e * kM * dx * float(p[0] - p[-1]) / (2 * g)
                if not (abs(gen - hyd) <= e * hyd + slack and abs(gen - hyd) <= second + slack):
                    bad("integrate_water_vapor:forms-close", f"|general - hydrostatic| = {abs(gen - hyd)!r} exceeds the bound of the layer contrasts: "
                        f"e * hydrostatic = {e * hyd!r}, second order {second!r} (e = {e!r}, n = {n})", dict(case, contrast=e, dx=dx))

    def iwv_convergence():
        """iwv_forms_close_under_refinement / iwv_forms_converge on the implementation: smooth profiles on refined grids, z the
        code's own hydrostatic height of the moist column; the difference obeys C d * hydrostatic and the second-order bound,
        and falls as the grid is refined"""
        N = 2 ** 13
        for r in range(ctx.n(3, 20)):
            T0, kap = rng.uniform(265, 305), rng.uniform(0.1, 0.24)
            x0, a = rng.uniform(0.004, 0.03), rng.uniform(1.5, 4)
            lnp = np.linspace(math.log(1000e2), math.log(rng.uniform(100e2, 300e2)), N + 1)
            p = np.exp(lnp)
            T = T0 * (p / p[0]) ** kap
            x = x0 * (p / p[0]) ** a
            D, ok = [], True
            for stride in (128, 32, 8, 2):
                s = slice(None, None, stride)
                hyd, gen, defect, contrast, rm1, slack = forms(x[s], p[s], T[s])
                d = float(rm1.max()) * (1 + 1e-12)
                # |T(a) - T(b)| <= T0 kap (a/b - 1)   (kap <= 1);   |x(a) - x(b)| <= x0 a (1 + d)^(a-1) (a/b - 1)   (a >= 1)
                LT, Lx, Tmin = T0 * kap, x0 * a * (1 + d) ** (a - 1), float(T[s].min())
                C = 1 + (kM - 1) * Lx + LT / Tmin
                first = C * d * hyd
                second = C * d * kM * Lx * d * float(p[s][0] - p[s][-1]) / (2 * g)
                ok = ok and abs(gen - hyd) <= first + slack and abs(gen - hyd) <= second * (1 + 1e-9) + slack
                D.append(abs(gen - hyd) / abs(hyd))
                evals[0] += 3
            case = {"T0": T0, "kappa": kap, "x0": x0, "a": a, "levels": [N // s + 1 for s in (128, 32, 8, 2)], "rel_difference": D}
            if not ok:
                bad("integrate_water_vapor:forms-close", "smooth profiles on refined grids: |general - hydrostatic| exceeds C d * hydrostatic "
                    f"or the second-order bound of iwv_forms_close_under_refinement; relative differences {D}", case)
            if not (D[-1] <= 1e-5 and D[-1] <= max(D[:3]) / 20 + 1e-9):
                bad("integrate_water_vapor:forms-converge", "hydrostatic and general IWV do not approach each other on refined grids: "
                    f"relative differences {D} on {case['levels']} levels", case)

    def continuum_laws():
        """trapz_error_bound_C2 (+ _on_decreasing_grids) on A exp(-k x) over [0, Z], iwv_exponential_column and iwv_quadratic_column of
        Props/C14.v on the implementation: on uniform and irregular grids of 16 ... 8192 layers the returned value lies within the
        proved bound (b - a) h^2 M / 12 (h the largest step, M the constant of the analytic profile) of the closed form of the integral"""
        crng = np.random.default_rng(ctx.seed + 1415)      # its own stream: the cases of the other laws stay what they were
        sizes = (16, 128, 1024, 8192) if not ctx.thorough else (16, 64, 256, 1024, 4096, 10000)
        for r in range(ctx.n(3, 12)):
            A, k, Ztop = float(crng.uniform(0.5, 20)), float(crng.uniform(0.05, 3)), float(crng.uniform(0.5, 6))
            x0, p0, T0 = float(crng.uniform(0.005, 0.04)), float(crng.uniform(950e2, 1040e2)), float(crng.uniform(230, 300))
            Hx, Hp, Zcol = float(crng.uniform(1500, 4000)), float(crng.uniform(6500, 8500)), float(crng.uniform(6000, 20000))
            q0, ps, ptop = float(crng.uniform(0.002, 0.02)), float(crng.uniform(950e2, 1040e2)), float(crng.uniform(100e2, 400e2))
            for layers in sizes:
                for uniform in (True, False):
                    kind = "uniform" if uniform else "irregular"
                    evals[0] += 4
                    for down in (False, True):
                        xs = refined_grid(crng, Ztop if down else 0.0, 0.0 if down else Ztop, layers, uniform)
                        Z, h = float(max(xs[0], xs[-1])), float(np.max(np.abs(np.diff(xs))))
                        val = float(call(mc.integrate_column, A * np.exp(-k * xs), xs))
                        closed = A * -math.expm1(-k * Z) / k * (-1 if down else 1)
                        bound = Z * h ** 2 * k ** 2 * A / 12
                        if not abs(val - closed) <= bound * (1 + 1e-9) + 8 * (layers + 64) * EPS * abs(closed):
                            bad("integrate_column:continuum", f"integrate_column of {A!r} exp(-{k!r} x) on a {kind} grid of {layers} layers "
                                f"from {float(xs[0])!r} to {float(xs[-1])!r} is {val!r}; the integral is {closed!r} and the trapezoidal rule is proved to "
                                f"lie within (b - a) h^2 M / 12 = {bound!r} of it (h = {h!r})",
                                {"law": "continuum", "A": A, "k": k, "from": float(xs[0]), "to": float(xs[-1]), "layers": layers, "grid": kind})
                    zs = refined_grid(crng, 0.0, Zcol, layers, uniform)
                    val, closed, bound, slack, Z, h = expo_column(atm, mc, x0, p0, T0, Hx, Hp, zs)
                    if not abs(val - closed) <= bound + slack:
                        bad("integrate_water_vapor:continuum", f"general form on the exponential column ({kind} grid, {layers} layers up to {Z!r} m): "
                            f"{val!r}, the integral of the vapour density is {closed!r}, proved bound of the quadrature error {bound!r}",
                            {"law": "continuum-general", "x0": x0, "p0": p0, "T0": T0, "Hx": Hx, "Hp": Hp, "Z": Z, "layers": layers, "grid": kind})
                    pg = refined_grid(crng, ps, ptop, layers, uniform)
                    val, closed, bound, slack, ps_, p1_, h = quad_column(atm, mc, q0, pg)
                    if not abs(val - closed) <= bound + slack:
                        bad("integrate_water_vapor:continuum", f"hydrostatic form on q = q0 (p / ps)^2 ({kind} grid, {layers} layers from {ps_!r} "
                            f"to {p1_!r} Pa): {val!r}, -1/g int q dp = {closed!r}, proved bound of the quadrature error {bound!r}",
                            {"law": "continuum-hydrostatic", "q0": q0, "ps": ps_, "p1": p1_, "layers": layers, "grid": kind})


    guarded("integrate_water_vapor:laws", iwv_laws)
    guarded("integrate_water_vapor:continuum", continuum_laws)
    guarded("integrate_water_vapor:forms", iwv_forms)
    guarded("integrate_water_vapor:forms-converge", iwv_convergence)

    # ---- column_relative_humidity -------------------------------------------------------------------------------
    def crh_laws():
        for c in range(ctx.n(30, 300)):
            n = int(rng.choice([2, 3, 6, 25, 120] + ([2000] if c % 10 == 0 else [])))
            p = pressure_grid(rng, n, top=float(rng.choice([150e2, 300e2])))
            rank = 1 + c % 3
            shape = [int(rng.integers(1, 5)) for _ in range(rank)]
            axis = int(rng.integers(0, rank))
            shape[axis] = n
            bshape = [1] * rank
            bshape[axis] = n
            T = (rng.uniform(255, 305, [s if j != axis else 1 for j, s in enumerate(shape)]) * (p.reshape(bshape) / p[0]) ** 0.19
                 + rng.normal(0, 0.5, shape))
            if c % 3 == 1:      # levels exactly on the two regime boundaries of the mixed phase (triple point, 23 K below)
                flat = T.reshape(-1)
                for j, b in zip(rng.choice(flat.size, size=min(2, flat.size), replace=False), (TT, TT - 23.0)):
                    flat[j] = b
                T = flat.reshape(shape)
            # the saturated profile comes from the published Murphy-Koop / IFS formulas written out here, not from the
            # library's own e_eq_mixed_mk: numerator and denominator must not share a defect of that function
            es = mixed_phase_oracle(T)
            qs = np.asarray(call(atm.water_vapor_pressure2specific_humidity, es, p.reshape(bshape)))
            kw = {} if rank == 1 else {"axis": axis}
            want_shape = tuple(s for j, s in enumerate(shape) if j != axis)
            tol = 8 * (n + 64) * EPS
            case = {"shape": shape, "axis": axis, "p": small(p), "t": small(T), "q_saturated": small(qs)}
            try:
                # the caller's own float64 arrays, handed over as they are and used again: the function must leave them alone
                # and answer the same when asked again (a second call on a q it overwrote would report saturation)
                # (an unsaturated profile: overwriting q with the saturated one would not show on the saturated profile itself)
                q_ref = 0.37 * np.asarray(qs, dtype=np.float64)
                q_own, p_own, T_own = q_ref.copy(), np.array(p, dtype=np.float64), np.array(T, dtype=np.float64)
                first = np.asarray(call(atm.column_relative_humidity, q_own, p_own, T_own, **kw))
                for nm_, own_, ref_ in (("q", q_own, q_ref), ("p", p_own, p), ("T", T_own, T)):
                    if not np.array_equal(own_, ref_):
                        bad("column_relative_humidity:arguments-modified", f"column_relative_humidity overwrote the float64 array handed "
                            f"in as {nm_} (shape {tuple(shape)}, axis {axis}): it held {small(ref_)}, now {small(own_)}", case)
                        break
                else:
                    again = np.asarray(call(atm.column_relative_humidity, q_own, p_own, T_own, **kw))
                    if first.shape != again.shape or not np.array_equal(first, again, equal_nan=True):
                        bad("column_relative_humidity:repeated-call", f"two consecutive calls of column_relative_humidity on the same "
                            f"arrays give {small(first)} and {small(again)}", case)
                one = np.asarray(call(atm.column_relative_humidity, qs.copy(), p, T.copy(), **kw))
                evals[0] += 3
                if one.shape != want_shape or not np.all(np.abs(one - 1) <= tol):
                    bad("column_relative_humidity:saturated" + ("" if rank == 1 else "-nd"),
                        f"CRH of the profile saturated w.r.t. the mixed phase is {small(one)} instead of 1 "
                        f"(shape {tuple(shape)}, levels along axis {axis})", case)
                    continue
                f = float(rng.uniform(0.05, 0.95))
                q = qs * rng.uniform(0.1, 1.0, shape)
                base = np.asarray(call(atm.column_relative_humidity, q.copy(), p, T.copy(), **kw))
                scaled = np.asarray(call(atm.column_relative_humidity, f * q, p, T.copy(), **kw))
                if not np.all(np.abs(scaled - f * base) <= 4 * tol):
                    bad("column_relative_humidity:linear", f"CRH(f q) = {small(scaled)} but f CRH(q) = {small(f * base)} (f = {f})", dict(case, q=small(q), f=f))
                part = np.asarray(call(atm.column_relative_humidity, f * qs, p, T.copy(), **kw))
                if not np.all(np.abs(part - f) <= 4 * tol):
                    bad("column_relative_humidity:linear", f"CRH(f q_sat) = {small(part)} instead of f = {f}", dict(case, f=f))
            except Raised as e:
                bad("column_relative_humidity:raises" + ("" if rank == 1 else "-nd"),
                    f"column_relative_humidity raised {e} for a saturated profile of shape {tuple(shape)} with the levels along axis {axis}",
                    dict(case, error=str(e)))

    guarded("column_relative_humidity:laws", crh_laws)

    # ---- pressure2height, standard_atmosphere ---------------------------------------------------------------------
    def p2h_laws():
        for n in [1, 2, 3, 10, 100, 1000] + ([10000] if ctx.thorough else [4000]):
            for r in range(ctx.n(2, 10)):
                p = pressure_grid(rng, max(n, 1), top=float(rng.choice([0.5e2, 10e2, 100e2, 300e2])), min_rel=1e-6) if n > 1 else np.array([101325.0])
                T = 200 + 100 * (p / p[0]) ** 0.19 + rng.normal(0, 2, p.size)
                z = np.asarray(call(atm.pressure2height, p, T))
                case = {"n": n, "p": small(p), "T": small(T)}
                evals[0] += 4
                if z.shape != p.shape or z[0] != 0:
                    bad("pressure2height:starts-at-zero", f"pressure2height returns shape {z.shape}, first value {z.ravel()[:1]} for {p.size} levels", case)
                    continue
                if not np.all(np.diff(z) > 0):
                    bad("pressure2height:increasing", f"heights not strictly increasing for strictly decreasing pressure (n = {n}): "
                        f"first offending step at level {int(np.argmax(np.diff(z) <= 0))}", case)
                T0 = float(rng.uniform(180, 320))
                zi = np.asarray(call(atm.pressure2height, p, np.full(p.size, T0)))
                # an isothermal column given as ONE number (float, numpy scalar, 0-d array, length-1 array): the same heights
                for label_, Tsc in (("float", T0), ("numpy scalar", np.float64(T0)), ("0-d array", np.array(T0)), ("length-1 array", np.array([T0]))):
                    if p.size == 1 and label_ == "length-1 array":
                        continue
                    try:
                        zs = np.asarray(call(atm.pressure2height, p, Tsc))
                    except Raised as e:
                        bad("pressure2height:scalar-temperature", f"pressure2height(p, T) raised {e} for T given as {label_}", dict(case, T0=T0))
                        break
                    evals[0] += 1
                    if zs.shape != zi.shape or not np.all(np.abs(zs - zi) <= 1e-9 * (1 + np.abs(zi))):
                        bad("pressure2height:scalar-temperature", f"isothermal column at {T0:.2f} K: T given as {label_} gives heights {small(zs)}, "
                            f"T given as a constant profile gives {small(zi)}", dict(case, T0=T0))
                        break
                H = Rd * T0 / g
                ana = H * np.log1p((p[0] - p) / p)                      # (R T / g) ln(p0 / p), accurate near p0
                rm1 = (p[:-1] - p[1:]) / p[1:]                           # r - 1 without cancellation
                bound = H * np.concatenate([[0.0], np.cumsum(rm1 ** 3 / 12)])
                pade = H * np.concatenate([[0.0], np.cumsum(2 * (p[:-1] - p[1:]) / (p[:-1] + p[1:]))])
                slack = 8 * (np.arange(p.size) + 64) * EPS * (ana + H * 1e-3)
                if not (np.all(ana - zi >= -slack) and np.all(ana - zi <= bound * (1 + 1e-9) + slack) and np.all(np.abs(zi - pade) <= slack)):
                    k = int(np.argmax((ana - zi < -slack) | (ana - zi > bound * (1 + 1e-9) + slack) | (np.abs(zi - pade) > slack)))
                    bad("pressure2height:isothermal", f"isothermal column at {T0:.2f} K: level {k} at {zi[k]!r} m, (R T / g) ln(p0/p) = {ana[k]!r} m, "
                        f"allowed defect {bound[k]!r} m (n = {n})", dict(case, T0=T0, k=k))
                # the same column given top first (increasing pressure): z = (R T / g) ln(p0 / p) with p0 the FIRST level is
                # negative and decreasing there; it is the reversed column shifted by the height of the reference level
                if p.size > 1:
                    pr = p[::-1].copy()
                    zr = np.asarray(call(atm.pressure2height, pr, np.full(pr.size, T0)))
                    anar = -H * np.log1p((pr - pr[0]) / pr[0])             # (R T / g) ln(p0 / p) <= 0
                    rm1r = (pr[1:] - pr[:-1]) / pr[:-1]
                    boundr = H * np.concatenate([[0.0], np.cumsum(rm1r ** 3 / 12)])
                    slackr = 8 * (np.arange(pr.size) + 64) * EPS * (np.abs(anar) + H * 1e-3)
                    okr = (zr.shape == pr.shape and zr[0] == 0 and np.all(np.diff(zr) < 0)
                           and np.all(np.abs(zr - anar) <= boundr * (1 + 1e-9) + slackr)
                           and np.all(np.abs((zr - zr[-1])[::-1] - zi) <= slackr[::-1] + slack))
                    evals[0] += 1
                    if not okr:
                        bad("pressure2height:isothermal-top-first", f"isothermal column at {T0:.2f} K given top first (increasing pressure, n = {n}): "
                            f"heights {small(zr)} do not follow (R T / g) ln(p0 / p) = {small(anar)} / are not the reversed column "
                            f"shifted by the reference level", dict(case, T0=T0))
                # the same grid in whole pascals handed over with an INTEGER dtype (np.arange grids): the same heights
                if p.size > 1 and r == 0:
                    pint = np.unique(np.round(p).astype(np.int64))[::-1]
                    if pint.size > 1:
                        zf = np.asarray(call(atm.pressure2height, pint.astype(float), np.full(pint.size, T0)), dtype=float)
                        zn = np.asarray(call(atm.pressure2height, pint, np.full(pint.size, T0)), dtype=float)
                        zd = np.asarray(call(atm.pressure2height, pint), dtype=float)
                        zdf = np.asarray(call(atm.pressure2height, pint.astype(float)), dtype=float)
                        evals[0] += 2
                        if zn.shape != zf.shape or not np.all(np.abs(zn - zf) <= 1e-9 * np.maximum(np.abs(zf), 1.0)) \
                                or not np.all(np.abs(zd - zdf) <= 1e-9 * np.maximum(np.abs(zdf), 1.0)):
                            bad("pressure2height:integer-grid", f"pressure2height of an int64 pressure grid ({pint.size} levels) differs from "
                                f"the same grid as float64 by up to {float(np.max(np.abs(zn - zf))):.3g} m", dict(case, T0=T0))
                zs = np.asarray(call(atm.pressure2height, p))
                zt = np.asarray(call(atm.pressure2height, p, call(atm.standard_atmosphere, p, coordinates="pressure")))
                if zs.shape != zt.shape or not np.all(np.abs(zs - zt) <= 1e-12 * np.maximum(np.abs(zt), 1.0)):
                    bad("pressure2height:default-isa", "pressure2height(p) differs from pressure2height(p, standard_atmosphere(p, 'pressure')) "
                        f"(n = {n})", case)

    def isa_laws():
        tab = isa_table()
        for k in range(len(tab["h"])):
            want = float(tab["temp"][k] + tab["K"])
            th = float(np.asarray(call(atm.standard_atmosphere, float(tab["h"][k]))).reshape(()))
            tp = float(np.asarray(call(atm.standard_atmosphere, float(tab["p"][k]), coordinates="pressure")).reshape(()))
            evals[0] += 2
            if not (abs(th - want) <= 1e-10 and abs(tp - want) <= 1e-10 and abs(th - tp) <= 1e-10):
                bad("standard_atmosphere:levels-agree", f"tabulated level {k}: T(h = {float(tab['h'][k])}) = {th!r}, "
                    f"T(p = {float(tab['p'][k])}) = {tp!r}, table {want!r}", {"level": k})
        # beyond both ends of the table the profile continues the last / first segment linearly (documented: "values outside
        # the table are extrapolated"), in height and in pressure addressing
        hs = [float(v) for v in tab["h"]]
        ps_ = [float(v) for v in tab["p"]]
        ts = [float(v + tab["K"]) for v in tab["temp"]]
        for coord, xs_, kw_ in (("height", hs, {}), ("pressure", ps_, {"coordinates": "pressure"})):
            order = np.argsort(xs_)
            xo, to = np.asarray(xs_)[order], np.asarray(ts)[order]
            for x_out, (i0, i1) in ((xo[-1] + 0.07 * (xo[-1] - xo[0]), (-2, -1)), (xo[-1] + 0.2 * (xo[-1] - xo[0]), (-2, -1)),
                                    (xo[0] - 0.01 * (xo[-1] - xo[0]), (0, 1))):
                if coord == "pressure" and x_out <= 0:
                    x_out = xo[0] * 0.3
                # pressure addressing is piecewise linear in ln p (as the translated model has it)
                fx = (lambda v: math.log(v)) if coord == "pressure" else (lambda v: v)
                want = to[i0] + (to[i1] - to[i0]) / (fx(xo[i1]) - fx(xo[i0])) * (fx(x_out) - fx(xo[i0]))
                got = float(np.asarray(call(atm.standard_atmosphere, float(x_out), **kw_)).reshape(()))
                evals[0] += 1
                if not abs(got - want) <= 1e-9 * (1 + abs(want)):
                    bad("standard_atmosphere:extrapolation", f"standard_atmosphere({x_out!r}, {coord}) = {got!r} outside the table; the linear "
                        f"continuation of the outermost segment gives {want!r}", {"coordinate": coord, "x": float(x_out)})
        try:
            atm.standard_atmosphere(1000.0, coordinates="sigma")
            bad("standard_atmosphere:coordinates", "unknown coordinates accepted", {"coordinates": "sigma"})
        except ValueError:
            pass

    def p2h_default_temperature():
        # no temperature given = the standard atmosphere AT THE PRESSURES HANDED IN, also when the caller refills one work
        # buffer in place between the calls (a retrieval loop) or changes the unit of the same array in place
        buf = np.empty(30)
        for step in range(4):
            prof = pressure_grid(rng, 30, top=float([100e2, 10e2, 300e2, 50e2][step]))
            buf[:] = prof
            z_def = np.asarray(call(atm.pressure2height, buf))
            z_ref = np.asarray(call(atm.pressure2height, prof.copy(), np.asarray(call(atm.standard_atmosphere, prof.copy(), coordinates="pressure"))))
            evals[0] += 2
            if z_def.shape != z_ref.shape or not np.all(np.abs(z_def - z_ref) <= 1e-9 * (1 + np.abs(z_ref))):
                bad("pressure2height:default-temperature", f"pressure2height(p) on a work buffer refilled in place (profile {step + 1} of 4) gives "
                    f"{small(z_def)}, with the standard-atmosphere temperatures of these pressures given explicitly {small(z_ref)}",
                    {"step": step, "p": small(prof)})
                break
        hpa = np.array([1000.0, 850.0, 500.0, 200.0, 50.0])
        first = np.asarray(call(atm.pressure2height, hpa))          # taken for Pa as handed in
        hpa *= 100.0
        z_def = np.asarray(call(atm.pressure2height, hpa))
        z_ref = np.asarray(call(atm.pressure2height, hpa.copy(), np.asarray(call(atm.standard_atmosphere, hpa.copy(), coordinates="pressure"))))
        if not np.all(np.abs(z_def - z_ref) <= 1e-9 * (1 + np.abs(z_ref))):
            bad("pressure2height:default-temperature", f"pressure2height(p) after `p *= 100` on the same array gives {small(z_def)}, with the "
                f"standard-atmosphere temperatures given explicitly {small(z_ref)}", {"p": small(hpa)})

    guarded("pressure2height:laws", p2h_laws)
    guarded("pressure2height:default-temperature", p2h_default_temperature)
    guarded("standard_atmosphere:laws", isa_laws)
    return out, evals[0]


# ----------------------------------------------------------------------------- run / replay

def provide_trapz(ctx):
    """numpy >= 2.4 no longer has numpy.trapz. When the tree under test still calls it, that IS reported as a failing
    input; the missing name is then provided from outside (as an older numpy would) so that the rest of the property can
    still be examined on this tree."""
    if not hasattr(np, "trapz") and hasattr(np, "trapezoid"):
        np.trapz = np.trapezoid
        return True
    return False


def probe(ctx, mc):
    y = np.arange(5)
    try:
        v = mc.integrate_column(y)
        if abs(float(v) - 8.0) > 1e-12:
            ctx.fail("failing-input", f"integrate_column(arange(5)) = {v!r}, the integral is 8", case={"y": y.tolist()},
                     signature="integrate_column:integral")
        return False
    except Exception as e:  # noqa
        ctx.fail("failing-input", f"integrate_column(arange(5)) raises {type(e).__name__}: {e} -- every column integral "
                 "(integrate_column, integrate_water_vapor, column_relative_humidity) is unavailable", case={"y": y.tolist(), "x": None},
                 impl=f"{type(e).__name__}: {e}", model="8", signature="integrate_column:raises")
        if isinstance(e, AttributeError) and "trapz" in str(e) and provide_trapz(ctx):
            ctx.notes.append("numpy.trapz provided by the harness after the failure was recorded")
            ctx.log("integrate_column raises (numpy.trapz is gone); numpy.trapz is provided from outside for the remaining checks")
            return True
        return False


def check_constants(ctx):
    import inspect
    from typhon import constants
    from typhon.physics import atmosphere as atm
    text = (core.GEN / "atmosphere.v").read_text()

    def gen(name):
        m = re.search(rf"Definition c_{name} : R := ([\d.eE+-]+)\.", text)
        return float(m.group(1)) if m else None
    ok = (constants.g == constants.earth_standard_gravity == gen("earth_standard_gravity")
          and inspect.signature(atm.density).parameters["R"].default == constants.gas_constant_dry_air == gen("gas_constant_dry_air")
          and constants.gas_constant_water_vapor == gen("gas_constant_water_vapor"))
    ctx.add_obligation("constants used by the hand model are the translated ones", ok,
                       "" if ok else "constants.g / density default R / gas_constant_water_vapor differ from coq/gen/atmosphere.v")
    if not ok:
        ctx.fail("translation", "constants.g, the default R of density() or gas_constant_water_vapor no longer equal the translated "
                 "constants the model uses", obligation="model constants", signature="model-constants")


def run(ctx):
    from typhon.math import common as mc
    from typhon.physics import atmosphere as atm
    missing = encl.translate(ctx, ["atmosphere"], NEEDED)
    proved = ctx.prove("Props/C14.v")
    shimmed = probe(ctx, mc)
    if not missing:
        check_constants(ctx)
        have_hydro = proved
        if not proved:
            ok_model, log, _ = core.coq_build([core.THEORIES / "Model" / "C14_column.v", core.THEORIES / "Model" / "C14_forms.v"])
            ok_h, _, _ = core.coq_build([core.THEORIES / "Proofs" / "C14_hydro.v"]) if ok_model else (False, "", None)
            have_hydro = ok_h
        cases, raised = enclosure_cases(ctx, mc, atm, have_hydro)
        heavy = [c for c in cases if c["meta"]["fn"].startswith("column_relative_humidity")]
        light = [c for c in cases if not c["meta"]["fn"].startswith("column_relative_humidity")]
        res, log = encl.enclosure_check(ctx.work / "encl", "c14", REQ if have_hydro else REQ_BARE, light, shard=8)
        if heavy:      # ~10 s each (five saturation curves per level): one goal per file, all cores
            res2, log2 = encl.enclosure_check(ctx.work / "encl", "c14crh", REQ, heavy, shard=1 if not ctx.thorough else 2, prec=64)
            res, log, cases = res + res2, log + log2, light + heavy
        if log:
            ctx.log(log[-1500:])
        ctx.log(f"enclosures: {sum(r == 'OK' for r in res)}/{len(res)} proved")
        fns = {}
        for c, r in zip(cases, res):
            ctx.cov["evaluations"] += 1
            fn = c["meta"]["fn"]
            fns.setdefault(fn, [0, 0])[0 if r == "OK" else 1] += 1
            if r != "OK":
                ctx.fail("correspondence", f"enclosure {r}: the model of {fn} at the implementation's inputs is not within "
                         f"tolerance of the value it returned ({c['meta']['value']!r})", case=c["meta"],
                         impl=c["meta"]["value"], signature=f"enclosure:{fn.split('.')[0]}")
        for fn, err, args in raised:
            ctx.cov["evaluations"] += 1
            ctx.fail("failing-input", f"{fn} raised {err} on an admissible input", case=args, impl=err,
                     signature=f"{fn.split('.')[0]}:raises" + ("-nd" if fn.endswith(".nd") else ""))
        # the analytic columns on refined grids against the closed form of the continuum integral, within the proved bound
        ok_quad = proved or core.coq_build([core.THEORIES / "Model" / "C14_quad.v"])[0]
        if ok_quad:
            ccases, craised = continuum_cases(ctx, mc, atm)
            cres, clog = encl.enclosure_check(ctx.work / "encl", "c14cont", REQ_CONT, ccases, shard=4)
            if clog:
                ctx.log(clog[-1500:])
            ctx.log(f"continuum cases: {sum(r == 'OK' for r in cres)}/{len(cres)} within the proved bound")
            for c, r in zip(ccases, cres):
                ctx.cov["evaluations"] += 1
                m = c["meta"]
                fns.setdefault(m["fn"], [0, 0])[0 if r == "OK" else 1] += 1
                if r == "OK":
                    ctx.cov["distinct_nontrivial"] += 1
                else:
                    ctx.fail("failing-input", f"{m['fn']}: on the analytic column {m['args']} the implementation returns {m['value']!r}; the "
                             f"continuum integral is {m['closed_form']!r} and the quadrature is proved to lie within {m['bound']!r} of it "
                             f"(Coq: {r})" + ("  [observed with numpy.trapz provided by the harness]" if shimmed else ""),
                             case=m["args"], impl=m["value"], model=m["closed_form"], signature="integrate_water_vapor:continuum")
            for fn, err, args in craised:
                ctx.cov["evaluations"] += 1
                ctx.fail("failing-input", f"{fn} raised {err} on an analytic column", case=args, impl=err,
                         signature="integrate_water_vapor:raises")
            if ccases:
                ctx.sample({"fn": ccases[-1]["meta"]["fn"], "value": ccases[-1]["meta"]["value"], "expr": ccases[-1]["expr"][:300]})
        ctx.cov["enclosures"] = {k: {"ok": v[0], "failed": v[1]} for k, v in fns.items()}
        ctx.cov["distinct_nontrivial"] += len({(c["meta"]["fn"], repr(c["meta"]["args"])) for c, r in zip(cases, res) if r == "OK"})
        for c in cases[:2] + cases[-2:]:
            ctx.sample({"fn": c["meta"]["fn"], "value": c["meta"]["value"], "expr": c["expr"][:300]})
    fails, n = law_sweep(ctx, mc, atm)
    ctx.cov["evaluations"] += n
    ctx.cov["law_evaluations"] = n
    ctx.log(f"law sweep: {n} evaluations, {len(fails)} laws violated")
    for sig, what, case in fails:
        if shimmed:
            what += "  [observed with numpy.trapz provided by the harness, see integrate_column:raises]"
        ctx.fail("failing-input", what, case=case, signature=sig)
    ctx.cov["rule"] = ("enclosure cases: (function, inputs) on grids of 2-50 levels (uniform / irregular, increasing / decreasing), "
                       "arrays of rank 1-4 along every axis, physically admissible vmr / p / T profiles, heights and pressures inside "
                       "and outside the ISA table; distinct and non-trivial = Coq proved the enclosure of the model around the "
                       "implementation's float for a distinct (function, inputs); law_evaluations counts the evaluations of the "
                       "property's laws on the implementation (grids up to 10^4 levels, exact rational integrals); continuum cases: "
                       "the implementation on refined grids (8-512 layers in Coq, 16-10^4 in the sweep) of the two analytic columns "
                       "within the proved quadrature bound of the closed form")
    ctx.cov["input_distribution"] = ("grids: 4 kinds x sizes 2..10^4; integrands uniform / normal / integer; ranks 1-4, axis uniform "
                                     "(also negative); pressure grids irregular in ln p between 1000 hPa and 0.5-300 hPa; "
                                     "T = power law in p plus noise; vmr <= 0.05")
    ctx.assumptions += ["y and x have the same length along the integration axis, x is one-dimensional",
                        "physically admissible profiles: 0 <= vmr <= 1, p > 0 strictly decreasing, T > 0, e_s(T) < p",
                        "IWV forms: the general form is taken over z = pressure2height(p, T_v) (the moist column); the identity, the "
                        "closeness bounds and the limit are theorems of the model and are swept on the implementation",
                        "continuum: integrands Riemann-integrable (convergence), C^2 with bounded second derivative or Lipschitz (error "
                        "bounds) on the range of a monotone grid from a to b; checked on the implementation for the exponential "
                        "water-vapour column and for q = q0 (p / ps)^2"]
    if shimmed:
        ctx.assumptions.append("numpy.trapz was provided from outside after integrate_column:raises had been recorded")
    return ctx.finish(trusted_base=TRUSTED)


def replay(ctx, rec):
    from typhon.math import common as mc
    from typhon.physics import atmosphere as atm
    sig = rec.get("signature", "")
    if rec.get("kind") != "failing-input":
        print("this replay names a broken obligation or a model/implementation difference; re-running the whole check")
        return run(ctx)
    if sig == "integrate_column:raises":
        try:
            mc.integrate_column(np.arange(5))
            return 0
        except Exception as e:  # noqa
            print("still fails:", type(e).__name__, e)
            return 1
    if probe(ctx, mc):
        pass
    hits = []
    if sig.endswith(":raises"):
        _, raised = enclosure_cases(ctx, mc, atm, False)
        hits += [f"{fn} raised {err}" for fn, err, _ in raised
                 if f"{fn.split('.')[0]}:raises" + ("-nd" if fn.endswith(".nd") else "") == sig]
    fails, _ = law_sweep(ctx, mc, atm)
    hits += [f[1] for f in fails if f[0] == sig]
    for h in hits:
        print("still fails:", h)
    return 1 if hits else 0
