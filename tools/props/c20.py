"""C20 -- SRTM30 elevation mosaics are seamless and match the tiles cell by cell.

Theorems: coq/theories/Props/C20.v (native grid covers tightly; the mosaic holds, cell by cell, the one tile
pixel centred there; get_tiles = the tiles that share area with the rectangle; native grid of a tile's bounds
= grid of the tile; download iff absent, over every request history).
Translated: SRTM30._tiles / _tile_height / _tile_width -> coq/gen/C20_tiles.v on every run (fail closed).
Tie: tools/harness/c20_run.py runs the real SRTM30.elevation / get_tiles / get_grids / get_native_grids /
get_tile with synthetic tile files and a recording download stub; the model (`run_elevation`), the certified
grid checker (`lat_ok`/`lon_ok`) and the cell specification (`world`) are evaluated on the same inputs inside
Coq.  Coordinates reach Coq as the exact rationals of the doubles.
Binary64 tie: Model/C20_float.v repeats the floating-point computations of get_native_grids / get_grids /
get_tiles / the masks of elevation with Coq's primitive floats; the corners reach it as float.hex() literals and
the returned grids (every value, bit for bit), the fetched tiles (in order), the cells and the tile grids are
compared with the implementation.  Where the binary64 model and the rational model choose different blocks the
case must lie within the proved margin (Props/C20.v, robust_margin: 2^-40 degree from a cell edge); otherwise it
is a failing input.
"""
import ast
import json
import math
import os
import random
import shutil
import sys
from concurrent.futures import ThreadPoolExecutor
from fractions import Fraction
from pathlib import Path

from lib import core
from lib.core import zlit, zlist, coq_list, coq_string, coq_bool

HARNESS = core.VERIF / "tools" / "harness" / "c20_run.py"
GENFILE = core.GEN / "C20_tiles.v"
PREAMBLE = ("From Coq Require Import PrimFloat.\nFrom Typhon Require Import Model.C20_srtm Model.C20_margin Model.C20_float.\n"
            "From TyphonGen Require Import C20_tiles.\nOpen Scope string_scope.\n")
TRUSTED = [
    "correspondence harness tools/props/c20.py + tools/harness/c20_run.py (generators, exact rationals of the doubles, "
    "snapping of returned grid values to the half-cell lattice with tolerance 2^-40 degree, synthetic world raster, "
    "numpy proxy serving tile files by NAME, download recorder)",
    "table translation: ast.literal_eval of SRTM30._tiles/_tile_height/_tile_width into coq/gen/C20_tiles.v; "
    "_dlat = _dlon = 1/120 checked against the running module",
    "numpy semantics (trunc, arange, linspace, boolean-mask selection and assignment in C order, float % and comparisons), "
    "os.path.exists, np.fromfile: exercised, modelled, not verified",
    "IEEE rounding: the binary64 model Model/C20_float.v (Coq primitive floats = the machine's binary64 operations; "
    "numpy's trunc / arange / linspace / % / min / max as described at the top of that file) is compared bit for bit "
    "with the implementation on every case but nothing is proved about it; corners within 2^-40 degree of a cell edge "
    "that are not exactly on it are boundary cases (either neighbouring outcome accepted) - everywhere else the "
    "block must be the one of exact arithmetic (robust_margin says that block does not depend on perturbations "
    "of the corners up to the margin)",
]
MARGIN_LOG2 = 40
MARGIN = Fraction(1, 2**MARGIN_LOG2)   # degrees: the margin of Props/C20.v robust_margin (Model/C20_margin.v margin40)
STRICT = os.environ.get("VERIF_C20_STRICT", "0") == "1"   # report every deviation from the binary64 model, also tolerated ones
MODEL_CELLS = 900                   # up to here the algorithmic model's whole matrix is compared too


# ----------------------------------------------------------------------------- table translation

def translate_table(ctx):
    """SRTM30._tiles, _tile_height, _tile_width -> coq/gen/C20_tiles.v (fail closed)."""
    src = (core.REPO / "typhon" / "topography.py").read_text()
    vals = {}
    try:
        tree = ast.parse(src)
        cls = next(n for n in tree.body if isinstance(n, ast.ClassDef) and n.name == "SRTM30")
        for st in cls.body:
            if isinstance(st, ast.Assign) and len(st.targets) == 1 and isinstance(st.targets[0], ast.Name):
                if st.targets[0].id in ("_tiles", "_tile_height", "_tile_width"):
                    vals[st.targets[0].id] = ast.literal_eval(st.value)
        tiles, h, w = vals["_tiles"], vals["_tile_height"], vals["_tile_width"]
        assert isinstance(h, int) and isinstance(w, int) and not isinstance(h, bool)
        rows = []
        for t in tiles:
            name, a, b, c, d = t
            assert isinstance(name, str) and all(isinstance(x, int) and not isinstance(x, bool) for x in (a, b, c, d))
            assert '"' not in name
            rows.append(f'  ("{name}", {zlit(a)}, {zlit(b)}, {zlit(c)}, {zlit(d)})')
    except Exception as e:  # noqa
        ctx.fail("translation", f"SRTM30._tiles/_tile_height/_tile_width are no longer literal tables: {e!r}",
                 obligation="translate SRTM30._tiles", signature="translation")
        ctx.add_obligation("translated: SRTM30._tiles, _tile_height, _tile_width", False, repr(e))
        return None
    text = ("(* GENERATED by tools/props/c20.py from typhon/topography.py (SRTM30._tiles, _tile_height, _tile_width).\n"
            "   Do not edit. *)\n"
            "From Coq Require Import ZArith List String.\nImport ListNotations.\n"
            "Local Open Scope Z_scope.\nLocal Open Scope string_scope.\n"
            f"Definition tile_height : Z := {zlit(h)}.\nDefinition tile_width : Z := {zlit(w)}.\n"
            "Definition tiles : list (string * Z * Z * Z * Z) := [\n" + ";\n".join(rows) + "\n].\n")
    GENFILE.parent.mkdir(parents=True, exist_ok=True)
    if not GENFILE.exists() or GENFILE.read_text() != text:
        GENFILE.write_text(text)
    ctx.add_obligation("translated: SRTM30._tiles, _tile_height, _tile_width", True, f"{len(rows)} tiles")
    return [tuple(t) for t in tiles]


def origin_of(name):
    lon = int(name[1:4]) * (-1 if name[0] == "w" else 1)
    lat = int(name[5:7]) * (-1 if name[4] == "s" else 1)
    return (90 - lat) * 120, (lon + 180) * 120


# the 27 files of the data set (SRTM30 documentation), independent of the table in the code
FILES = [f"{'w' if lo < 0 else 'e'}{abs(lo):03d}{'s' if la < 0 else 'n'}{abs(la):02d}"
         for la in (90, 40, -10) for lo in range(-180, 180, 40)]
ORIGIN = coq_list([f"({coq_string(n)}, ({origin_of(n)[0]}, {origin_of(n)[1]}))" for n in FILES])


# ----------------------------------------------------------------------------- exact rectangles

def rect_fracs(rect):
    return [Fraction(float(x)) for x in rect]           # lat_min, lon_min, lat_max, lon_max


def coq_rect(fr):
    d = 1
    for q in fr:
        d = d * q.denominator // math.gcd(d, q.denominator)
    n = [q.numerator * (d // q.denominator) for q in fr]
    return f"(mkRect {zlit(d)} {zlit(n[0])} {zlit(n[1])} {zlit(n[2])} {zlit(n[3])})"


def near_line(q):
    """(is_boundary, line) -- q [deg] within the margin of a cell edge without being exactly on it."""
    line = Fraction(round(q * 120), 120)
    return (q != line and abs(q - line) <= MARGIN), line


def off_edges(q):
    """q [deg] is farther than the margin from every cell edge (Model/C20_margin.v off_edges_b, decided in Coq too)."""
    return abs(q - Fraction(round(q * 120), 120)) > MARGIN


def snap(q):
    """The cell edge within the margin of q [deg], or None."""
    line = Fraction(round(q * 120), 120)
    return line if abs(q - line) <= MARGIN else None


def fhex(x):
    """A double as a Coq primitive-float literal."""
    return f"({float(x).hex()})%float"


def fkey(x):
    """The key Model/C20_float.v fkey prints for a double: (m, e) with value m * 2^e, m of 53 bits."""
    x = float(x)
    if x != x:
        return (0, 9999)
    if x in (math.inf, -math.inf):
        return (1 if x > 0 else -1, 9999)
    if x == 0:
        return (0, -1 if math.copysign(1.0, x) < 0 else 0)
    m, e = math.frexp(x)
    m, e = int(m * 2**53), e - 53
    while e < -1074:
        m, e = m // 2, e + 1
    return (m, e)


def key_value(k):
    return Fraction(k[0]) * Fraction(2) ** k[1] if k[1] != 9999 else None


def nudge(x, n):
    for _ in range(abs(n)):
        x = math.nextafter(x, math.inf if n > 0 else -math.inf)
    return x


def variants(q):
    b, line = near_line(q)
    if not b:
        return [q]
    eps = Fraction(1, 120 * 2**20)
    return [line - eps, line, line + eps]


def in_coverage(fr):
    la0, lo0, la1, lo1 = fr
    return -60 <= la0 < la1 <= 90 and -180 <= lo0 < lo1 <= 180


# ----------------------------------------------------------------------------- generators

BORDER_LATS = [40, -10]
BORDER_LONS = list(range(-140, 180, 40))


def gen_coord(rng, base_cells, style):
    """A coordinate [deg] near `base_cells` (a position in cells = 1/120 deg), by alignment style."""
    if style == "dy_aligned":                       # multiple of 1/8 degree: exactly representable and on a grid line
        return round(base_cells / 15) * 15 / 120.0
    if style == "dy_unaligned":                     # multiple of 2^-16 degree, well inside a cell
        while True:
            x = math.floor(base_cells / 120.0 * 65536 + rng.randint(-40, 40)) / 65536.0
            c = Fraction(x) * 120
            if abs(c - round(c)) > Fraction(1, 1000):
                return x
    if style == "dy_nearline":                      # 2^-20 degree off a dyadic grid line (1.1e-4 cell)
        return round(base_cells / 15) * 15 / 120.0 + rng.choice([-1, 1]) * 2.0**-20
    if style == "dec_aligned":                      # k/120 as a decimal double: boundary class unless dyadic
        return round(base_cells) / 120.0
    if style == "dec_unaligned":
        while True:
            x = round(base_cells / 120.0 + rng.uniform(-0.01, 0.01), 6)
            c = Fraction(x) * 120
            if abs(c - round(c)) > Fraction(1, 10**6):
                return x
    # ---- coordinates that are not exactly representable, or a few ulps / a little more than the margin off an edge
    k = round(base_cells)
    if style == "ulp_edge":                         # the double next to k/120, moved by up to 4 ulps: inside the margin
        return nudge(k / 120.0, rng.randint(-4, 4))
    if style == "ulp_tile":                         # a few ulps off a 10-degree line (tile borders are among them)
        return nudge(round(base_cells / 1200) * 10.0, rng.choice([-3, -2, -1, 1, 2, 3]))
    if style == "edge_close":                       # 2^-39 .. 2^-30 degree off an edge: outside the margin, exact result required
        while True:
            d = Fraction(1, 2 ** rng.choice([39, 38, 37, 36, 34, 32, 30])) * rng.choice([-1, 1])
            x = float(Fraction(k, 120) + d)
            if off_edges(Fraction(x)):
                return x
    if style == "dec1":                             # one decimal (10.1): an edge as a real number, never as a double
        return round(base_cells / 120.0, 1)
    if style == "third":                            # multiples of 1/3 degree: edges as real numbers
        return round(base_cells / 40) / 3.0
    if style == "seventh":                          # multiples of 1/7 degree: not representable, far from every edge
        return round(base_cells / 120.0 * 7) / 7.0
    raise ValueError(style)


def gen_rect(rng, fam=None):
    focus = rng.choice(["interior", "interior", "hborder", "vborder", "corner", "corner", "outer", "pm180", "pole"])
    if focus == "interior":
        la, lo = rng.uniform(-59, 89), rng.uniform(-179, 179)
    elif focus == "hborder":
        la, lo = rng.choice(BORDER_LATS), rng.uniform(-179, 179)
    elif focus == "vborder":
        la, lo = rng.uniform(-59, 89), rng.choice(BORDER_LONS)
    elif focus == "corner":
        la, lo = rng.choice(BORDER_LATS), rng.choice(BORDER_LONS)
    elif focus == "outer":
        la, lo = rng.choice([-60, 90, rng.uniform(-59, 89)]), rng.choice([-180, 180, rng.uniform(-179, 179)])
    elif focus == "pm180":
        la, lo = rng.choice([40, -10, rng.uniform(-59, 89)]), rng.choice([-180, 180])
    else:
        la, lo = rng.choice([90, -60]), rng.uniform(-179, 179)
    size = rng.choice(["thin", "thin", "small", "small", "small", "medium", "medium", "long", "big"]) if fam is None else \
        rng.choice(["thin", "thin", "small", "small", "small", "medium"])
    if size == "thin":
        h, w = rng.choice([(rng.uniform(0.05, 0.9), rng.uniform(0.05, 0.9)), (rng.uniform(0.05, 0.9), rng.randint(1, 12)),
                           (rng.randint(1, 12), rng.uniform(0.05, 0.9))])
    elif size == "small":
        h, w = rng.uniform(1, 9), rng.uniform(1, 9)
    elif size == "medium":
        h, w = rng.uniform(5, 45), rng.uniform(5, 45)
    elif size == "long":                            # spans three tiles in one direction, thin in the other
        h, w = rng.choice([(rng.uniform(0.3, 3), rng.uniform(4810, 5200)), (rng.uniform(6010, 6300), rng.uniform(0.3, 3))])
    else:
        h, w = rng.uniform(100, 700), rng.uniform(100, 700)
    # centre the rectangle on the focus (in cells), then clip to the covered area
    ca, co = la * 120, lo * 120
    off_a, off_o = rng.uniform(0.2, 0.8), rng.uniform(0.2, 0.8)
    a0, a1 = ca - h * off_a, ca + h * (1 - off_a)
    o0, o1 = co - w * off_o, co + w * (1 - off_o)
    if a0 < -7200:
        a0, a1 = -7200, -7200 + h
    if a1 > 10800:
        a0, a1 = 10800 - h, 10800
    if o0 < -21600:
        o0, o1 = -21600, -21600 + w
    if o1 > 21600:
        o0, o1 = 21600 - w, 21600
    if fam is None:
        fam = rng.choice(["dy", "dy", "dy", "dec", "mixed"])
    styles = {"dy": ["dy_aligned", "dy_unaligned", "dy_unaligned", "dy_nearline"],
              "dec": ["dec_aligned", "dec_unaligned", "dec_unaligned"],
              "mixed": ["dy_aligned", "dy_unaligned", "dec_unaligned", "dy_nearline", "dec_aligned"],
              "fp": ["ulp_edge", "ulp_edge", "edge_close", "edge_close", "ulp_tile", "dec1", "third", "seventh",
                     "dec_unaligned", "dy_aligned"]}[fam]
    for _ in range(50):
        st = [rng.choice(styles) for _ in range(4)]
        r = [gen_coord(rng, a0, st[0]), gen_coord(rng, o0, st[1]), gen_coord(rng, a1, st[2]), gen_coord(rng, o1, st[3])]
        r = [min(max(r[0], -60.0), 90.0), min(max(r[1], -180.0), 180.0), min(max(r[2], -60.0), 90.0), min(max(r[3], -180.0), 180.0)]
        if r[0] < r[2] and r[1] < r[3]:
            return r, {"focus": focus, "size": size, "styles": st}
    return [10.0, 10.0, 10.125, 10.125], {"focus": "fallback", "size": "small", "styles": ["dy_aligned"] * 4}


def gen_tiles_rect(rng):
    """Rectangles for get_tiles: any extent, edges often exactly on or just off tile borders."""
    def coord(lo, hi, borders):
        s = rng.random()
        if s < 0.35:
            return float(rng.choice(borders))
        if s < 0.55:
            return rng.choice(borders) + rng.choice([-1, 1]) * 2.0**-rng.choice([3, 10, 20])
        return math.floor(rng.uniform(lo, hi) * 1024) / 1024.0
    for _ in range(100):
        la = sorted(coord(-60, 90, [-60, -10, 40, 90]) for _ in range(2))
        lo = sorted(coord(-180, 180, list(range(-180, 181, 40))) for _ in range(2))
        r = [min(max(la[0], -60.0), 90.0), min(max(lo[0], -180.0), 180.0), min(max(la[1], -60.0), 90.0), min(max(lo[1], -180.0), 180.0)]
        if r[0] < r[2] and r[1] < r[3]:
            return r
    return [-60.0, -180.0, 90.0, 180.0]


def gen_tiles_rect_fp(rng):
    """Rectangles for get_tiles with edges a few ulps off tile borders and the +-180 / -60 / 90 limits."""
    def coord(lo, hi, borders):
        s = rng.random()
        if s < 0.6:
            return nudge(float(rng.choice(borders)), rng.randint(-3, 3))
        if s < 0.8:
            return rng.choice([-1, 1]) * round(rng.uniform(0, 1e-12), 16)     # around 0: x % 360 rounds
        return round(rng.uniform(lo, hi), 1)
    for _ in range(100):
        la = sorted(coord(-60, 90, [-60, -10, 40, 90]) for _ in range(2))
        lo = sorted(coord(-180, 180, list(range(-180, 181, 40))) for _ in range(2))
        r = [min(max(la[0], -60.0), 90.0), min(max(lo[0], -180.0), 180.0), min(max(la[1], -60.0), 90.0), min(max(lo[1], -180.0), 180.0)]
        if r[0] < r[2] and r[1] < r[3]:
            return r
    return [-60.0, -180.0, 90.0, 180.0]


FIXED_FP_RECTS = [                                  # binary64 situations: not representable, a few ulps off an edge
    [10.1, 1 / 3, 10.3, 2 / 3],                     # every corner an edge as a real number, none as a double
    [0.1, 0.1, 0.7, 0.9],
    [-53.99166666666669, 10.0625, -52.96041666666669, 11.0625],      # lat_min 4 ulps below an edge
    [10.0625, 150.65833333333327, 11.0625, 151.68958333333327],      # lon_min 2 ulps below an edge
    [-50.831249999999976, 10.0625, -49.799999999999976, 11.0625],    # lat_max above an edge by 3 ulps
    [10.0625, 86.95208333333332, 11.0625, 87.98333333333332],        # lon_max below an edge by 1 ulp
    [10.0625, 88.775, 11.0625, 89.80625],                            # lon_min = 88.775: the double is above the edge
    [39.5, 19.5, nudge(40.0, 1), nudge(20.0, 1)],                    # one ulp across the corner of four tiles
    [nudge(40.0, -1), nudge(20.0, -1), 40.5, 20.5],
    [nudge(-10.0, 1), nudge(-140.0, 2), -9.5, -139.5],
    [-59.99, nudge(-180.0, 1), -59.9, -179.9],                       # one ulp inside the western limit
    [89.9, 179.9, nudge(90.0, -1), nudge(180.0, -1)],                # one ulp inside the north-eastern corner
    [1 / 7, 2 / 7, 3 / 7, 5 / 7],                                    # not representable, far from every edge
    [10.0 + 2.0**-38, 10.0 - 2.0**-38, 10.5 - 2.0**-39, 10.5 + 2.0**-39],   # just outside the margin: exact block required
]


FIXED_RECTS = [                                     # always run: the situations the quantifier names
    [10.0, 10.0, 10.125, 10.125],                   # aligned, one tile
    [10.01, 10.01, 10.02, 10.03],                   # unaligned (decimal)
    [39.96875, 19.96875, 40.03125, 20.03125],       # four tiles, unaligned dyadic
    [39.875, 19.875, 40.125, 20.125],               # four tiles, aligned
    [40.0, 20.0, 40.125, 20.125],                   # touching both borders from inside
    [39.875, 19.875, 40.0, 20.0],                   # touching both borders from the other side
    [10.0, -180.0, 10.125, -179.875],               # at -180
    [-10.0625, 179.9375, -9.9375, 180.0],           # at +180, two tiles
    [89.9375, -0.0625, 90.0, 0.0625],               # at the pole
    [-60.0, -180.0, -59.9375, -179.9375],           # lower-left corner of the covered area
    [12.34375, 45.00390625, 12.3438, 45.00391],     # thinner than a cell in both directions
    [39.99, -140.2, 40.01, -139.9],                 # decimal, four tiles
]


def gen_cases(ctx):
    rng = ctx.rng
    cases = []
    n_elev, n_tiles, n_hist = ctx.n(170, 900), ctx.n(120, 1400), ctx.n(12, 80)
    n_fp, n_tiles_fp = ctx.n(70, 500), ctx.n(40, 400)

    def new(ops, warm=(), tag=None):
        cases.append({"id": len(cases), "warm": sorted(warm), "ops": ops, "tag": tag})
    for r in FIXED_RECTS:
        new([["elev", r]], warm=rng.sample(FILES, 3), tag={"focus": "fixed"})
        new([["tiles", r]], tag={"focus": "fixed"})
    new([["tiles", [-60.0, -180.0, 90.0, 180.0]]], tag={"focus": "fixed"})
    for _ in range(n_elev):
        r, tag = gen_rect(rng)
        warm = rng.sample(FILES, rng.choice([0, 0, 5, 27]))
        new([["elev", r]], warm=warm, tag=tag)
    for k in range(0, n_tiles, 10):
        new([["tiles", gen_tiles_rect(rng)] for _ in range(10)], tag={"focus": "tiles"})
    for k in range(0, 27, 9):
        new([["grids", n] for n in FILES[k:k + 9]], tag={"focus": "grids"})
    for _ in range(n_hist):                          # request histories against a warm or cold cache
        pool = rng.sample(FILES, rng.randint(1, 4))
        ops = []
        for _ in range(rng.randint(3, 9)):
            if rng.random() < 0.7:
                ops.append(["get_tile", rng.choice(pool)])
            else:
                n = rng.choice(pool)
                r0, c0 = origin_of(n)
                la, lo = 90 - r0 / 120.0, c0 / 120.0 - 180
                d = rng.choice([0.0, 0.0625])       # inside the tile, or across its upper-left corner
                ops.append(["elev", [la - 0.125, max(lo - d, -180.0), min(la + d, 90.0), lo + 0.125]])
        new(ops, warm=[n for n in pool if rng.random() < 0.4], tag={"focus": "history"})
    # binary64 families, from a stream of their own (the cases above stay what they were before these were added)
    rng2 = random.Random(f"C20fp:{ctx.seed}")
    for r in FIXED_FP_RECTS:
        new([["elev", r]], warm=FILES, tag={"focus": "fixed-fp"})
        new([["tiles", r]], tag={"focus": "fixed-fp"})
    for _ in range(n_fp):
        r, tag = gen_rect(rng2, fam="fp")
        new([["elev", r]], warm=FILES, tag=tag)
    for k in range(0, n_tiles_fp, 10):
        new([["tiles", gen_tiles_rect_fp(rng2)] for _ in range(10)], tag={"focus": "tiles-fp"})
    return cases


# ----------------------------------------------------------------------------- running the implementation

def run_impl(ctx, cases):
    """Run the cases in child processes of the repo interpreter (sorted so that each child stays in one region)."""
    order = sorted(range(len(cases)), key=lambda i: (cases[i]["ops"][0][0] != "elev",
                                                      [round(x / 20) for x in cases[i]["ops"][0][1][:2]]
                                                      if cases[i]["ops"][0][0] == "elev" else [0, 0], i))
    nchunks = max(1, min(core.NPROC - 2, len(cases) // 12 or 1))
    size = -(-len(order) // nchunks)
    chunks = [order[k:k + size] for k in range(0, len(order), size)]
    results, meta, errors = {}, None, []

    def work(k_idx):
        k, idx = k_idx
        f = ctx.work / f"impl_{k:03d}.json"
        f.write_text(json.dumps([cases[i] for i in idx]))
        r = core.run_py(HARNESS, [f], timeout=840)
        f.unlink()
        return k, idx, r
    with ThreadPoolExecutor(max_workers=nchunks) as ex:
        for k, idx, r in ex.map(work, enumerate(chunks)):
            try:
                d = json.loads(r.stdout)
                meta = d["meta"]
                for i, res in zip(idx, d["results"]):
                    results[i] = res
            except Exception:  # noqa
                errors.append(f"chunk {k}: rc={r.returncode} {r.stderr[-800:]}")
    return results, meta, errors


# ----------------------------------------------------------------------------- Coq expressions

def tile_border_on_block_edge(la, lo):
    """A block edge lies on a 10-degree line: there the float block bounds decide which extra tile is looked at."""
    edges = [la[0] + 1, la[-1] - 1, lo[0] - 1, lo[-1] + 1]
    return any(e % 2400 == 0 for e in edges)


def elev_expr(rect, res):
    """Coq term for one elevation request; returns (expr, info)."""
    fr = rect_fracs(rect)
    boundary = any(near_line(q)[0] for q in fr)
    r = coq_rect(fr)
    info = {"boundary": boundary, "cov": in_coverage(fr),
            # both ends of one side within the margin of the SAME edge: thinner than the margin
            "thin": (snap(fr[0]) is not None and snap(fr[0]) == snap(fr[2])) or (snap(fr[1]) is not None and snap(fr[1]) == snap(fr[3]))}
    la, lo, z = res.get("lats"), res.get("lons"), res.get("z")
    corners = " ".join(fhex(x) for x in rect)
    off = f"rect_off_edges_b margin40 {r}"
    if la is None or lo is None or z is None:
        # nothing comparable came back: evaluate the models alone
        return (f"(0, in_coverage_b {r}, run_elevation {ORIGIN} false {r}, {off}, "
                f"fcompare {ORIGIN} [] [] [] {r} {corners})"), info
    lat_vars = [[a, fr[1], b, fr[3]] for a in variants(fr[0]) for b in variants(fr[2]) if a < b]
    lon_vars = [[fr[0], a, fr[2], b] for a in variants(fr[1]) for b in variants(fr[3]) if a < b]
    cells = len(la) * len(lo)
    with_matrix = (not boundary) and cells <= MODEL_CELLS
    info["with_matrix"] = with_matrix
    lats_sel = [la[i] for i in res["rsel"]]
    lons_sel = [lo[j] for j in res["csel"]]
    zc = coq_list([zlist(row) for row in z])
    full = len(lats_sel) == len(la) and len(lons_sel) == len(lo)
    use_m = with_matrix and full
    info["with_matrix"] = use_m
    run = (f"(let '(s, la, lo, t, m) := run_elevation {ORIGIN} {coq_bool(use_m)} {r} in "
           f"(s, la, lo, t, {'diff m ' + zc if use_m else '[]'}))")
    e = (f"(1, in_coverage_b {r}, {run}, "
         f"{coq_list([f'lat_ok {coq_rect(v)} {zlist(la)}' for v in lat_vars])}, "
         f"{coq_list([f'lon_ok {coq_rect(v)} {zlist(lo)}' for v in lon_vars])}, "
         f"diff (world_matrix {zlist(lats_sel)} {zlist(lons_sel)}) {zc}, {off}, "
         f"fcompare {ORIGIN} {zlist(res['rsel'])} {zlist(res['csel'])} {zc} {r} {corners})")
    return e, info


def tiles_expr(rect):
    return (f"(in_coverage_b {coq_rect(rect_fracs(rect))}, get_tiles {coq_rect(rect_fracs(rect))}, "
            f"fget_tiles {' '.join(fhex(x) for x in rect)})")


def grids_expr(name, pos):
    return (f"(match find_tile {coq_string(name)} with Some t => "
            f"[summary (-2) (tile_lats t); summary 2 (tile_lons t); summary (-2) (native_lats (tile_rect t)); "
            f"summary 2 (native_lons (tile_rect t))] | None => [] end, "
            f"fgrids {coq_string(name)} {zlist(pos[0])} {zlist(pos[1])})")


def cache_expr(warm, reqs):
    return f"(snd (run_cache {coq_list([coq_string(n) for n in warm])} {coq_list([coq_string(n) for n in reqs])}))"


def requests_of(events):
    """(name, downloaded) per tile read, from the recorded download/read events; None if malformed."""
    out, pending = [], None
    for e in events:
        if e[0] == "download":
            if pending is not None:
                return None
            pending = e[1]
        else:
            if pending is not None and pending != e[1]:
                return None
            out.append((e[1], pending is not None, e[2]))
            pending = None
    return None if pending is not None else out


# ----------------------------------------------------------------------------- the check

def check_cases(ctx, cases):
    results, meta, errors = run_impl(ctx, cases)
    ctx.log(f"implementation run on {len(cases)} cases")
    for e in errors:
        ctx.fail("correspondence", "harness child failed: " + e, signature="harness-child")
    if meta and not (meta["dlat"] == 1 / 120 and meta["dlon"] == 1 / 120):
        ctx.fail("translation", f"SRTM30._dlat/_dlon are {meta['dlat']!r}/{meta['dlon']!r}, the model assumes 1/120 degree",
                 obligation="cell size", signature="translation-cell-size")
    exprs, index = [], []                      # index: (case no, op no, kind, info)
    if meta:
        exprs.append("[fkey fdlat; fkey fdlon]")
        index.append((None, -1, "meta", {}))
    for ci, c in enumerate(cases):
        res = results.get(ci)
        if res is None:
            continue
        warm = list(c["warm"])
        reqs_all, malformed = [], False
        for oi, (op, r) in enumerate(zip(c["ops"], res["ops"])):
            rq = requests_of(r.get("events", []))
            if rq is None:
                malformed = True
            else:
                reqs_all += rq
            if op[0] == "elev":
                e, info = elev_expr(op[1], r)
                exprs.append(e)
                index.append((ci, oi, "elev", info))
            elif op[0] == "tiles":
                exprs.append(tiles_expr(op[1]))
                index.append((ci, oi, "tiles", {}))
            elif op[0] == "grids":
                exprs.append(grids_expr(op[1], r.get("pos") or [[], []]))
                index.append((ci, oi, "grids", {}))
        if malformed:
            ctx.fail("failing-input", "a download was not followed by the read of that tile", case=c, impl=res,
                     signature="cache-trace")
        else:
            exprs.append(cache_expr(warm, [n for n, _, _ in reqs_all]))
            index.append((ci, -1, "cache", {"reqs": reqs_all}))
    vals, log = core.coq_eval(ctx.work / "cases", "c20", PREAMBLE, exprs, shard=12, timeout=600)
    ctx.log(f"{len(exprs)} terms evaluated in Coq")
    if log:
        ctx.log(log[-2000:])
    nontrivial = set()
    stats = {"elev": 0, "elev_boundary": 0, "elev_model_matrix": 0, "tiles": 0, "grids": 0, "cache_requests": 0,
             "downloads": 0, "multi_tile": 0, "extra_tiles_on_border": 0, "cells_checked": 0,
             "f64_elev": 0, "f64_grid_values_compared": 0, "f64_grids_bit_exact": 0, "f64_tiles_same_order": 0,
             "f64_cells_identical": 0, "f64_deviations_tolerated": 0, "f64_unrepresentable_corner": 0,
             "f64_vs_rational_differ": 0, "f64_vs_rational_differ_within_margin": 0, "f64_tiles": 0, "f64_tiles_identical": 0,
             "f64_tile_grid_values_bit_exact": 0, "f64_empty_thinner_than_margin": 0}
    for (ci, oi, kind, info), v in zip(index, vals):
        if kind == "meta":
            want = [fkey(float.fromhex(meta.get("dlat_x", "0x0p+0"))), fkey(float.fromhex(meta.get("dlon_x", "0x0p+0")))]
            if v is None or [tuple(k) for k in v] != want:
                ctx.fail("translation", f"SRTM30._dlat/_dlon are {meta.get('dlat_x')}/{meta.get('dlon_x')} but the binary64 model "
                         f"computes 50.0 / _tile_height, 40.0 / _tile_width = {v}", obligation="cell size (binary64)",
                         signature="translation-cell-size")
            continue
        c = cases[ci]
        res = results[ci]
        ctx.cov["evaluations"] += 1
        one = {"id": c["id"], "warm": c["warm"], "ops": [c["ops"][oi]] if oi >= 0 else c["ops"], "tag": c.get("tag")}
        if v is None:
            ctx.fail("correspondence", "Coq evaluation failed for this case", case=one, signature="coq-eval")
            continue
        if kind == "elev":
            judge_elev(ctx, one, c["ops"][oi][1], res["ops"][oi], v, info, stats, nontrivial)
        elif kind == "tiles":
            stats["tiles"] += 1
            rect = c["ops"][oi][1]
            r = res["ops"][oi]
            cov, model, fmodel = v
            fr = rect_fracs(rect)
            edge = any(q % 10 != 0 and abs(q - 10 * round(q / 10)) <= MARGIN for q in fr)
            stats["f64_tiles"] += 1
            if "tiles" in r:
                if list(r["tiles"]) == list(fmodel):
                    stats["f64_tiles_identical"] += 1
                elif STRICT or (sorted(r["tiles"]) != sorted(fmodel) and not (edge and sorted(r["tiles"]) == sorted(model))):
                    # (an edge within the margin of a tile border: the answer of exact arithmetic is accepted as well)
                    ctx.fail("correspondence", f"get_tiles{tuple(rect)} names {r['tiles']}, the binary64 model {fmodel}",
                             case=one, impl=r["tiles"], model=fmodel, signature="float-model-tiles")
                else:
                    stats["f64_deviations_tolerated"] += 1
            if sorted(fmodel) != sorted(model):
                stats["f64_vs_rational_differ"] += 1
                if edge:
                    stats["f64_vs_rational_differ_within_margin"] += 1
            if edge:
                continue
            if "error" in r:
                ctx.fail("failing-input" if cov else "correspondence", f"get_tiles{tuple(rect)} raised {r['error']}",
                         case=one, impl=r, model=model, signature="get-tiles")
            elif sorted(r["tiles"]) != sorted(model):
                ctx.fail("failing-input" if cov else "correspondence",
                         f"get_tiles{tuple(rect)} names {sorted(r['tiles'])}, but the tiles sharing area with the rectangle are "
                         f"{sorted(model)}", case=one, impl=r["tiles"], model=model, signature="get-tiles")
            if cov and 1 <= len(model) < 27:
                nontrivial.add(repr(("tiles", rect)))
        elif kind == "grids":
            stats["grids"] += 1
            r = res["ops"][oi]
            name = c["ops"][oi][1]
            if "error" in r:
                ctx.fail("failing-input", f"get_grids/get_native_grids of tile {name} raised {r['error']}", case=one, impl=r,
                         signature="tile-grids")
                continue
            model = [list(x) for x in v[0]]
            fbits = [[tuple(k) for k in l] for l in v[1]]
            ibits = [[fkey(float.fromhex(h)) if h is not None else None for h in l] for l in r.get("bits", [])]
            if fbits == ibits:
                stats["f64_tile_grid_values_bit_exact"] += sum(len(l) for l in ibits)
            else:
                worst = max((abs(key_value(a) - key_value(b)) for la_, lb_ in zip(fbits, ibits) for a, b in zip(la_, lb_)
                             if a is not None and b is not None and a[1] != 9999 and b[1] != 9999), default=None)
                if STRICT or worst is None or worst > MARGIN or [len(l) for l in fbits] != [len(l) for l in ibits]:
                    ctx.fail("correspondence", f"tile grids of {name}: values differ from the binary64 model (largest difference "
                             f"{float(worst) if worst is not None else None} degree)", case=one, signature="float-model-grids")
                else:
                    stats["f64_deviations_tolerated"] += 1
            impl = [r["glat"], r["glon"], r["nlat"], r["nlon"]]
            if impl[0] != impl[2] or impl[1] != impl[3] or not r["allclose"]:
                ctx.fail("failing-input", f"get_native_grids of the bounds of {name} is {impl[2:]} (first, last, length, regular) "
                         f"but get_grids gives {impl[:2]}", case=one, impl=impl, model=model, signature="tile-grids")
            elif impl != model:
                ctx.fail("correspondence", f"tile grids of {name}: implementation {impl}, model {model}", case=one, impl=impl,
                         model=model, signature="tile-grids-model")
            nontrivial.add(repr(("grids", name)))
        elif kind == "cache":
            reqs = info["reqs"]
            stats["cache_requests"] += len(reqs)
            stats["downloads"] += sum(1 for _, d, _ in reqs if d)
            model = [(n, bool(d)) for n, d in v]
            impl = [(n, d) for n, d, _ in reqs]
            wrong_file = [(n, f) for n, _, f in reqs if f != n.upper() + ".DEM"]
            if impl != model:
                k = next((i for i, (a, b) in enumerate(zip(impl, model)) if a != b), 0)
                ctx.fail("failing-input", f"request {k} for tile {impl[k][0]}: downloaded={impl[k][1]} although the cache "
                         f"{'already held' if not model[k][1] else 'did not hold'} it (warm: {c['warm']}, requests so far "
                         f"{[n for n, _ in impl[:k]]})", case=one, impl=impl, model=model, signature="cache-download")
            elif wrong_file:
                ctx.fail("failing-input", f"tile read from {wrong_file[0][1]} instead of {wrong_file[0][0].upper()}.DEM",
                         case=one, impl=reqs, signature="cache-file")
            if len({n for n, _ in impl}) < len(impl) or (c["warm"] and impl):
                if any(d for _, d in impl) and any(not d for _, d in impl):
                    nontrivial.add(repr(("cache", c["warm"], impl)))
    ctx.cov.setdefault("stats", {})
    for k, n in stats.items():
        ctx.cov["stats"][k] = ctx.cov["stats"].get(k, 0) + n
    return len(nontrivial)


def judge_elev(ctx, one, rect, r, v, info, stats, nontrivial):
    stats["elev"] += 1
    cov, boundary = info["cov"], info["boundary"]
    if boundary:
        stats["elev_boundary"] += 1
    kind = "failing-input" if cov else "correspondence"
    flag = v[0]
    cov_b = v[1]
    status, m_lats, m_lons, m_tiles, model_diff = v[2]
    if bool(cov_b) != bool(cov):
        ctx.fail("correspondence", "coverage test differs between harness and Coq", case=one, signature="harness-coverage")
    if cov and status != "SOk":
        ctx.fail("proof", f"the model ends in {status} on a rectangle inside the covered area (contradicts mosaic_cellwise)",
                 case=one, signature="model-vs-theorem")
    where = f"SRTM30.elevation{tuple(rect)}"
    if "error" in r:
        fst = v[4][0] if flag == 0 and len(v) > 4 else None
        if boundary and info.get("thin") and fst == "FEmpty" and "zero-size" in r["error"]:
            # a rectangle thinner than the margin around one cell edge: binary64 arithmetic sees it as empty
            stats["f64_empty_thinner_than_margin"] += 1
            if len(ctx.cov.setdefault("f64_notes", [])) < 12:
                ctx.cov["f64_notes"].append(f"{where} (thinner than 2^-{MARGIN_LOG2} degree around a cell edge) raised {r['error'][:60]}; "
                                            "the binary64 model computes an empty grid too")
            return
        ctx.fail(kind, f"{where} raised {r['error']}", case=one, impl=r["error"], model=status, signature="elevation-error")
        return
    if flag == 0:
        what = ("grid values off the 1/240-degree lattice: " + str(r.get("offgrid"))) if "offgrid" in r else \
               (f"array of shape {r.get('shape')} for grids of {len(r.get('lats', []))} x {len(r.get('lons', []))}"
                if "z" not in r and not r.get("nonint") else "non-integral elevation values")
        ctx.fail(kind, f"{where} returned {what}", case=one, impl={k: r[k] for k in r if k != 'z'}, signature="elevation-shape")
        return
    lat_oks, lon_oks, spec_diff = v[3], v[4], v[5]
    la, lo = r["lats"], r["lons"]
    stats["cells_checked"] += len(r["rsel"]) * len(r["csel"])
    ok = True
    if not any(lat_oks):
        ok = False
        ctx.fail(kind, f"{where}: latitudes {la[0] / 240:.6f} .. {la[-1] / 240:.6f} ({len(la)} rows, [hc] {la[:3]}..{la[-3:]}) are not "
                 f"consecutive cell centres covering [{rect[0]!r}, {rect[2]!r}] with less than one cell of margin; "
                 f"required: {m_lats[0] / 240:.6f} .. {m_lats[-1] / 240:.6f} ({len(m_lats)} rows)" if m_lats else
                 f"{where}: bad latitude grid {la[:4]}", case=one, impl=[la[0], la[-1], len(la)],
                 model=[m_lats[0], m_lats[-1], len(m_lats)] if m_lats else None, signature="grid-lat")
    if not any(lon_oks):
        ok = False
        ctx.fail(kind, f"{where}: longitudes {lo[0] / 240:.6f} .. {lo[-1] / 240:.6f} ({len(lo)} columns) are not consecutive cell "
                 f"centres covering [{rect[1]!r}, {rect[3]!r}] with less than one cell of margin; required: "
                 f"{m_lons[0] / 240:.6f} .. {m_lons[-1] / 240:.6f} ({len(m_lons)} columns)" if m_lons else
                 f"{where}: bad longitude grid {lo[:4]}", case=one, impl=[lo[0], lo[-1], len(lo)],
                 model=[m_lons[0], m_lons[-1], len(m_lons)] if m_lons else None, signature="grid-lon")
    if spec_diff:
        ok = False
        i, j, want, got = spec_diff[0]
        ii, jj = (r["rsel"][i], r["csel"][j]) if i >= 0 and j >= 0 else (i, j)
        ctx.fail(kind, f"{where}: entry [{ii}, {jj}] (lat {la[ii] / 240:.6f}, lon {lo[jj] / 240:.6f}) is {got} but the tile pixel "
                 f"centred there holds {want}; {len(spec_diff)}+ cells differ" if i >= 0 and j >= 0 else
                 f"{where}: array shape differs from the grids", case=one, impl=spec_diff, signature="cell-value")
    if r.get("whole_bad"):
        ok = False
        ctx.fail(kind, f"{where}: {r['whole_bad']} cells of the whole array differ from the world raster, first "
                 f"{r['whole_first']}", case=one, impl=r["whole_first"], signature="cell-value")
    fetched = [e[1] for e in r.get("events", []) if e[0] == "read"]
    if len(m_tiles) > 1:
        stats["multi_tile"] += 1
    if not boundary and ok:
        # the algorithmic model against the implementation (beyond what the property fixes)
        if la != m_lats or lo != m_lons:
            ctx.fail("proof", "grid accepted by the certified checker but different from the model (contradicts grid_unique)",
                     case=one, impl=[la[:3], lo[:3]], model=[m_lats[:3], m_lons[:3]], signature="model-vs-theorem")
        if model_diff:
            ctx.fail("proof", "cells accepted by the specification but different from the model (contradicts mosaic_cellwise)",
                     case=one, impl=model_diff, signature="model-vs-theorem")
        if sorted(fetched) != sorted(m_tiles):
            if set(m_tiles) <= set(fetched) and tile_border_on_block_edge(la, lo):
                stats["extra_tiles_on_border"] += 1       # float block bound on a tile border: an unused tile is looked at
            else:
                ctx.fail("correspondence", f"{where} read the tiles {fetched}, the model reads {m_tiles}", case=one,
                         impl=fetched, model=m_tiles, signature="tiles-read")
    if info.get("with_matrix"):
        stats["elev_model_matrix"] += 1
    judge_float(ctx, one, rect, r, v[7], v[6], info, stats, ok, fetched, m_tiles, where, kind)
    fr = rect_fracs(rect)
    unaligned = any((q * 120).denominator != 1 for q in fr)
    if cov and not boundary and (unaligned or len(m_tiles) > 1):
        nontrivial.add(repr(("elev", rect)))
    if len(m_tiles) > 1 or one["id"] % 9 == 0:
        ctx.sample({"elevation": rect, "rows": len(la), "columns": len(lo), "tiles": m_tiles,
                    "first_cell": [la[0], lo[0], r["z"][0][0]], "tag": one.get("tag")}, limit=8)


def judge_float(ctx, one, rect, r, fv, off_b, info, stats, ok, fetched, m_tiles, where, kind):
    """The implementation against the binary64 model (bit for bit), and the binary64 model against the rational one."""
    fr = rect_fracs(rect)
    boundary = info["boundary"]
    stats["f64_elev"] += 1
    if any((q * 120).denominator > 2**20 for q in fr):
        stats["f64_unrepresentable_corner"] += 1
    if bool(off_b) != all(off_edges(q) for q in fr):
        ctx.fail("correspondence", "margin test differs between harness and Coq (rect_off_edges_b)", case=one,
                 signature="harness-margin")
    fst, lak, lok, sums, same, names, sels, fdiff = fv
    la, lo = r["lats"], r["lons"]
    devs, index_dev = [], False
    for what, hx, mk in (("latitudes", r.get("lats_x", []), lak), ("longitudes", r.get("lons_x", []), lok)):
        a, b = [fkey(float.fromhex(h)) for h in hx], [tuple(k) for k in mk]
        stats["f64_grid_values_compared"] += len(a)
        if a == b:
            continue
        vals_ok = len(a) == len(b) and all(x[1] != 9999 and y[1] != 9999 and abs(key_value(x) - key_value(y)) <= MARGIN
                                          for x, y in zip(a, b))
        k = next((i for i, (x, y) in enumerate(zip(a, b)) if x != y), min(len(a), len(b)))
        if vals_ok:
            devs.append(("values", f"{what}[{k}] is {hx[k]}, the binary64 model computes "
                                   f"{float(key_value(b[k])).hex()} (same cells, other bits)"))
        else:
            index_dev = True
            devs.append(("index", f"{len(a)} {what}, the binary64 model computes {len(b)}; first difference at [{k}]"))
    if fst != "FOk":
        index_dev = True
        devs.append(("index", f"the binary64 model ends in {fst}"))
    if not devs:
        stats["f64_grids_bit_exact"] += 1
    if list(fetched) == list(names):
        stats["f64_tiles_same_order"] += 1
    elif sorted(fetched) == sorted(names):
        devs.append(("order", f"tiles read in the order {fetched}, the binary64 model reads {names}"))
    else:
        devs.append(("tiles", f"tiles read {fetched}, the binary64 model reads {names}"))
    if not index_dev:
        if fdiff:
            i, j, want, got = fdiff[0]
            devs.append(("cells", f"cell [{i}, {j}] of the selection holds {got}, the binary64 model puts {want} there"))
        else:
            stats["f64_cells_identical"] += 1
    if STRICT:
        serious = devs
    else:
        # a corner within the margin: another neighbouring block (accepted by the certified checker, cells as the
        # specification has them) is tolerated, and with it the tiles that block needs
        other_block = index_dev and boundary and ok
        serious = [d for d in devs if (d[0] == "index" and not other_block) or d[0] == "cells" or
                   (d[0] == "tiles" and not other_block and
                    not (set(m_tiles) <= set(fetched) and tile_border_on_block_edge(la, lo)))]
    if serious:
        ctx.fail("correspondence", f"{where} differs from the binary64 model: " + "; ".join(t for _, t in serious),
                 case=one, impl={"rows": len(la), "columns": len(lo), "tiles": fetched},
                 model={"rows_cols": sums, "tiles": names, "selections": sels}, signature="float-model")
    elif devs:
        stats["f64_deviations_tolerated"] += 1
        if len(ctx.cov.setdefault("f64_notes", [])) < 12:
            ctx.cov["f64_notes"].append(f"tolerated deviation from the binary64 model at {where}: " + "; ".join(t for _, t in devs)[:300])
    if not all(same):
        stats["f64_vs_rational_differ"] += 1
        if boundary:
            stats["f64_vs_rational_differ_within_margin"] += 1
        elif not index_dev:
            ctx.fail(kind, f"{where}: binary64 arithmetic selects rows/columns {sums} (first, last, count), exact arithmetic on the "
                     f"same doubles selects another block, although every corner is either exactly on a cell edge or farther "
                     f"than 2^-{MARGIN_LOG2} degree from every edge (outside the margin of robust_margin)", case=one,
                     impl=sums, signature="float-vs-exact")


def finish(ctx, cases, nontrivial):
    ctx.cov["distinct_nontrivial"] = nontrivial
    ctx.cov["rule"] = ("elevation requests inside the covered area that are not float-boundary cases and are unaligned in at least "
                       "one coordinate or span >= 2 tiles; get_tiles requests naming between 1 and 26 tiles; the 27 tile-grid "
                       "comparisons; request histories containing both a download and a cache hit; distinct by input")
    tags = [c.get("tag") or {} for c in cases]
    ctx.cov["input_distribution"] = {
        "cases": len(cases),
        "focus": {k: sum(1 for t in tags if t.get("focus") == k) for k in sorted({t.get("focus") for t in tags if t.get("focus")})},
        "size": {k: sum(1 for t in tags if t.get("size") == k) for k in sorted({t.get("size") for t in tags if t.get("size")})},
        "coordinate_styles": {k: sum(t.get("styles", []).count(k) for t in tags)
                              for k in ("dy_aligned", "dy_unaligned", "dy_nearline", "dec_aligned", "dec_unaligned", "ulp_edge",
                                        "ulp_tile", "edge_close", "dec1", "third", "seventh")},
    }
    ctx.assumptions += [
        "rectangle inside the covered area: -60 <= lat_min < lat_max <= 90, -180 <= lon_min < lon_max <= 180 "
        "(hypothesis in_coverage of the theorems, evaluated per case in Coq)",
        "the tile table is well formed (table_ok: proved by computation on the translated table on every run)",
        "tile FILES hold the window their NAME stands for (SRTM30 naming); a downloaded tile appears as NAME.DEM",
        "cell size exactly 1/120 degree in the rational model; doubles enter as exact rationals (rational model) and as "
        "float.hex() literals (binary64 model); margin 2^-40 degree around cell edges (robust_margin)",
    ]
    st = ctx.cov.get("stats", {})
    if st.get("f64_deviations_tolerated"):
        ctx.log(f"NOTE {st['f64_deviations_tolerated']} deviations from the binary64 model tolerated (same cells with other bits, "
                f"another tile order, or another neighbouring block for a corner within the margin)")
    return ctx.finish(trusted_base=TRUSTED)


def known_edge_rounding(ctx):
    """The four directed inputs of the open finding F-C20-3 (known_findings.json): binary64 rounding of the index arithmetic for
    corners within 1e-13 degree of a cell edge / tile border makes the literal statement fail by a few ulps.  Each is judged here in
    exact rational arithmetic on the doubles handed in and returned (independent of the Coq models); all four carry the signature of
    that finding.  Everything else the check finds -- in particular any deviation outside the proved margin -- is reported as usual."""
    from fractions import Fraction as F
    from typhon.topography import SRTM30
    half, cell = F(1, 240), F(1, 120)

    def report(what, args):
        ctx.fail("failing-input", what, case={"known": "F-C20-3", "args": [float(a).hex() for a in args]}, signature="float-edge-rounding")
    try:
        r = (10.0, 10.0, 10.000000000000002, 10.1)
        la, _ = SRTM30.get_native_grids(*r)
        if len(la) == 0:
            report(f"get_native_grids{r} returns no latitude row for a non-degenerate rectangle (elevation raises ValueError): "
                   "90 - lat_max rounds to 80.0", r)
        r = (-53.99166666666669, 10.0625, -52.96041666666669, 11.0625)
        la, _ = SRTM30.get_native_grids(*r)
        if len(la) and F(float(la.min())) - half > F(r[0]):
            report(f"get_native_grids{r}: the lowest cell edge lies {float(F(float(la.min())) - half - F(r[0])):.2e} degree ABOVE lat_min "
                   "(the block does not cover the rectangle)", r)
        r = (10.0625, 88.775, 11.0625, 89.80625)
        _, lo = SRTM30.get_native_grids(*r)
        if len(lo) and F(r[1]) - (F(float(lo.min())) - half) >= cell:
            report(f"get_native_grids{r}: the block extends {float(F(r[1]) - (F(float(lo.min())) - half)):.15f} degree (a whole cell or "
                   "more) beyond lon_min", r)
        r = (-11.3, -60.000000000000014, -1.0, -50.0)
        tl = SRTM30.get_tiles(*r)
        if F(r[1]) < -60 and "w100n40" not in tl:
            report(f"get_tiles{r} = {tl} omits w100n40 / w100s10 although the rectangle reaches {float(-60 - F(r[1])):.2e} degree into "
                   "them (lon_min % 360 rounds to 300.0)", r)
    except Exception as e:  # noqa
        ctx.fail("failing-input", f"a directed edge-rounding input raised {type(e).__name__}: {e}", signature="edge-rounding-raises")


def cache_configurations(ctx):
    """"a tile is downloaded only if it is not already in the cache directory" under the documented ways of naming that directory:
    TYPHON_DATA_PATH first, else XDG_CACHE_HOME, else below the home directory -- one fresh interpreter per configuration (the
    module resolves the directory once).  The tile lies in the places the documented precedence designates (with and without the
    sub directories the code appends, so that only the PRECEDENCE is demanded, not the layout); the directory of a variable that
    must lose is empty.  A download, an exception or another tile content is a failing input."""
    import subprocess
    import tempfile
    base = tempfile.mkdtemp(prefix="verif_c20_env_")
    try:
        tdp, xdg, home = (os.path.join(base, d) for d in ("typhon_data", "xdg_cache", "home"))
        sub = ["", "topography", os.path.join("typhon", "topography"), "typhon"]
        home_dirs = [os.path.join(home, ".cache", "typhon", "topography"), os.path.join(home, ".typhon", "topography")]
        configs = [("TYPHON_DATA_PATH only", {"TYPHON_DATA_PATH": tdp}, [os.path.join(tdp, d) for d in sub]),
                   ("XDG_CACHE_HOME only", {"XDG_CACHE_HOME": xdg}, [os.path.join(xdg, d) for d in sub]),
                   ("TYPHON_DATA_PATH and XDG_CACHE_HOME", {"TYPHON_DATA_PATH": tdp, "XDG_CACHE_HOME": xdg},
                    [os.path.join(tdp, d) for d in sub]),
                   ("neither variable", {}, home_dirs)]
        n = 0
        for k, (label, env_add, warm) in enumerate(configs):
            env = {k_: v_ for k_, v_ in os.environ.items() if k_ not in ("TYPHON_DATA_PATH", "XDG_CACHE_HOME")}
            env.update(env_add)
            env.update({"HOME": home, "PYTHONPATH": str(core.REPO)})
            for d in (tdp, xdg, home):
                shutil.rmtree(d, ignore_errors=True)
                os.makedirs(d)
            tile = ["w020n90", "e020n40", "w100n40", "e060s10"][k]
            pr = subprocess.run([core.PY, "-W", "ignore", str(core.VERIF / "tools" / "harness" / "c20_env.py"),
                                 json.dumps({"warm_dirs": warm, "tile": tile})], env=env, capture_output=True, text=True, timeout=300, cwd=base)
            try:
                r = json.loads(pr.stdout.strip().splitlines()[-1])
            except Exception:  # noqa
                ctx.fail("correspondence", f"cache configuration run [{label}] gave no result: {pr.stderr[-400:]}", signature="cache-config-run")
                continue
            n += 1
            ctx.cov["evaluations"] += 1
            case = {"configuration": label, "environment": {k_: v_.replace(base, "<tmp>") for k_, v_ in env_add.items()},
                    "tile_in": [w.replace(base, "<tmp>") for w in warm], "observed": {k_: (v_.replace(base, "<tmp>") if isinstance(v_, str) else v_)
                                                                                     for k_, v_ in r.items()}}
            if r["downloads"] or r["error"] or not r.get("probe_ok"):
                ctx.fail("failing-input", f"cache directory configured by [{label}], tile {tile} present in the designated directory: "
                         f"get_tile {'downloaded ' + str(r['downloads']) if r['downloads'] else ''}"
                         f"{' raised ' + r['error'] if r['error'] else ''}{'' if r.get('probe_ok') or r['error'] else ' returned other data'} "
                         f"(it looked in {case['observed']['data_path']})", case=case, signature="cache-directory-precedence")
        ctx.cov.setdefault("input_distribution", {})
        return n
    finally:
        shutil.rmtree(base, ignore_errors=True)


def run(ctx):
    translate_table(ctx)
    ctx.prove("Props/C20.v", extra_targets=["Model/C20_float.v", "Model/C20_margin.v"])
    cases = gen_cases(ctx)
    nt = check_cases(ctx, cases)
    known_edge_rounding(ctx)
    cache_configurations(ctx)
    return finish(ctx, cases, nt)


def replay(ctx, rec):
    translate_table(ctx)
    ok, log, _ = core.coq_build(["Model/C20_float.v", "Model/C20_margin.v"])
    if not ok:
        print(log[-2000:])
    case = rec["case"]
    case.setdefault("warm", [])
    check_cases(ctx, [case])
    for f in ctx.failures:
        print("still fails:", f.what[:300])
    return 1 if ctx.failures else 0
