"""C20 child process: runs the real typhon.topography.SRTM30 on generated cases.

usage: c20_run.py CASES.json      (result list as JSON on stdout)

Nothing in the tree under test is edited.  From the outside this script
  * points the module global `_data_path` at a fresh temporary cache directory per case,
  * replaces SRTM30.download_tile by a recorder that creates NAME.DEM (a few bytes) in that directory,
  * replaces the name `np` *inside typhon.topography* by a proxy of numpy whose `fromfile` returns the
    synthetic content of the named tile file (no 57 MB files, no network) and records the read.
The real get_tile (cache lookup, download decision) and everything above it run unchanged.

Synthetic world raster: value(R, C) = 1 + (181 R + 7 C) mod 32003 for the global pixel in row R (from
90 N) and column C (from 180 W).  The FILE of a tile holds the 6000 x 4800 window its NAME stands for
(SRTM30 documentation: the name is the upper-left corner), independently of SRTM30._tiles.
"""
import json
import os
import random
import shutil
import sys
import tempfile
from collections import OrderedDict

import numpy

import typhon.topography as T
from typhon.topography import SRTM30

FILE_ROWS, FILE_COLS = 6000, 4800
MAX_FULL = 2600          # cells up to which the whole array is handed to Coq
LRU = 10
TOL_HC = 240.0 * 2.0 ** -40   # returned coordinates are cell centres to within the margin 2^-40 degree (in half cells)


def origin_of(name):
    """Global (row, column) of the upper-left pixel of the file `name`, from the file name alone."""
    lon = int(name[1:4]) * (-1 if name[0] == "w" else 1)
    lat = int(name[5:7]) * (-1 if name[4] == "s" else 1)
    return (90 - lat) * 120, (lon + 180) * 120


_tiles = OrderedDict()


def synth_tile(name):
    if name in _tiles:
        _tiles.move_to_end(name)
        return _tiles[name]
    r0, c0 = origin_of(name)
    # 1 + (181 R + 7 C) mod 32003, computed in 16 bits: (181 R mod m) + (7 C mod m) < 65536
    rows = ((numpy.arange(r0, r0 + FILE_ROWS, dtype=numpy.int64) * 181) % 32003).astype(numpy.uint16).reshape(-1, 1)
    cols = ((numpy.arange(c0, c0 + FILE_COLS, dtype=numpy.int64) * 7) % 32003).astype(numpy.uint16).reshape(1, -1)
    s = rows + cols
    numpy.subtract(s, numpy.uint16(32003), out=s, where=s >= 32003)
    s += numpy.uint16(1)
    a = s.view(numpy.int16).ravel()
    a.setflags(write=False)
    _tiles[name] = a
    while len(_tiles) > LRU:
        _tiles.popitem(last=False)
    return a


EVENTS = []


class NumpyProxy:
    """numpy, except that fromfile serves synthetic tile files."""

    def __getattr__(self, k):
        return getattr(numpy, k)

    @staticmethod
    def fromfile(path, *a, **k):
        path = os.fspath(path)
        if not os.path.exists(path):
            raise FileNotFoundError(path)
        base = os.path.basename(path)
        stem = base.split(".")[0]
        EVENTS.append(["read", stem.lower(), base])
        return synth_tile(stem.lower())


def download_stub(name):
    EVENTS.append(["download", name])
    # what unzipping the real archive leaves behind: NAME.DEM in upper case
    with open(os.path.join(T._get_data_path(), name.upper() + ".DEM"), "wb") as f:
        f.write(b"synthetic")


def install():
    T.np = NumpyProxy()
    SRTM30.download_tile = staticmethod(download_stub)


def to_hc(arr):
    """Grid values as integers in half cells (1/240 degree) when they are on the half-cell lattice."""
    out = []
    for x in numpy.asarray(arr, dtype=float).ravel().tolist():
        y = x * 240.0
        n = round(y)
        if not abs(y - n) <= TOL_HC:
            return None
        out.append(int(n))
    return out


def hexes(arr):
    """The exact binary64 values of an array (float.hex of every element)."""
    return [float(x).hex() for x in numpy.asarray(arr, dtype=numpy.float64).ravel().tolist()]


def grid_positions(n):
    """Positions at which tile grids are compared bit for bit with the binary64 model."""
    return sorted(set(range(min(n, 4))) | set(range(max(0, n - 4), n)) | set(range(0, n, 61)))


def pick(n, marks, rng, extra=12):
    """Indices to sample along an axis of length n: both ends, neighbourhoods of the marks, a few random ones."""
    s = set(range(min(n, 3))) | set(range(max(0, n - 3), n))
    for m in marks:
        s |= {k for k in range(m - 3, m + 3) if 0 <= k < n}
    s |= {rng.randrange(n) for _ in range(extra)}
    return sorted(s)


def run_elev(rect, seed):
    res = {}
    try:
        lats, lons, z = SRTM30.elevation(*rect)
    except Exception as e:  # noqa
        return {"error": f"{type(e).__name__}: {str(e)[:160]}"}
    z = numpy.asarray(z)
    la, lo = to_hc(lats), to_hc(lons)
    res["shape"] = list(z.shape)
    if la is None or lo is None:
        res["offgrid"] = [numpy.asarray(lats).ravel()[:5].tolist(), numpy.asarray(lons).ravel()[:5].tolist()]
        return res
    res["lats"], res["lons"] = la, lo
    res["lats_x"], res["lons_x"] = hexes(lats), hexes(lons)
    if z.shape != (len(la), len(lo)):
        return res
    if not numpy.all(z == numpy.round(z)):
        res["nonint"] = True
        return res
    zi = z.astype(numpy.int64)
    if zi.size <= MAX_FULL:
        res["rsel"], res["csel"] = list(range(len(la))), list(range(len(lo)))
        res["z"] = zi.tolist()
    else:
        rng = random.Random(seed)
        # tile borders are the multiples of 10 degrees = 2400 hc
        rm = [k for k in range(1, len(la)) if la[k - 1] // 2400 != la[k] // 2400]
        cm = [k for k in range(1, len(lo)) if lo[k - 1] // 2400 != lo[k] // 2400]
        rs, cs = pick(len(la), rm, rng), pick(len(lo), cm, rng)
        res["rsel"], res["csel"] = rs, cs
        res["z"] = zi[numpy.ix_(rs, cs)].tolist()
        # supplementary whole-array comparison with the world raster (harness oracle; the verdict
        # rests on the sampled cells evaluated in Coq)
        R = ((21599 - numpy.asarray(la, dtype=numpy.int64)) // 2).reshape(-1, 1)
        C = ((numpy.asarray(lo, dtype=numpy.int64) + 43200) // 2).reshape(1, -1)
        exp = 1 + (R * 181 + C * 7) % 32003
        bad = numpy.argwhere(exp != zi)
        res["whole_bad"] = int(len(bad))
        if len(bad):
            i, j = (int(v) for v in bad[0])
            res["whole_first"] = [i, j, int(zi[i, j]), int(exp[i, j])]
    return res


def run_case(case):
    tmp = tempfile.mkdtemp(prefix="verif_c20_")
    del EVENTS[:]
    out = {"id": case["id"], "ops": []}
    try:
        T._data_path = tmp
        # history: a caller asked for the grids of every tile before and overwrote the arrays it was handed (they are the
        # caller's own: sorting them, shifting longitudes to 0..360 in place is ordinary use) -- every later answer must
        # be computed from the tile table, not from an array somebody else holds
        for name_ in [t_[0] for t_ in SRTM30._tiles]:
            try:
                g_ = SRTM30.get_grids(name_)
                for a_ in g_:
                    a_ = numpy.asarray(a_)
                    if a_.flags.writeable:
                        a_[...] = a_[::-1].copy() % 360.0 + 0.25
            except Exception:  # noqa
                pass
        for n in case.get("warm", []):
            with open(os.path.join(tmp, n.upper() + ".DEM"), "wb") as f:
                f.write(b"synthetic")
        for k, op in enumerate(case["ops"]):
            mark = len(EVENTS)
            kind = op[0]
            if kind == "elev":
                r = run_elev(op[1], case["id"] * 1000 + k)
            elif kind == "tiles":
                try:
                    r = {"tiles": [str(x) for x in SRTM30.get_tiles(*op[1])]}
                except Exception as e:  # noqa
                    r = {"error": f"{type(e).__name__}: {str(e)[:160]}"}
            elif kind == "get_tile":
                try:
                    a = SRTM30.get_tile(op[1])
                    r0, c0 = origin_of(op[1])
                    r = {"shape": list(a.shape),
                         "probe": [int(a[0, 0]), int(a[-1, -1]), int(a[17, 4242])],
                         "expect": [1 + (r0 * 181 + c0 * 7) % 32003,
                                    1 + ((r0 + 5999) * 181 + (c0 + 4799) * 7) % 32003,
                                    1 + ((r0 + 17) * 181 + (c0 + 4242) * 7) % 32003]}
                except Exception as e:  # noqa
                    r = {"error": f"{type(e).__name__}: {str(e)[:160]}"}
            elif kind == "grids":
                try:
                    name = op[1]
                    b = SRTM30.get_bounds(name)
                    g = SRTM30.get_grids(name)
                    n = SRTM30.get_native_grids(*b)
                    r = {"bounds": [int(x) for x in b]}
                    for key, arr in (("glat", g[0]), ("glon", g[1]), ("nlat", n[0]), ("nlon", n[1])):
                        h = to_hc(arr)
                        step = -2 if key.endswith("lat") else 2
                        r[key] = None if h is None else [h[0], h[-1], len(h),
                                                         all(y - x == step for x, y in zip(h, h[1:]))]
                    r["pos"] = [grid_positions(SRTM30._tile_height), grid_positions(SRTM30._tile_width)]
                    r["bits"] = []
                    for arr, pos in ((g[0], r["pos"][0]), (g[1], r["pos"][1]), (n[0], r["pos"][0]), (n[1], r["pos"][1])):
                        a = numpy.asarray(arr, dtype=numpy.float64).ravel()
                        r["bits"].append([float(a[k]).hex() if k < len(a) else None for k in pos])
                    r["allclose"] = bool(len(g[0]) == len(n[0]) and len(g[1]) == len(n[1]) and
                                         numpy.allclose(g[0], n[0], rtol=0, atol=1e-9) and
                                         numpy.allclose(g[1], n[1], rtol=0, atol=1e-9))
                except Exception as e:  # noqa
                    r = {"error": f"{type(e).__name__}: {str(e)[:160]}"}
            else:
                r = {"error": "unknown op"}
            r["events"] = [list(e) for e in EVENTS[mark:]]
            out["ops"].append(r)
        out["cache_after"] = sorted(os.listdir(tmp))
    finally:
        T._data_path = None
        shutil.rmtree(tmp, ignore_errors=True)
    return out


def main():
    cases = json.load(open(sys.argv[1]))
    install()
    meta = {"dlat": SRTM30._dlat, "dlon": SRTM30._dlon, "H": SRTM30._tile_height, "W": SRTM30._tile_width,
            "dlat_x": float(SRTM30._dlat).hex(), "dlon_x": float(SRTM30._dlon).hex()}
    json.dump({"meta": meta, "results": [run_case(c) for c in cases]}, sys.stdout)


if __name__ == "__main__":
    main()
