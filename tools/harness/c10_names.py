"""C10: `files=` given as plain file names ("the list can contain filenames or lists (bundles) of filenames").  One child per
run, under a time and memory limit set by the caller: on a tree where a string is taken for a bundle of its characters the
call recurses into ever new worker pools instead of returning.  Prints one JSON line."""
import json
import os
import sys
import tempfile

from typhon.files import FileSet, FileHandler

root = tempfile.mkdtemp(prefix="verif_c10n_")
names = []
for h in (0, 6, 12, 18):
    p = os.path.join(root, f"20180101_{h:02d}0000.txt")
    with open(p, "w") as f:
        f.write(str(100 + h))
    names.append(p)


def reader(fi, **kw):
    with open(fi.path) as f:
        return int(f.read())


def label(fi):
    return os.path.basename(fi.path)


fs = FileSet(os.path.join(root, "{year}{month}{day}_{hour}{minute}{second}.txt"), handler=FileHandler(reader=reader), max_threads=2)
out = {}
for key, call in (("collect", lambda: fs.collect(files=list(names))),
                  ("collect-info", lambda: [[os.path.basename(i.path), c] for i, c in zip(*fs.collect(files=list(names), return_info=True))]),
                  ("icollect", lambda: list(fs.icollect(files=list(names)))),
                  ("map", lambda: fs.map(label, files=list(names), worker_type="thread")),
                  ("imap-content", lambda: list(fs.imap(lambda c: c + 1, files=list(names)[::-1], on_content=True, worker_type="thread")))):
    try:
        out[key] = call()
    except BaseException as e:  # noqa
        out[key] = f"ERR {type(e).__name__}: {str(e)[:120]}"
print(json.dumps(out))
