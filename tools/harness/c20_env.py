"""C20: the cache directory as the user configures it.  Run in a FRESH interpreter per configuration (the module resolves
its cache directory once): argv[1] = JSON {"warm_dirs": [...], "tile": name}; the environment (TYPHON_DATA_PATH,
XDG_CACHE_HOME, HOME) is set by the caller.  Puts the synthetic tile file into every directory of warm_dirs (the places the
DOCUMENTED precedence designates -- with and without the sub directories the code appends), replaces download_tile by a
recorder and asks for the tile through the real get_tile.  Prints one JSON line."""
import json
import os
import sys

sys.path.insert(0, os.path.dirname(os.path.abspath(__file__)))
import c20_run as R     # noqa: E402  (installs nothing by itself)

spec = json.loads(sys.argv[1])
for d in spec["warm_dirs"]:
    os.makedirs(d, exist_ok=True)
    with open(os.path.join(d, spec["tile"].upper() + ".DEM"), "wb") as f:
        f.write(b"synthetic")
R.install()
out = {"downloads": [], "error": None, "data_path": None}
try:
    a = R.SRTM30.get_tile(spec["tile"])
    r0, c0 = R.origin_of(spec["tile"])
    out["probe_ok"] = int(a[17, 4242]) == 1 + ((r0 + 17) * 181 + (c0 + 4242) * 7) % 32003
except Exception as e:  # noqa
    out["error"] = f"{type(e).__name__}: {str(e)[:200]}"
out["downloads"] = [ev[1] for ev in R.EVENTS if ev[0] == "download"]
try:
    out["data_path"] = R.T._get_data_path()
except Exception as e:  # noqa
    out["data_path"] = f"ERR {e}"
print(json.dumps(out))
