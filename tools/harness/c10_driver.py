"""C10 harness: runs FileSet.map / imap / collect / icollect / align of the tree under test with a
*forced* completion order of the per-file tasks and records what happened.

A case (a JSON-serialisable dict) fixes: the api, the files (labels in time order), how they are
selected (all / period / files= / permuted files= / bundles), the worker type and count, the wrapper
flags (on_content, pass_info, return_info, error_to_warning), which files cannot be read, for which
tasks the function returns None or raises, and `order`: the completion order to force.

Forcing: every task blocks at its start until its predecessor in `order` is *done* (the done-callback
of the predecessor's future releases it), so the completion order is exactly `order` -- no sleeps, no
timing.  Only orders that the transition system of the model can produce are requested (see
feasible_orders); an implementation that cannot follow such an order runs into the watchdog and is
reported as stuck.  The executor classes in the namespace of typhon.files.fileset are replaced by
logging subclasses from outside (no source change).

The module is used in-process for thread pools (run_case) and as a child script for process pools
(`python c10_driver.py` reads cases from stdin, writes observations to stdout), where the events and
the gates live in a multiprocessing.Manager.

Bundles: a task whose file is a list of files is read through the nested collect() of the wrapper.  The
function handed to map()/imap() reports the list of contents it was called with (`args` of the
observation); `rnone` lists files for which the reader returns None (collect drops such contents);
`inner_order` (task -> order of member indices) forces the completion order of the member reads of a
bundle inside the nested collect (process-local events: all members of a bundle are read in one process).

Type of the content: every recorded argument carries its KIND -- "bare" (one file's content, a dict) or "list" (a
list of contents): a bundle task must receive a list with one entry per member, also when the bundle holds exactly
ONE file; a task on a single file must receive the bare content.  `own` pairs (FileInfo handed over / returned
together with a content -> the files that content came from) are recorded for the law "every task gets the content
of its own file".

Layout "gz" (case["layout"]): the files are <root>/<yyyy>/<mm>/<dd>/data.txt.gz -- the SAME base name in every
directory, gzip-compressed, the content names its own file ("p:<pos>").  FileSet.read() decompresses every file
into a temporary copy before it calls the reader; the reader identifies its task from that copy, waits at its
gate (so the forced completion orders make a later task decompress, read and finish while an earlier one is still
inside its reader) and only THEN reads the copy for good: a decompression target shared between tasks shows up as
a foreign content or a vanished file.

Extra arguments (case["argform"]): the call gets `args` in one of the forms the API accepts (a tuple, a LIST, None) and
`kwargs` (a dict or None); the mapped function `func_record` writes down exactly what it was called with -- every
positional argument as a pair (0, tag) one of the caller's own arguments / (1, k) the content of task k in the right
container / (2, k) the FileInfo (or bundle) of task k / (4, k), (5, k) a wrong composition / (9, 0) anything else --
and its keyword arguments; after the call the harness describes what the caller's `args` object and `kwargs` dict
hold now.  The task a call belongs to is known from OUTSIDE the arguments (the logging executor tags the wrapper call
with the task it submitted it for), so a function that is handed the file arguments of other tasks is still attributed
to its own task.
"""
import datetime as dt
import functools
import gzip
import json
import os
import shutil
import sys
import tempfile
import threading
import time
import warnings
from collections import Counter
from pathlib import Path

STUCK_AFTER = 10.0    # seconds without the predecessor finishing: the schedule cannot be followed
STUCK_SEEN = 0        # once two cases got stuck the implementation is known to deviate: wait only briefly


def stuck_limit():
    return STUCK_AFTER if STUCK_SEEN < 2 else 0.5

T0 = dt.datetime(2018, 1, 1)
TEMPLATE = "{year}{month}{day}-f{id}.dat"
TEMPLATE_GZ = "{year}/{month}/{day}/data.txt.gz"


class ReadErr(IOError):
    def __init__(self, code):
        super().__init__(code)
        self.code = code


class ContentErr(RuntimeError):
    """The (decompressed) file handed to the reader does not hold the text the harness wrote."""


class SkipCase(Exception):
    """The case relies on find()/match() delivering a planned selection and they did not (C01/C03)."""


class FuncErr(RuntimeError):
    def __init__(self, code):
        super().__init__(code)
        self.code = code


# ----------------------------------------------------------------------------- schedules

def available(mode, n, w, done):
    """Tasks that are submitted (imap) / started (map) and unfinished once the main thread is blocked."""
    if mode == "imap":
        L = 0
        while L < n and L in done:
            L += 1
        lim = min(n, w + L)
    else:                      # Executor.map on a pool of w workers: FIFO start as workers get free
        lim = min(n, w + len(done))
    return [k for k in range(lim) if k not in done]


def feasible_orders(mode, n, w):
    res = []

    def rec(done, acc):
        if len(acc) == n:
            res.append(list(acc))
            return
        for k in available(mode, n, w, done):
            done.add(k)
            acc.append(k)
            rec(done, acc)
            acc.pop()
            done.discard(k)
    rec(set(), [])
    return res


def random_order(rng, mode, n, w, style=None):
    style = style or rng.choice(["uniform", "uniform", "latest", "earliest-last"])
    done, acc = set(), []
    while len(acc) < n:
        av = available(mode, n, w, done)
        if style == "latest":
            k = av[-1]
        elif style == "earliest-last":
            k = rng.choice(av[1:]) if len(av) > 1 else av[0]
        else:
            k = rng.choice(av)
        done.add(k)
        acc.append(k)
    return acc


# ----------------------------------------------------------------------------- recorder

class Recorder:
    """Event log, call counters and the gates of one run (thread version)."""

    def __init__(self):
        self.lock = threading.Lock()
        self.events = []
        self.func_calls = Counter()
        self.read_calls = Counter()
        self.task_reads = Counter()
        self.finished = set()
        self.done_evt = {}
        self.pred = {}
        self.abort = threading.Event()
        self.stuck = []
        self.consumer = threading.get_ident()
        self.pid = os.getpid()      # the consumer lives in this process (pool workers are forked copies)
        self.key_of_path = {}       # (fileset name, path) -> task key (name, k)
        self.bundle_size = {}
        self.args = {}              # task key -> list of positions the function was called with
        self.kinds = {}             # task key -> "bare" (one content) / "list" (list of contents)
        self.pools = []             # executor classes instantiated by the consumer thread (the top-level pools)
        self.member_evt = {}        # (name, pos) -> threading.Event: the read of this member has ended
        self.member_lock = threading.Lock()
        self.callrecs = {}          # task key -> [[positional description, keyword description], ...] (func_record)

    def new_event(self):
        return threading.Event()

    def set_order(self, name, order):
        prev = None
        for k in order:
            self.pred[(name, k)] = prev
            self.done_evt[(name, k)] = self.new_event()
            prev = (name, k)

    def log(self, kind, key):
        with self.lock:
            self.events.append((kind, key[0], key[1]))

    def count(self, which, key):
        with self.lock:
            getattr(self, which)[key] += 1
            return getattr(self, which)[key]

    def finish(self, key):
        with self.lock:
            if key in self.finished:
                return
            self.finished.add(key)
            self.events.append(("finish", key[0], key[1]))

    def note_args(self, key, got, kind="list"):
        with self.lock:
            self.args[key] = list(got)
            self.kinds[key] = kind

    def note_call(self, key, desc, kdesc):
        with self.lock:
            self.callrecs.setdefault(tuple(key), []).append([desc, kdesc])

    # member reads of one bundle (always inside one process: plain threading events, created on demand)
    def _mevt(self, mkey):
        with self.member_lock:
            ev = self.member_evt.get(mkey)
            if ev is None:
                ev = self.member_evt[mkey] = threading.Event()
            return ev

    def member_wait(self, mkey, pred):
        ev = self._mevt(pred)
        t_end = time.time() + stuck_limit()
        while not ev.wait(0.02):
            if self.abort.is_set():
                return
            if time.time() > t_end:
                self.note_stuck([["member", mkey[0], mkey[1]], ["member", pred[0], pred[1]]])
                self.abort.set()
                return

    def member_done(self, mkey):
        self.log("mread", mkey)
        self._mevt(mkey).set()

    def note_stuck(self, item):
        with self.lock:
            self.stuck.append(item)

    def release(self, key):
        ev = self.done_evt.get(key)
        if ev is not None:
            ev.set()

    def gate(self, key):
        p = self.pred.get(key)
        if p is None:
            return
        ev = self.done_evt[p]
        t_end = time.time() + stuck_limit()
        while not ev.wait(0.02):
            if self.abort.is_set():
                return
            if time.time() > t_end:
                with self.lock:
                    self.stuck.append([list(key), list(p)])
                self.abort.set()
                return


CUR = None      # the recorder of the running case (module global: reachable from forked children too)
CASE = None


def _key_of_info(name, info):
    first = info if hasattr(info, "path") else info[0]
    return CUR.key_of_path.get((name, first.path))


# the reader and the functions handed to typhon (module level: picklable for process pools)

def reader(file_info, **kwargs):
    name = CASE["_name_of_dir"][str(Path(file_info.path).parent)]
    return _read_body(name, CASE["_pos_of_path"][file_info.path], None)


def _read_named(path):
    """The text of a file of the gz layout: "<fileset name>:<position>"."""
    with open(path) as fh:
        txt = fh.read()
    try:
        name, pos = txt.split(":")
        return name, int(pos)
    except Exception:   # noqa
        raise ContentErr(f"the file handed to the reader holds {txt[:40]!r}")


def reader_gz(file_info, **kwargs):
    """Reader of the gz layout: `file_info.path` is the temporarily decompressed copy made by FileSet.read().  Its
    content tells which file (and so which task) this is; the content that is RETURNED is read after the gate."""
    name, pos = _read_named(file_info.path)
    if name not in CASE["_path_of_pos"] or not 0 <= pos < len(CASE["_path_of_pos"][name]):
        raise ContentErr(f"the file handed to the reader names the unknown file {name}:{pos}")
    return _read_body(name, pos, file_info.path)


def _read_body(name, pos, reread):
    key = CUR.key_of_path[(name, CASE["_path_of_pos"][name][pos])]
    CUR.gate(key)
    mpred = CASE["_member_pred"].get((name, pos), False)
    if mpred is not False:
        # a member of a bundle with a forced inner order: wait for the member that has to end before
        if mpred is not None:
            CUR.member_wait((name, pos), (name, mpred))
    try:
        nread = CUR.count("read_calls", (name, pos))
        if pos in CASE["_rfail"][name]:
            CUR.finish(key)
            raise ReadErr(2000 + pos)
        cname, cpos = (name, pos) if reread is None else _read_named(reread)
        if CASE["_finish_in_reader"] and CUR.count("task_reads", key) >= CUR.bundle_size[key]:
            # pass-through function (collect / icollect / align): the task ends with its last read
            CUR.finish(key)
        if pos in CASE["_rnone"][name]:
            return None
        return {"pos": cpos, "name": cname, "nread": nread}
    finally:
        if mpred is not False:
            CUR.member_done((name, pos))


def _content_kind(content):
    return "bare" if isinstance(content, dict) else ("list" if isinstance(content, (list, tuple)) else type(content).__name__)


def _positions(content):
    return [content["pos"]] if isinstance(content, dict) else [c["pos"] for c in content]


def _task_of_content(content):
    first = content if isinstance(content, dict) else content[0]
    name = first["name"]
    key = CUR.key_of_path[(name, CASE["_path_of_pos"][name][first["pos"]])]
    want = [p for p in CASE["_stream"][name][key[1]] if p not in CASE["_rnone"][name]]
    got = _positions(content)
    CUR.note_args(key, got, _content_kind(content))
    return key, got == list(want)


def _strip_extra(args):
    if CASE.get("extra_args"):
        return args[1:], (len(args) > 1 and args[0] == 17)
    return args, True


def func_on_info(*args):
    """map(func) without on_content: called with the FileInfo (or the bundle)."""
    args, ok0 = _strip_extra(args)
    info = args[-1]
    name = CASE["_name_of_dir"][str(Path((info if hasattr(info, "path") else info[0]).path).parent)]
    key = _key_of_info(name, info)
    CUR.gate(key)
    return _func_body(key, ok0 and len(args) == 1)


def func_on_content(*args):
    """map(func, on_content=True[, pass_info=True]): called with the content (and the FileInfo)."""
    args, ok0 = _strip_extra(args)
    content = args[0]
    key, ok = _task_of_content(content)
    bundled = CASE["sets"][key[0]].get("select") in ("bundles", "bundle_n")
    # a bundle hands the function the LIST of its members' contents (also a bundle of one file), a file its content
    ok = ok and ok0 and _content_kind(content) == ("list" if bundled else "bare")
    if CASE["pass_info"]:
        ok = ok and len(args) == 2 and _key_of_info(key[0], args[1]) == key
        try:
            # the FileInfo (or bundle) handed over together with the content -> the files the content came from
            ikey = _key_of_info(key[0], args[1])
            if ikey is not None:
                CUR.note_args(("own:" + ikey[0], ikey[1]), _positions(content), _content_kind(content))
        except Exception:   # noqa
            pass
    else:
        ok = ok and len(args) == 1
    return _func_body(key, ok)


def _func_body(key, ok):
    CUR.count("func_calls", key)
    k = key[1]
    CUR.finish(key)
    if k in CASE["fraise"]:
        raise FuncErr(3000 + k)
    if k in CASE["fnone"]:
        return None
    return 1000 + k if ok else -7



# ----------------------------------------------------------------------------- extra arguments (args= / kwargs=)

TLS = threading.local()     # .key: the task the running wrapper call was submitted for (set by _tagged)


class Extra:
    """One of the caller's own positional / keyword arguments (picklable; told apart by its tag)."""

    def __init__(self, tag):
        self.tag = tag


def _tagged(key, fn, *a, **k):
    TLS.key = key
    try:
        return fn(*a, **k)
    finally:
        TLS.key = None


def _is_content(x):
    one = lambda c: isinstance(c, dict) and "pos" in c and "name" in c      # noqa: E731
    return one(x) or (isinstance(x, (list, tuple)) and len(x) > 0 and all(one(c) for c in x))


def _describe_arg(a):
    """One positional argument (or one entry of the caller's args object) as a pair of integers, see the module text."""
    try:
        if isinstance(a, Extra):
            return [0, int(a.tag)]
        name = None
        if hasattr(a, "path"):
            name = CASE["_name_of_dir"].get(str(Path(a.path).parent), "p")
            key = CUR.key_of_path.get((name, a.path))
            if key is None:
                return [9, 0]
            bundled = CASE["sets"][name].get("select") in ("bundles", "bundle_n")
            return [5 if bundled else 2, key[1]]
        if isinstance(a, (list, tuple)) and len(a) > 0 and all(hasattr(x, "path") for x in a):
            name = CASE["_name_of_dir"].get(str(Path(a[0].path).parent), "p")
            key = CUR.key_of_path.get((name, a[0].path))
            if key is None:
                return [9, 0]
            bundled = CASE["sets"][name].get("select") in ("bundles", "bundle_n")
            want = [CASE["_path_of_pos"][name][p] for p in CASE["_stream"][name][key[1]]]
            return [2 if bundled and [x.path for x in a] == want else 5, key[1]]
        if _is_content(a):
            first = a if isinstance(a, dict) else a[0]
            name = first["name"]
            key = CUR.key_of_path[(name, CASE["_path_of_pos"][name][first["pos"]])]
            want = [p for p in CASE["_stream"][name][key[1]] if p not in CASE["_rnone"][name]]
            bundled = CASE["sets"][name].get("select") in ("bundles", "bundle_n")
            ok = _positions(a) == list(want) and _content_kind(a) == ("list" if bundled else "bare")
            return [1 if ok else 4, key[1]]
    except Exception:   # noqa
        pass
    return [9, 0]


def _describe_kw(kwargs):
    out = []
    for k, v in kwargs.items():
        ki = int(k[1:]) if isinstance(k, str) and k[:1] == "k" and k[1:].isdigit() else 99
        out.append([ki, int(v.tag) if isinstance(v, Extra) else -1])
    return sorted(out)


def expected_call(case, k):
    """What the function of task k must be called with (the same rule as task_arguments of Model/C10_args.v; the
    verdict comes from Coq, this is the function's own yes / no that decides between 1000 + k and -7)."""
    af = case["argform"]
    pos = [[0, v] for v in af["vals"]] if af["args"] != "none" else []
    if case["on_content"]:
        pos.append([1, k])
    if not case["on_content"] or case["pass_info"]:
        pos.append([2, k])
    return pos, sorted([list(x) for x in (af.get("kw") or [])])


def func_record(*args, **kwargs):
    """The mapped function of the cases with extra arguments: records exactly what it received."""
    desc = [_describe_arg(a) for a in args]
    kdesc = _describe_kw(kwargs)
    key = getattr(TLS, "key", None)
    if key is None:
        # not tagged (should not happen): the task of the last file argument
        for d in reversed(desc):
            if d[0] in (1, 2):
                key = ("p", d[1])
                break
    if key is None:
        CUR.note_call(("p", -1), desc, kdesc)
        raise FuncErr(-3)
    CUR.note_call(key, desc, kdesc)
    if not CASE["on_content"]:
        CUR.gate(key)
    else:
        # what the existing laws on contents look at: the content argument where it has to be
        af = CASE["argform"]
        at = len(af["vals"]) if af["args"] != "none" else 0
        cand = [a for a in args[at:at + 1] if _is_content(a)] or [a for a in args if _is_content(a)]
        if cand:
            try:
                CUR.note_args(key, _positions(cand[0]), _content_kind(cand[0]))
            except Exception:   # noqa
                pass
    pos, kw = expected_call(CASE, key[1])
    return _func_body(key, desc == pos and kdesc == kw)


# ----------------------------------------------------------------------------- executors

def _in_consumer():
    """True in the thread that calls map()/imap() -- not in a pool worker (thread or forked process): the nested
    collect() of a bundle creates its own pool there, whose submits are not events of the model."""
    return os.getpid() == CUR.pid and threading.get_ident() == CUR.consumer


def make_pool_class(base):
    class CtlPool(base):
        def __init__(self, *a, **k):
            try:
                if _in_consumer():
                    CUR.pools.append(base.__name__)
            except Exception:   # noqa
                pass
            super().__init__(*a, **k)

        def submit(self, fn, *args, **kwargs):
            key = None
            try:
                if _in_consumer():
                    if getattr(fn, "__name__", "") == "_call_map_function":
                        a = args[0]
                        key = _key_of_info(a[0].name, a[1])
                    elif getattr(getattr(fn, "func", None), "__name__", "") == "_process_chunk" \
                            and getattr(fn.args[0], "__name__", "") == "_call_map_function" and len(args[0]) == 1:
                        # ProcessPoolExecutor.map wraps the call into chunks (chunksize 1)
                        a = args[0][0][0]
                        key = _key_of_info(a[0].name, a[1])
            except Exception:   # noqa
                key = None
            if key is not None:
                CUR.log("submit", key)
                if CASE.get("argform"):
                    # tell the wrapper call which task it was submitted for (see func_record)
                    fn = functools.partial(_tagged, key, fn)
            fut = super().submit(fn, *args, **kwargs)
            if key is not None:
                fut.add_done_callback(lambda f, key=key: CUR.release(key))
            return fut
    CtlPool.__name__ = "Ctl" + base.__name__
    return CtlPool


# ----------------------------------------------------------------------------- building the filesets

def build_dir(root, name, labels):
    d = Path(root) / name
    d.mkdir(parents=True, exist_ok=True)
    paths = []
    for pos, lab in enumerate(labels):
        day = T0 + dt.timedelta(days=pos)
        p = d / f"{day:%Y%m%d}-f{lab}.dat"
        p.write_text(str(pos))
        paths.append(str(p))
    return str(d), paths


def build_dir_gz(root, dirname, name, labels):
    """<root>/<name>/<yyyy>/<mm>/<dd>/data.txt.gz: the same base name in every directory; the content names the file."""
    d = Path(root) / dirname
    paths = []
    for pos, _ in enumerate(labels):
        day = T0 + dt.timedelta(days=pos)
        sub = d / f"{day:%Y}" / f"{day:%m}" / f"{day:%d}"
        sub.mkdir(parents=True, exist_ok=True)
        p = sub / "data.txt.gz"
        with gzip.open(p, "wt") as fh:
            fh.write(f"{name}:{pos}")
        paths.append(str(p))
    return str(d), paths


def prepare(case, root):
    """Create the files and the lookup tables (stored under '_...' keys of the case)."""
    case["_name_of_dir"], case["_pos_of_path"], case["_path_of_pos"] = {}, {}, {}
    case["_stream"], case["_rfail"], case["_dirs"] = {}, {}, {}
    gz = case.get("layout") == "gz"
    for name, spec in case["sets"].items():
        if gz:
            d, paths = build_dir_gz(root, f"{case['id']}_{name}", name, spec["labels"])
            tmp = Path(root) / f"{case['id']}_{name}_tmp"      # where FileSet.read() puts the decompressed copies
            tmp.mkdir(parents=True, exist_ok=True)
            case["_dirs"]["tmp:" + name] = str(tmp)
            for p in paths:
                case["_name_of_dir"][str(Path(p).parent)] = name
        else:
            d, paths = build_dir(root, f"{case['id']}_{name}", spec["labels"])
        case["_dirs"][name] = d
        case["_name_of_dir"][d] = name
        case["_path_of_pos"][name] = paths
        for pos, p in enumerate(paths):
            case["_pos_of_path"][p] = pos
        case["_stream"][name] = [list(b) for b in spec["stream"]]
        case["_rfail"][name] = set(spec.get("rfail", []))
    case["_rnone"] = {name: set(spec.get("rnone", [])) for name, spec in case["sets"].items()}
    # forced completion order of the member reads inside a bundle: member -> the member that must end before it
    case["_member_pred"] = {}
    for k, order in (case.get("inner_order") or {}).items():
        bundle = case["_stream"]["p"][int(k)]
        prev = None
        for mi in order:
            case["_member_pred"][("p", bundle[mi])] = prev
            prev = bundle[mi]
    case["_finish_in_reader"] = (case["api"] in ("icollect", "collect", "align") or bool(case.get("passthrough"))) \
        and not case.get("argform")
    case["fraise"] = set(case.get("fraise", []))
    case["fnone"] = set(case.get("fnone", []))


def make_fileset(case, name, FileSet, FileHandler):
    spec = case["sets"][name]
    if case.get("layout") == "gz":
        return FileSet(str(Path(case["_dirs"][name]) / TEMPLATE_GZ), handler=FileHandler(reader=reader_gz), name=name,
                       max_threads=spec["w"], max_processes=spec["w"], worker_type=case.get("pool", "thread"),
                       temp_dir=case["_dirs"]["tmp:" + name])
    return FileSet(str(Path(case["_dirs"][name]) / TEMPLATE), handler=FileHandler(reader=reader), name=name,
                   max_threads=spec["w"], max_processes=spec["w"], worker_type=case.get("pool", "thread"))


def stream_infos(case, name, fs):
    """The FileInfo objects of the stream, found independently of the call under test; also fills the
    path -> task tables.  Returns (files argument or None, find kwargs)."""
    spec = case["sets"][name]
    found = list(fs.find())                       # time order (C01's business)
    by_pos = {case["_pos_of_path"][f.path]: f for f in found}
    stream = case["_stream"][name]
    for k, bundle in enumerate(stream):
        key = (name, k)
        CUR.bundle_size[key] = len(bundle)
        for pos in bundle:
            CUR.key_of_path[(name, case["_path_of_pos"][name][pos])] = key
    sel = spec.get("select", "all")
    if sel == "all":
        return None, {}, by_pos
    if sel == "period":
        a, b = spec["period"]
        kw = {"start": T0 + dt.timedelta(days=a), "end": T0 + dt.timedelta(days=b)}
        got = [[case["_pos_of_path"][f.path]] for f in fs.find(**kw)]
        if got != stream:
            raise SkipCase(f"find({a},{b}) gave {got}, planned {stream}")
        return None, kw, by_pos
    if sel == "bundle_n":
        # the bundles are made by find(bundle=n) inside the call under test
        kw = {"bundle": spec["bundle"]}
        got = [[case["_pos_of_path"][f.path] for f in b] for b in fs.find(**kw)]
        if got != stream:
            raise SkipCase(f"find(bundle={spec['bundle']}) gave {got}, planned {stream}")
        return None, kw, by_pos
    files = []
    for bundle in stream:
        if sel == "bundles":
            files.append([by_pos[p] for p in bundle])
        else:
            files.append(by_pos[bundle[0]])
    if spec.get("as_generator"):
        files = (f for f in files)
    return files, {}, by_pos


def canon(case, name, v):
    """A value handed to the caller -> canonical value: 1000 + task index when it is the content of exactly the
    files of that task, in the container the task calls for (a bundle: the LIST of the members' contents, also for a
    bundle of one file; a single file: the bare content); -6 = right files in the wrong container; -9 = anything else."""
    if v is None:
        return None
    if isinstance(v, (dict, list, tuple)):
        try:
            key, ok = _task_of_content(v)
        except Exception:   # noqa
            return -9
        if not (ok and key[0] == name):
            return -9
        bundled = case["sets"][name].get("select") in ("bundles", "bundle_n")
        if _content_kind(v) != ("list" if bundled else "bare"):
            return -6
        return 1000 + key[1]
    if isinstance(v, bool):
        return -8
    if isinstance(v, int):
        return v
    return -9


def err_code(e):
    """the exception that reached the caller: the harness's own exceptions carry an integer code (the exception OBJECT the task
    raised must arrive, not one rebuilt from its message)"""
    if isinstance(e, (ReadErr, FuncErr)):
        if isinstance(e.code, int) and not isinstance(e.code, bool):
            return int(e.code)
        return f"{type(e).__name__} rebuilt: code {str(e.code)[:100]!r} instead of the integer the task raised it with"
    return f"{type(e).__name__}: {str(e)[:120]}"


# ----------------------------------------------------------------------------- running a case

def run_case(case, root, new_recorder=Recorder):
    """Run one case against the code under test. Returns the observation dict."""
    global CUR, CASE
    import typhon.files.fileset as fsmod
    from typhon.files import FileSet, FileHandler
    CUR, CASE = new_recorder(), case
    prepare(case, root)
    saved = (fsmod.ThreadPoolExecutor, fsmod.ProcessPoolExecutor)
    from concurrent.futures import ThreadPoolExecutor, ProcessPoolExecutor
    fsmod.ThreadPoolExecutor = make_pool_class(ThreadPoolExecutor)
    fsmod.ProcessPoolExecutor = make_pool_class(ProcessPoolExecutor)
    obs = {"out": [], "err": None, "yield_info_ok": True, "own": []}
    try:
        with warnings.catch_warnings(record=True) as wlist:
            warnings.simplefilter("always")
            try:
                if case["api"] == "align":
                    _run_align(case, obs, FileSet, FileHandler)
                else:
                    _run_map_like(case, obs, FileSet, FileHandler)
            except SkipCase as e:
                obs["skipped"] = str(e)
            obs["warnings"] = sum(1 for x in wlist if issubclass(x.category, RuntimeWarning)
                                  and "Could not read" in str(x.message))
    finally:
        CUR.abort.set()
        fsmod.ThreadPoolExecutor, fsmod.ProcessPoolExecutor = saved
        for d in case["_dirs"].values():
            shutil.rmtree(d, ignore_errors=True)
    obs["events"] = [list(e) for e in CUR.events]
    obs["stuck"] = list(CUR.stuck)
    if obs["stuck"]:
        global STUCK_SEEN
        STUCK_SEEN += 1
    obs["func_calls"] = {f"{k[0]}:{k[1]}": v for k, v in dict(CUR.func_calls).items()}
    obs["read_calls"] = {f"{k[0]}:{k[1]}": v for k, v in dict(CUR.read_calls).items()}
    obs["args"] = {f"{k[0]}:{k[1]}": v for k, v in dict(CUR.args).items() if not k[0].startswith("own:")}
    obs["kinds"] = {f"{k[0]}:{k[1]}": v for k, v in dict(CUR.kinds).items() if not k[0].startswith("own:")}
    obs["own"] += [[k[1], v] for k, v in sorted(dict(CUR.args).items()) if k[0].startswith("own:")]
    obs["pools"] = list(CUR.pools)
    obs["calls"] = {f"{k[0]}:{k[1]}": v for k, v in dict(CUR.callrecs).items()}
    for k in [k for k in case if k.startswith("_")]:
        del case[k]
    case["fraise"], case["fnone"] = sorted(case["fraise"]), sorted(case["fnone"])
    return obs


def _run_map_like(case, obs, FileSet, FileHandler):
    name = "p"
    fs = make_fileset(case, name, FileSet, FileHandler)
    files, find_kw, by_pos = stream_infos(case, name, fs)
    CUR.set_order(name, case["order"])
    api = case["api"]
    kw = dict(find_kw)
    if files is not None:
        kw["files"] = files
    kw["max_workers"] = case["sets"][name]["w"] if case.get("pass_max_workers", True) else None
    if api in ("map", "imap"):
        kw.update(worker_type=case.get("pool", "thread"), on_content=case["on_content"],
                  return_info=case["return_info"], error_to_warning=case["e2w"])
        if case.get("passthrough"):
            # what icollect()/collect() do, on the worker type of the case: the pass-through function on the content
            kw.update(func=FileSet._pseudo_passer, pass_info=False)
        elif case["on_content"]:
            kw.update(func=func_on_content, pass_info=case["pass_info"])
        else:
            kw.update(func=func_on_info)
        if case.get("extra_args"):
            kw.update(args=(17,), kwargs={})
    else:
        kw.update(error_to_warning=case["e2w"], return_info=case["return_info"])
    af = case.get("argform")
    given = kwd = None
    if af:
        # extra arguments in the form the case asks for; collect() / icollect() take func=, args=, kwargs= as well
        extra = [Extra(v) for v in af["vals"]]
        given = None if af["args"] == "none" else (tuple(extra) if af["args"] == "tuple" else list(extra))
        kwd = None if af.get("kw") is None else {f"k{i}": Extra(v) for i, v in af["kw"]}
        kw.update(func=func_record, args=given, kwargs=kwd)
        if case["on_content"]:
            kw.update(pass_info=case["pass_info"])

    def note(item, info_expected):
        """log the yield of one item and append its canonical value"""
        if info_expected:
            try:
                info, v = item
                key = _key_of_info(name, info)
                k = key[1] if key else None
            except Exception:   # noqa
                k, v = None, item
                obs["yield_info_ok"] = False
            cv = canon(case, name, v)
            if k is not None and isinstance(v, (dict, list, tuple)):
                try:
                    obs["own"].append([k, _positions(v)])
                except Exception:   # noqa
                    pass
            if k is None or (cv is not None and cv >= 1000 and cv - 1000 != k):
                obs["yield_info_ok"] = False
            if k is None:
                k = cv - 1000 if isinstance(cv, int) and cv >= 1000 else len(obs["out"])
        else:
            cv = canon(case, name, item)
            k = cv - 1000 if isinstance(cv, int) and cv >= 1000 else len(obs["out"])
        CUR.log("yield", (name, k))
        obs["out"].append(cv)

    try:
        if api == "imap":
            for item in fs.imap(**kw):
                note(item, case["return_info"])
        elif api == "icollect":
            for item in fs.icollect(**kw):
                note(item, case["return_info"])
        elif api == "map":
            for item in fs.map(**kw):
                note(item, case["return_info"])
        elif api == "collect":
            res = fs.collect(**kw)
            if case["return_info"]:
                infos, data = res
                obs["collect_lens"] = [len(infos), len(data)]
                for item in zip(infos, data):
                    note(item, True)
            else:
                for item in res:
                    note(item, False)
    except Exception as e:   # noqa
        obs["err"] = err_code(e)
    if af:
        # what the caller's own objects hold after the call
        obs["args_after"] = None if given is None else [_describe_arg(x) for x in given]
        obs["kwargs_after"] = None if kwd is None else _describe_kw(kwd)
        obs["args_type_kept"] = given is None or type(given) is (tuple if af["args"] == "tuple" else list)


def _run_align(case, obs, FileSet, FileHandler):
    p = make_fileset(case, "p", FileSet, FileHandler)
    s = make_fileset(case, "s", FileSet, FileHandler)
    _, _, p_by = stream_infos(case, "p", p)
    _, _, s_by = stream_infos(case, "s", s)
    if case.get("order_p"):
        CUR.set_order("p", case["order_p"])
    if case.get("order_s"):
        CUR.set_order("s", case["order_s"])
    kw = {"skip_errors": case["skip_errors"], "return_info": case["return_info"]}
    if case["matches"] is not None:
        # stream of p = the primaries of the matches in order; stream of s = unique secondaries
        kw["matches"] = [(p_by[pp], [s_by[x] for x in secs]) for pp, secs in case["matches"]]
    else:
        mi = dt.timedelta(hours=case["max_interval_h"]) if case.get("max_interval_h") else None
        kw.update(start=T0, end=T0 + dt.timedelta(days=400), max_interval=mi)
        got = [[case["_pos_of_path"][a.path], [case["_pos_of_path"][x.path] for x in bs]]
               for a, bs in p.match(s, kw["start"], kw["end"], max_interval=mi)]
        if got != [[a, list(bs)] for a, bs in case["planned_matches"]]:
            raise SkipCase(f"match() gave {got}")
    obs["deliv"] = []
    try:
        for prim, sec in p.align(s, **kw):
            if case["return_info"]:
                pk = case["_pos_of_path"][prim[0].path]
                sk = case["_pos_of_path"][sec[0].path]
                ok = (prim[1] == {"pos": pk, "name": "p", "nread": 1} and sec[1] == {"pos": sk, "name": "s", "nread": 1})
            else:
                pk, sk = prim["pos"], sec["pos"]
                ok = prim["name"] == "p" and sec["name"] == "s" and prim["nread"] == 1 and sec["nread"] == 1
            obs["deliv"].append([pk, sk, bool(ok)])
    except Exception as e:   # noqa
        obs["err"] = err_code(e)


# ----------------------------------------------------------------------------- child mode (process pools)

class ManagerRecorder(Recorder):
    """The same recorder with its shared state in a multiprocessing.Manager, so that forked pool
    workers log into it and wait on its events."""
    mgr = None

    def __init__(self):
        super().__init__()
        m = ManagerRecorder.mgr
        self.m_events = m.list()
        self.m_calls = m.list()
        self.m_finished = m.dict()
        self.m_stuck = m.list()
        self.m_args = m.list()
        self.m_callrecs = m.list()
        self.m_lock = m.Lock()
        self.abort = m.Event()

    def new_event(self):
        return ManagerRecorder.mgr.Event()

    def log(self, kind, key):
        self.m_events.append((kind, key[0], key[1]))

    def count(self, which, key):
        with self.m_lock:
            self.m_calls.append((which, key[0], key[1]))
            return sum(1 for c in list(self.m_calls) if c == (which, key[0], key[1]))

    def finish(self, key):
        with self.m_lock:
            if str(key) in self.m_finished:
                return
            self.m_finished[str(key)] = 1
            self.m_events.append(("finish", key[0], key[1]))

    def gate(self, key):
        p = self.pred.get(key)
        if p is None:
            return
        ev = self.done_evt[p]
        t_end = time.time() + stuck_limit()
        while not ev.wait(0.05):
            if self.abort.is_set():
                return
            if time.time() > t_end:
                self.m_stuck.append([list(key), list(p)])
                self.abort.set()
                return

    def note_args(self, key, got, kind="list"):
        self.m_args.append((key[0], key[1], list(got), kind))

    def note_stuck(self, item):
        self.m_stuck.append(item)

    def note_call(self, key, desc, kdesc):
        self.m_callrecs.append((key[0], key[1], desc, kdesc))

    def collect_back(self):
        for a, b, desc, kdesc in list(self.m_callrecs):
            self.callrecs.setdefault((a, b), []).append([desc, kdesc])
        self.events = [tuple(e) for e in list(self.m_events)]
        self.stuck = list(self.m_stuck)
        for a, b, got, kind in list(self.m_args):
            self.args[(a, b)] = list(got)
            self.kinds[(a, b)] = kind
        for which, a, b in list(self.m_calls):
            getattr(self, which)[(a, b)] += 1



def run_case_with_sync(case, root, new, holder):
    # identical to run_case, but pulls the manager state back before reading it
    global CUR, CASE
    import typhon.files.fileset as fsmod
    from typhon.files import FileSet, FileHandler
    from concurrent.futures import ThreadPoolExecutor, ProcessPoolExecutor
    CUR, CASE = new(), case
    prepare(case, root)
    saved = (fsmod.ThreadPoolExecutor, fsmod.ProcessPoolExecutor)
    fsmod.ThreadPoolExecutor = make_pool_class(ThreadPoolExecutor)
    fsmod.ProcessPoolExecutor = make_pool_class(ProcessPoolExecutor)
    obs = {"out": [], "err": None, "yield_info_ok": True, "own": []}
    try:
        with warnings.catch_warnings(record=True):
            warnings.simplefilter("always")
            try:
                _run_map_like(case, obs, FileSet, FileHandler)
            except SkipCase as e:
                obs["skipped"] = str(e)
            obs["warnings"] = None      # warnings are raised inside the worker processes
    finally:
        CUR.abort.set()
        fsmod.ThreadPoolExecutor, fsmod.ProcessPoolExecutor = saved
        for d in case["_dirs"].values():
            shutil.rmtree(d, ignore_errors=True)
    CUR.collect_back()
    obs["events"] = [list(e) for e in CUR.events]
    obs["stuck"] = list(CUR.stuck)
    if obs["stuck"]:
        global STUCK_SEEN
        STUCK_SEEN += 1
    obs["func_calls"] = {f"{k[0]}:{k[1]}": v for k, v in dict(CUR.func_calls).items()}
    obs["read_calls"] = {f"{k[0]}:{k[1]}": v for k, v in dict(CUR.read_calls).items()}
    obs["args"] = {f"{k[0]}:{k[1]}": v for k, v in dict(CUR.args).items() if not k[0].startswith("own:")}
    obs["kinds"] = {f"{k[0]}:{k[1]}": v for k, v in dict(CUR.kinds).items() if not k[0].startswith("own:")}
    obs["own"] += [[k[1], v] for k, v in sorted(dict(CUR.args).items()) if k[0].startswith("own:")]
    obs["pools"] = list(CUR.pools)
    obs["calls"] = {f"{k[0]}:{k[1]}": v for k, v in dict(CUR.callrecs).items()}
    for k in [k for k in case if k.startswith("_")]:
        del case[k]
    case["fraise"], case["fnone"] = sorted(case["fraise"]), sorted(case["fnone"])
    return obs


def main():
    """Child mode.  `--thread`: the cases run on thread pools with the in-process recorder (a parallel shard of the
    thread-pool cases); otherwise: process-pool cases with the recorder in a multiprocessing.Manager."""
    import multiprocessing as mp
    cases = json.loads(sys.stdin.read())
    root = tempfile.mkdtemp(prefix="verif_c10p_")
    out = []
    try:
        if "--thread" in sys.argv[1:]:
            for case in cases:
                try:
                    out.append(run_case(case, root))
                except Exception:   # noqa
                    import traceback
                    out.append({"crash": traceback.format_exc()[-1500:]})
        else:
            with mp.Manager() as mgr:
                ManagerRecorder.mgr = mgr
                for case in cases:
                    try:
                        out.append(run_case_with_sync(case, root, ManagerRecorder, {}))
                    except Exception as e:   # noqa
                        import traceback
                        out.append({"crash": traceback.format_exc()[-1500:]})
    finally:
        shutil.rmtree(root, ignore_errors=True)
    sys.stdout.write("\nC10RESULT " + json.dumps(out) + "\n")


if __name__ == "__main__":
    main()
