"""C15 harness child: drives the real save_cache / load_cache / FileSet(info_cache=...) of the tree under test.

Reads one JSON document {"jobs": [...]} from stdin, writes {"results": [...]} to stdout.  Every action on the
library runs in a *forked* child of this (pristine: typhon imported, no FileSet ever created) process, so that
(a) a crash is a real process death (os._exit in the middle of save_cache, nothing flushed or cleaned up
afterwards), (b) a load happens in a process that shares no Python state with the saver, exactly as after an
interpreter restart, (c) the atexit handlers FileSet registers never run here.

Crash injection needs no source change: the names `open`, `shutil.move`, `os.rename`, `os.replace`, `os.remove`/`unlink`/`truncate`/`link` and the
copy functions that save_cache can reach are wrapped from outside; every file opened for writing is a proxy
whose write() performs the write in two halves, flushing after each, so that "after k primitives" is a
well-defined state of the disk.

Second mode (`session` as first argument): one real interpreter session with a FileSet that has an
info_cache file, used for the restart / atexit end-to-end cases.
"""
import datetime as dt
import json
import os
import shutil
import sys
import tempfile
import warnings

warnings.filterwarnings("ignore")


# ----------------------------------------------------------------------------- small helpers

def fields(t):
    if isinstance(t, dt.datetime):
        return [t.year, t.month, t.day, t.hour, t.minute, t.second, t.microsecond]
    return {"bad": repr(t)[:60]}


def jsonable(x):
    try:
        json.dumps(x)
        return x
    except Exception:
        return {"bad": repr(x)[:80]}


def show_cache(fs):
    out = []
    for key, info in fs.info_cache.items():
        try:
            times = [fields(info.times[0]), fields(info.times[1])]
            out.append({"key": jsonable(key), "path": jsonable(info.path), "t0": times[0], "t1": times[1],
                        "attr": jsonable(info.attr)})
        except Exception as e:  # noqa
            out.append({"key": jsonable(key), "bad": f"{type(e).__name__}: {e}"[:100]})
    return out


def in_child(fn):
    """Run fn() in a forked child; returns (exit status, result or None)."""
    r, w = os.pipe()
    sys.stdout.flush()
    pid = os.fork()
    if pid == 0:
        code = 0
        try:
            os.close(r)
            res = fn()
            data = json.dumps(res).encode()
            while data:
                n = os.write(w, data)
                data = data[n:]
        except BaseException as e:  # noqa
            try:
                os.write(w, json.dumps({"harness_error": f"{type(e).__name__}: {e}"[:300]}).encode())
            except Exception:
                pass
            code = 3
        finally:
            os._exit(code)
    os.close(w)
    chunks = []
    while True:
        b = os.read(r, 1 << 16)
        if not b:
            break
        chunks.append(b)
    os.close(r)
    _, status = os.waitpid(pid, 0)
    code = os.waitstatus_to_exitcode(status)
    data = b"".join(chunks)
    return code, (json.loads(data) if data else None)


def put_file(path, spec):
    """spec: None (missing) | {"text": str} | {"hex": str} | {"dir": true}"""
    if os.path.isdir(path) and not os.path.islink(path):
        shutil.rmtree(path)
    elif os.path.lexists(path):
        os.unlink(path)
    if spec is None:
        return
    if spec.get("dir"):
        os.mkdir(path)
    elif "hex" in spec:
        with open(path, "wb") as f:
            f.write(bytes.fromhex(spec["hex"]))
    else:
        with open(path, "w", encoding="utf-8") as f:
            f.write(spec["text"])


def read_file(path):
    if os.path.isdir(path):
        return "DIR"
    if not os.path.exists(path):
        return None
    with open(path, "rb") as f:
        return f.read()


def make_info(entry):
    from typhon.files.handlers.common import FileInfo
    attr = entry["attr"]
    if entry.get("poison"):            # something json cannot serialise, somewhere inside the attributes
        attr = dict(attr)
        attr["zz_unserialisable"] = {1, 2}
    return FileInfo(entry["path"], [dt.datetime(*entry["t0"]), dt.datetime(*entry["t1"])], attr)


def new_fileset(tmp, **kw):
    from typhon.files import FileSet
    return FileSet(os.path.join(tmp, "{year}{month}{day}_{hour}{minute}{second}.dat"), **kw)


# ----------------------------------------------------------------------------- crash injection

class Injector:
    def __init__(self, crash_at):
        self.crash_at = crash_at      # die after this many primitives (None: never)
        self.done = 0
        self.events = []
        self.depth = 0

    def tick(self, name, target=""):
        self.done += 1
        self.events.append([name, os.path.basename(str(target))])
        if self.crash_at is not None and self.done >= self.crash_at:
            os._exit(77)

    def install(self):
        import builtins
        import typhon.files.fileset as fsmod
        inj = self
        real_open = builtins.open

        class PFile:
            def __init__(self, f, name):
                self._f, self._name, self._closed, self._pending = f, name, False, None

            def _emit(self, part):
                # like a buffered file, the disk lags behind the program: what write() was given reaches the file
                # with the next primitive (the next write or the close) -- so a rename that comes before the close
                # is seen to publish an incomplete document
                if self._pending is not None:
                    self._f.write(self._pending)
                    self._f.flush()
                self._pending = part

            def write(self, s):
                h = len(s) // 2
                self._emit(s[:h])
                inj.tick("write", self._name)
                self._emit(s[h:])
                inj.tick("write", self._name)
                return len(s)

            def writelines(self, lines):
                for l in lines:
                    self.write(l)

            def flush(self):
                self._emit(None)
                self._f.flush()

            def _close(self):
                if not self._closed:
                    self._closed = True
                    self._emit(None)
                    self._f.close()
                    inj.tick("close", self._name)

            def close(self):
                self._close()

            def __enter__(self):
                return self

            def __exit__(self, *a):
                self._close()
                return False

            def __getattr__(self, n):
                return getattr(self._f, n)

        def wopen(file, mode="r", *a, **k):
            f = real_open(file, mode, *a, **k)
            if any(c in mode for c in "wax+"):
                inj.tick("open:" + mode, file)
                return PFile(f, file)
            return f

        fsmod.open = wopen          # shadows the builtin for the module that holds save_cache

        def wrap(mod, name, label):
            real = getattr(mod, name)

            def w(*a, **k):
                inj.depth += 1
                try:
                    r = real(*a, **k)
                finally:
                    inj.depth -= 1
                if inj.depth == 0:
                    inj.tick(label, a[1] if len(a) > 1 else "")
                return r
            setattr(mod, name, w)
        wrap(shutil, "move", "rename")
        wrap(os, "rename", "rename")
        wrap(os, "replace", "rename")
        for n in ("copy", "copy2", "copyfile"):
            wrap(shutil, n, "copy")
        # every other way of changing a directory entry is a primitive too (a crash right after it must leave a loadable
        # cache file): the unchanged save_cache uses none of them, so the primitive count of the model is unaffected
        for n in ("remove", "unlink", "truncate", "link", "symlink"):
            if hasattr(os, n):
                wrap(os, n, n)


def do_save(tmp, main, entries, crash_at):
    """Body of the saver child."""
    fs = new_fileset(tmp)
    for e in entries:
        info = make_info(e)
        fs.info_cache[info.path] = info
    inj = Injector(crash_at)
    if crash_at == 0:
        os._exit(77)
    inj.install()
    err = None
    try:
        fs.save_cache(main)
    except Exception as e:  # noqa
        err = f"{type(e).__name__}: {e}"[:200]
    return {"events": inj.events, "raised": err}


def do_load(tmp, main, c0=None, via="init"):
    """Body of the loader child: what a new interpreter makes of the cache file."""
    with warnings.catch_warnings(record=True) as rec:
        warnings.simplefilter("always")
        try:
            if via == "init":
                fs = new_fileset(tmp, info_cache=main)
            else:
                fs = new_fileset(tmp)
                for e in c0 or []:
                    info = make_info(e)
                    fs.info_cache[info.path] = info
                fs.load_cache(main)
        except Exception as e:  # noqa
            return {"raised": f"{type(e).__name__}: {e}"[:200], "warned": len(rec), "cache": None}
        msgs = [str(w.message)[:160] for w in rec if "cache" in str(w.message).lower()]
        return {"raised": None, "warned": len(msgs), "cache": show_cache(fs), "msg": msgs[:1]}


class Loader:
    """Load observations memoised by the bytes of the main file."""

    def __init__(self, tmp, main):
        self.tmp, self.main, self.memo = tmp, main, {}

    def observe(self):
        b = read_file(self.main)
        key = b if b is None or isinstance(b, str) else bytes(b)
        if key not in self.memo:
            code, res = in_child(lambda: do_load(self.tmp, self.main))
            self.memo[key] = res if code == 0 else {"raised": f"loader died with status {code}", "warned": 0,
                                                   "cache": None}
        return b, self.memo[key]


def reference_doc(entries):
    """Bytes of the document an undisturbed save_cache writes for these entries (clean directory)."""
    tmp = tempfile.mkdtemp(prefix="verif_c15_ref_")
    try:
        main = os.path.join(tmp, "cache.json")
        code, res = in_child(lambda: do_save(tmp, main, entries, None))
        b = read_file(main)
        return code, res, b
    finally:
        shutil.rmtree(tmp, ignore_errors=True)


def text_of(b):
    if b is None or isinstance(b, str):
        return b
    return b.decode("utf-8", "replace")


# ----------------------------------------------------------------------------- jobs

def job_sweep(job):
    """Every crash point of one save over a given previous state of the two files."""
    tmp = tempfile.mkdtemp(prefix="verif_c15_")
    try:
        main = os.path.join(tmp, "cache.json")
        backup = main + ".backup"
        code, ref, new_doc = reference_doc(job["entries"])
        if code != 0 or ref is None or ref.get("raised") or not isinstance(new_doc, bytes):
            return {"error": f"reference save failed: status {code}, {ref}"}
        events = ref["events"]
        old_doc = None
        if job.get("old_entries") is not None:
            _, _, old_doc = reference_doc(job["old_entries"])
        loader = Loader(tmp, main)
        points = []

        def prior_state():
            put_file(main, None)
            put_file(backup, None)
            if old_doc is not None:
                with open(main, "wb") as f:
                    f.write(old_doc)
            if job.get("stale_backup") is not None:
                put_file(backup, {"text": job["stale_backup"]})
        # the primitives of THIS save over THIS previous state (a save may do other things when files exist already,
        # e.g. remove the old file first): counted on an undisturbed run, then every prefix is crashed
        prior_state()
        code, full = in_child(lambda: do_save(tmp, main, job["entries"], None))
        if code == 0 and full is not None and not full.get("raised"):
            events = full["events"]
        n = len(events)
        ks = job.get("points") or list(range(n + 1))
        for k in ks:
            prior_state()
            code, res = in_child(lambda: do_save(tmp, main, job["entries"], k if k < n else None))
            b, obs = loader.observe()
            cls = "missing" if b is None else "new" if b == new_doc else "old" if (old_doc is not None and b == old_doc) \
                else "other"
            points.append({"k": k, "status": code, "main": cls, "load": obs,
                           "main_text": text_of(b)[:400] if cls == "other" else None})
        return {"events": events, "new_doc": text_of(new_doc), "old_doc": text_of(old_doc), "points": points}
    finally:
        shutil.rmtree(tmp, ignore_errors=True)


def job_history(job):
    """A sequence of saves, some dying after k primitives, some raising while serialising."""
    tmp = tempfile.mkdtemp(prefix="verif_c15_")
    try:
        main = os.path.join(tmp, "cache.json")
        init_doc = None
        if job.get("init_entries") is not None:
            _, _, init_doc = reference_doc(job["init_entries"])
            with open(main, "wb") as f:
                f.write(init_doc)
        loader = Loader(tmp, main)
        refs, steps = [], []
        for st in job["steps"]:
            clean = [dict(e, poison=False) for e in st["entries"]]
            code, ref, doc = reference_doc(clean)
            if code != 0 or ref is None or ref.get("raised"):
                return {"error": f"reference save failed: status {code}, {ref}"}
            refs.append(doc)
            n = len(ref["events"])
            k = st.get("crash")
            if isinstance(k, dict):                       # {"fromend": j}: die j primitives before the end
                k = max(0, n - int(k["fromend"]))
            code, res = in_child(lambda: do_save(tmp, main, st["entries"], k if (k is not None and k < n) else None))
            b, obs = loader.observe()
            steps.append({"n_events": n, "k": k, "events_head": ref["events"][:1], "events_tail": ref["events"][-2:],
                          "status": code, "raised": (res or {}).get("raised"),
                          "missing": b is None, "is_init": init_doc is not None and b == init_doc,
                          "equals_step": [i for i, r in enumerate(refs) if b == r],
                          "load": obs, "main_text": text_of(b)[:300] if b is not None else None})
        return {"steps": steps, "ref_docs": [text_of(r) for r in refs], "init_doc": text_of(init_doc)}
    finally:
        shutil.rmtree(tmp, ignore_errors=True)


def job_load(job):
    """What load_cache / FileSet(info_cache=...) makes of a given cache file."""
    tmp = tempfile.mkdtemp(prefix="verif_c15_")
    try:
        main = os.path.join(tmp, "cache.json")
        put_file(main, job["file"])
        if job.get("symlink_loop"):
            os.symlink(main, main)
        code, res = in_child(lambda: do_load(tmp, main, job.get("c0"), job.get("via", "init")))
        if code != 0:
            return {"raised": f"loader died with status {code}: {res}", "warned": 0, "cache": None}
        return res
    finally:
        shutil.rmtree(tmp, ignore_errors=True)


def job_refdoc(job):
    code, ref, doc = reference_doc(job["entries"])
    return {"status": code, "raised": (ref or {}).get("raised"), "doc": text_of(doc)}


def job_codec(job):
    """The bytes an undisturbed save_cache writes for these entries, and what a new interpreter makes of that file."""
    tmp = tempfile.mkdtemp(prefix="verif_c15_")
    try:
        main = os.path.join(tmp, "cache.json")
        code, ref, doc = reference_doc(job["entries"])
        if code != 0 or ref is None or ref.get("raised") or not isinstance(doc, bytes):
            return {"error": f"reference save failed: status {code}, {ref}"}
        with open(main, "wb") as f:
            f.write(doc)
        code, res = in_child(lambda: do_load(tmp, main))
        if code != 0:
            res = {"raised": f"loader died with status {code}: {res}", "warned": 0, "cache": None}
        return {"doc_hex": doc.hex(), "load": res}
    finally:
        shutil.rmtree(tmp, ignore_errors=True)


JOBS = {"sweep": job_sweep, "history": job_history, "load": job_load, "refdoc": job_refdoc, "codec": job_codec}


# ----------------------------------------------------------------------------- real sessions

def session(argv):
    """argv: root template cachefile|- start end [placeholder json]: one interpreter run that searches the
    fileset (filling or using the cache) and ends normally, so that the atexit save happens."""
    root, template, cachefile, start, end = argv[:5]
    placeholder = json.loads(argv[5]) if len(argv) > 5 else None
    opts = json.loads(argv[6]) if len(argv) > 6 else {}
    from typhon.files import FileSet
    with warnings.catch_warnings(record=True) as rec:
        warnings.simplefilter("always")
        kw = {} if cachefile == "-" else {"info_cache": cachefile}
        if opts.get("init_cov"):
            kw["time_coverage"] = opts["init_cov"]
        fs = FileSet(os.path.join(root, template), placeholder=placeholder, **kw)
        restored = show_cache(fs)
        s = None if start == "-" else dt.datetime(*json.loads(start))
        e = None if end == "-" else dt.datetime(*json.loads(end))
        def search(**kw_):
            return [{"path": os.path.relpath(i.path, root), "t0": fields(i.times[0]), "t1": fields(i.times[1]),
                     "attr": jsonable(i.attr)} for i in fs.find(s, e, no_files_error=False, **kw_)]
        found = search()
        # the same object asked again with a white-list filter on its user placeholder (every file is cached by now):
        # the answer must be the files of the unfiltered answer that carry that value
        found_filtered = flt = None
        if placeholder and found:
            key = sorted(placeholder)[0]
            vals = sorted({str(x["attr"].get(key)) for x in found if key in x["attr"]})
            if vals:
                flt = {key: vals[len(vals) // 2]}
                try:
                    found_filtered = search(filters=dict(flt))
                except Exception as ex:  # noqa
                    found_filtered = f"ERR {type(ex).__name__}: {str(ex)[:120]}"
        found_after = None
        if opts.get("then_cov"):
            fs.time_coverage = opts["then_cov"]
            found_after = search()
        msgs = [str(w.message)[:160] for w in rec if "cache" in str(w.message).lower()]
    final = show_cache(fs)
    for c in (restored, final):
        for x in c:
            for k in ("key", "path"):
                if isinstance(x.get(k), str):
                    x[k] = os.path.relpath(x[k], root)
    print(json.dumps({"restored": restored, "found": found, "found_after": found_after, "found_filtered": found_filtered, "filter": flt,
                      "final": final, "warned": len(msgs), "msg": msgs[:1]}))
    sys.stdout.flush()
    # normal interpreter exit: atexit runs FileSet.save_cache


def main():
    if len(sys.argv) > 1 and sys.argv[1] == "session":
        return session(sys.argv[2:])
    import typhon.files.fileset  # noqa: F401  (imported once; children are forked from here)
    req = json.load(sys.stdin)
    out = []
    for job in req["jobs"]:
        try:
            out.append(JOBS[job["kind"]](job))
        except Exception as e:  # noqa
            out.append({"error": f"{type(e).__name__}: {e}"[:300]})
    sys.stdout.write(json.dumps({"results": out}))
    sys.stdout.flush()
    os._exit(0)


if __name__ == "__main__":
    main()
