"""C11 child process: runs operation histories on real FileSet objects in temporary trees.

usage: c11_run.py CASES.json OUT.json
Every case = {"id", "filesets": [cfg...], "ops": [op...]}; the output holds, per case, the initial
listing and one record per operation: the RESOLVED operation (concrete paths / times picked from the
files that existed at that moment), the outcome (value or exception class) and the canonical listing of
the whole tree after it.  Files are reduced to [handler code, payload] or [compression code, handler code, payload] by sniffing
magic bytes and decoding with the standard library -- independently of typhon.
"""
import bz2
import csv
import hashlib
import gzip
import io
import json
import lzma
import os
import pickle
import shutil
import sys
import tempfile
import time
import traceback
import zipfile
from datetime import datetime, timedelta

import numpy as np

EPOCH = datetime.min
US = timedelta(microseconds=1)


def to_us(t):
    return (t - EPOCH) // US


def from_us(n):
    return EPOCH + timedelta(microseconds=int(n))


# ----------------------------------------------------------------------------- test data per handler kind

HCODE = {"pkl": 1, "json": 2, "csv": 3, "nc": 4, "ncg": 4}
NC = ("nc", "ncg")          # both go through typhon's NetCDF4 handler (chosen by FileSet from the suffix)
GROUPS = (("ancillary", "channel1"), ("quality", "channel2"))


def mk_grouped(v):
    """kind "ncg": data sets that keep variables in PSEUDO GROUPS ("group/variable", one level), as NetCDF4.write documents.
    The layout is a function of the payload, so that val() can rebuild the object that was written from what was read:
      v % 4      0 root variables first, then two groups      1 a group FIRST, then a root variable, a second group, a root
                 2 variables in groups ONLY (v itself in the first group)      3 flat (root variables only)
      (v // 4) % 2   which pair of group names (an overwrite with the other pair must leave nothing of the first)
    Grouped variables use dimensions of their own group only: a grouped variable on a ROOT dimension cannot be read back on
    the unchanged tree (KeyError in NetCDF4._load_group; reported, not generated)."""
    import xarray as xr
    shape, (ga, gb) = v % 4, GROUPS[(v // 4) % 2]
    root = {"v": ("n", np.array([v, v + 1, 2 * v], dtype="int64")),
            "lat": ("n", np.array([v + 0.5, np.nan, -1.25], dtype="float64"))}
    a = {f"{ga}/q": (f"{ga}/pixel", (np.arange(6) + v % 100).astype("int16")),
         f"{ga}/w": ((f"{ga}/pixel", f"{ga}/k"), (np.arange(12).reshape(6, 2) * 0.5 + v % 1000).astype("float32"))}
    b = {f"{gb}/bt": (f"{gb}/pixel", np.array([200.0 + v % 50, np.nan, 210.5, 1.0, 2.0], dtype="float64")),
         f"{gb}/u8": (f"{gb}/pixel", np.array([v % 200, 0, 255, 1, 2], dtype="uint8"))}
    if shape == 0:
        d = {**root, **a, **b}
    elif shape == 1:
        d = dict(a)
        d["v"] = root["v"]
        d.update(b)
        d["lat"] = root["lat"]
    elif shape == 2:
        d = {f"{ga}/v": (f"{ga}/n", root["v"][1]), **a, **b}
    else:
        d = {**root, "f32": ("n", np.array([v * 0.5, 1.5, np.nan], dtype="float32"))}
    return xr.Dataset(d)


def payload_of(kind, data):
    """the number an xarray object carries: variable v of the root or, for data in groups only, of a group"""
    if "v" in data.variables or kind != "ncg":
        return int(np.asarray(data["v"]).ravel()[0])
    name = sorted(n for n in data.variables if str(n).endswith("/v"))[0]
    return int(np.asarray(data[name]).ravel()[0])


def mk(kind, v):
    import xarray as xr
    v = int(v)
    if kind in ("pkl", "json"):
        return {"v": v}
    if kind == "csv":
        return xr.Dataset({"v": ("index", np.array([v, v + 1, 2 * v], dtype="int64")),
                           "w": ("index", np.array([v + 0.5, np.nan, -1.25]))},
                          coords={"index": np.arange(3)})
    if kind == "ncg":
        return mk_grouped(v)
    if kind == "nc":
        t0 = np.datetime64("2018-01-01T00:00:00", "ns")
        ds = xr.Dataset({
            "v": ("n", np.array([v, v + 1, 2 * v], dtype="int64")),
            "f": ("n", np.array([v + 0.5, np.nan, -1.25], dtype="float64")),
            "f32": ("n", np.array([v * 0.5, 1.5, np.nan], dtype="float32")),
            "i16": ("n", np.array([v % 1000, -7, 32000], dtype="int16")),
            "u8": ("n", np.array([v % 200, 0, 255], dtype="uint8")),
            "i32": (("n", "m"), np.array([[v, -v], [1, 2], [3, 4]], dtype="int32")),
            "t": ("n", t0 + np.array([v, v + 60, v + 86400], dtype="timedelta64[s]").astype("timedelta64[ns]")),
            "s": ("n", np.array([10.0 + 0.5 * (v % 100), np.nan, 9.5])),
        }, coords={"n": np.arange(3), "m": np.array([10.0, 20.0])}, attrs={"title": f"case {v}", "vv": v})
        ds["s"].encoding = {"scale_factor": 0.5, "add_offset": 10.0, "dtype": "int16", "_FillValue": -999}
        ds["f"].attrs["units"] = "K"
        return ds
    raise ValueError(kind)


def val(kind, data):
    """(payload, faithful): the number a returned object carries and whether the object equals the
    object built from that number (the handler's round trip kept everything)."""
    if kind in ("pkl", "json"):
        return int(data["v"]), set(data) == {"v"}
    v = payload_of(kind, data)
    ref = mk(kind, v)
    note = ""
    try:
        ok = True
        if kind in NC and set(map(str, data.variables)) != set(map(str, ref.variables)):
            # what is read back is what was written LAST: no variable is lost, nothing of an earlier content survives
            ok = False
            note = (f"variables written {sorted(map(str, ref.variables))} but read {sorted(map(str, data.variables))}: lost "
                    f"{sorted(set(map(str, ref.variables)) - set(map(str, data.variables)))}, not written with this data set "
                    f"(left from an earlier content of the file?) {sorted(set(map(str, data.variables)) - set(map(str, ref.variables)))}")
        for name in (ref.variables if ok else ()):
            if name not in data.variables:
                ok, note = False, f"variable {name} missing"
                break
            a, b = np.asarray(ref[name].values), np.asarray(data[name].values)
            if a.shape != b.shape:
                ok, note = False, f"{name}: shape {b.shape} != {a.shape}"
                break
            if a.dtype.kind in "fc":
                same = np.array_equal(a.astype("float64"), b.astype("float64"), equal_nan=True)
            else:
                same = np.array_equal(a, b)
            if not same:
                ok, note = False, f"{name}: values {b.tolist()} != {a.tolist()}"
                break
            if kind in NC and name != "s" and a.dtype != b.dtype:
                ok, note = False, f"{name}: dtype {b.dtype} != {a.dtype}"
                break
            if tuple(ref[name].dims) != tuple(data[name].dims):
                ok, note = False, f"{name}: dims {data[name].dims} != {ref[name].dims}"
                break
        if ok and kind == "nc":
            if data.attrs.get("title") != ref.attrs["title"] or int(data.attrs.get("vv", -1)) != v:
                ok, note = False, f"global attributes {dict(data.attrs)}"
            elif data["f"].attrs.get("units") != "K":
                ok, note = False, "attribute units of f lost"
    except Exception as e:  # noqa
        ok, note = False, f"{type(e).__name__}: {e}"
    return v, (ok or note)


def add(kind, data, k):
    if kind in ("pkl", "json"):
        return {"v": data["v"] + k}
    return mk(kind, val(kind, data)[0] + k)


def pkl_reader(fi, offset=0):
    with open(fi.path, "rb") as f:
        d = pickle.load(f)
    return {"v": d["v"] - offset}


def pkl_writer(data, fi, offset=0):
    with open(fi.path, "wb") as f:
        pickle.dump({"v": data["v"] + offset}, f, protocol=4)


def json_reader(fi, offset=0):
    with open(fi.path, "r") as f:
        d = json.load(f)
    return {"v": d["v"] - offset}


def json_writer(data, fi, offset=0):
    with open(fi.path, "w") as f:
        json.dump({"v": data["v"] + offset}, f)


class SlowReader:
    """A user reader that takes a moment: it waits, opens the file it is handed, waits again while it holds the file open,
    then reads it -- as a reader of a large file does.  With worker threads / processes the reads of several files overlap."""
    def __init__(self, kind, ms):
        self.kind, self.ms = kind, ms

    def __call__(self, fi, offset=0):
        time.sleep(self.ms / 2000.0)
        with open(fi.path, "rb" if self.kind == "pkl" else "r") as f:
            time.sleep(self.ms / 2000.0)
            d = pickle.load(f) if self.kind == "pkl" else json.load(f)
        return {"v": d["v"] - offset}


class ConversionError(ValueError):
    """raised by the test conversion / the picky test handler for the one payload they cannot treat"""


class Fmt:
    """The pickle / JSON test format as an OBJECT of a user class: its BOUND METHODS are handed to
    FileHandler(reader=obj.read_.., writer=obj.write_..).  The property does not distinguish how a user handler is
    built: read_args / write_args / per-call arguments must reach these methods exactly as they reach the plain
    functions above.  Flavours (the signature besides data / file_info):
        1: (**kwargs)     2: (offset=0)     3: (offset=0, **kwargs)
    picky = a payload this handler cannot store: the writer raises before it opens the file."""

    def __init__(self, kind, picky=None):
        self.kind, self.picky = kind, picky

    def _load(self, fi, offset):
        return (pkl_reader if self.kind == "pkl" else json_reader)(fi, offset=offset)

    def _store(self, data, fi, offset):
        if self.picky is not None and int(data["v"]) == int(self.picky):
            raise ConversionError(f"this handler cannot store the payload {data['v']}")
        (pkl_writer if self.kind == "pkl" else json_writer)(data, fi, offset=offset)

    @staticmethod
    def _only_offset(kwargs):
        if set(kwargs) - {"offset"}:
            raise TypeError(f"unexpected keyword arguments {sorted(kwargs)}")
        return kwargs.get("offset", 0)

    def read_kw(self, fi, **kwargs):
        return self._load(fi, self._only_offset(kwargs))

    def read_off(self, fi, offset=0):
        return self._load(fi, offset)

    def read_off_kw(self, fi, offset=0, **kwargs):
        self._only_offset(kwargs)
        return self._load(fi, offset)

    def write_kw(self, data, fi, **kwargs):
        self._store(data, fi, self._only_offset(kwargs))

    def write_off(self, data, fi, offset=0):
        self._store(data, fi, offset)

    def write_off_kw(self, data, fi, offset=0, **kwargs):
        self._only_offset(kwargs)
        self._store(data, fi, offset)


READERS = {1: "read_kw", 2: "read_off", 3: "read_off_kw"}
WRITERS = {1: "write_kw", 2: "write_off", 3: "write_off_kw"}
# Reader flavours 1 and 2 (a bound method with exactly ONE parameter besides file_info) never got their read arguments
# before fix C11_4 (finding F-C11-4, fixed in /repo b175c08: FileHandler.read counted a `self` that inspect.signature
# of a bound method does not show).  The constant stays as a switch for trees without that fix.
READER_SINGLE_EXTRA = True


def user_handler(kind, rflav=0, wflav=0, picky=None, slow=None):
    from typhon.files import FileHandler
    if slow:
        return FileHandler(reader=SlowReader(kind, int(slow)), writer=pkl_writer if kind == "pkl" else json_writer)
    if not READER_SINGLE_EXTRA and rflav in (1, 2):
        rflav = 3
    if picky is not None and not wflav:
        wflav = 3
    obj = Fmt(kind, picky)
    reader = getattr(obj, READERS[rflav]) if rflav else (pkl_reader if kind == "pkl" else json_reader)
    writer = getattr(obj, WRITERS[wflav]) if wflav else (pkl_writer if kind == "pkl" else json_writer)
    return FileHandler(reader=reader, writer=writer)


class PostAdd:
    """post_reader(file_info, data) (a picklable callable)"""
    def __init__(self, kind, k):
        self.kind, self.k = kind, k

    def __call__(self, file_info, data):
        return add(self.kind, data, self.k)


def hstr(text):
    """checksum of a string; Model/C11_fsops.v hstr computes the same number"""
    h = 7
    for ch in text.encode("latin-1", "replace"):
        h = (h * 31 + ch) % 9973
    return h


def info_label(root, file_info):
    """checksum of what a FileInfo says: path (relative to the root of the tree), the two times, the attributes;
    Model/C11_fsops.v t_lab computes the same number from the entry of the file"""
    p = "R/" + os.path.relpath(str(file_info.path), root).replace(os.sep, "/")
    times = list(getattr(file_info, "times", None) or [None, None])
    s = to_us(times[0]) % 9973 if times[0] is not None else 0
    e = to_us(times[1]) % 9973 if times[1] is not None else 0
    a = sum(3 * hstr(str(k)) + hstr(str(v)) for k, v in dict(getattr(file_info, "attr", None) or {}).items())
    return (hstr(p) + s + 7 * e + a) % 9973


class PostLabel:
    """post_reader(file_info, data) that LOOKS AT file_info, as the documented signature allows: it labels the payload
    with the file it is told the data come from (payload + k + 1000 * checksum of file_info.path relative to the tree,
    file_info.times, file_info.attr).  The law: post_reader is handed the FileInfo of the file that was read -- the
    path, times and attributes find() reports -- for plain and for compressed files alike."""
    def __init__(self, kind, k, root):
        self.kind, self.k, self.root = kind, k, root

    def __call__(self, file_info, data):
        return add(self.kind, data, self.k + 1000 * info_label(self.root, file_info))


class Convert:
    """convert(data): from the source's object kind to the destination's, adding k; it raises for the payload `bad`
    (a record the user's function cannot convert)"""
    def __init__(self, src, dst, k, bad=None):
        self.src, self.dst, self.k, self.bad = src, dst, k, bad

    def __call__(self, data):
        v = val(self.src, data)[0]
        if self.bad is not None and v == int(self.bad):
            raise ConversionError(f"cannot convert the payload {v}")
        return mk(self.dst, v + self.k)


CSV_ARGS = [({}, {}), ({"index": False}, {}), ({}, {"index_col": 0}), ({"sep": ";"}, {"sep": ";"})]


def build_fileset(root, cfg, picky=None):
    from typhon.files import FileSet
    kind = cfg["hkind"]
    kw = {}
    if kind in ("pkl", "json"):
        # a handler from two plain functions (flavour 0) or from the bound methods of a user object
        kw["handler"] = user_handler(kind, cfg.get("rflav", 0), cfg.get("wflav", 0), picky, cfg.get("slow"))
    # csv / nc: the handler is chosen by FileSet from the suffix (default_handler)
    if kind in ("pkl", "json"):
        if cfg["rargs"]:
            kw["read_args"] = {"offset": cfg["rargs"]}
        if cfg["wargs"]:
            kw["write_args"] = {"offset": cfg["wargs"]}
    elif kind == "csv":
        wa, ra = CSV_ARGS[cfg.get("csv_args", 0)]
        kw["write_args"], kw["read_args"] = dict(wa), dict(ra)
    if cfg["post"] is not None:
        kw["post_reader"] = (PostLabel(kind, cfg["post"], root) if cfg.get("plabel") else PostAdd(kind, cfg["post"]))
    if cfg["cov"] is not None:
        kw["time_coverage"] = timedelta(seconds=cfg["cov"])
    if cfg.get("temp_dir"):
        # the directory for the temporary (de)compressed copies: inside the tree of the case, so that it is listed
        kw["temp_dir"] = os.path.join(root, cfg["temp_dir"])
        os.makedirs(kw["temp_dir"], exist_ok=True)
    if cfg.get("worker") == "thread" or kind in NC:
        kw["worker_type"] = "thread"
    if kind in NC:
        kw["max_threads"] = 1        # the netCDF4 library is not thread safe (HDF errors, segmentation faults)
    elif cfg.get("worker") == "default":
        pass                         # worker type and pool sizes as FileSet chooses them (collect: 3 threads, map: 4 processes)
    elif cfg.get("max_workers"):
        kw["max_threads"] = kw["max_processes"] = int(cfg["max_workers"])
    fs = FileSet(os.path.join(root, cfg["path"]), name=cfg["name"], compress=cfg["compress"],
                 decompress=cfg["decompress"], **kw)
    return fs


# ----------------------------------------------------------------------------- canonical listing

def sniff(raw):
    c = 0
    return _sniff(raw)


def _pre(c):
    return [c] if c else []


def _sniff(raw):
    c = 0
    try:
        if raw[:2] == b"\x1f\x8b":
            c, raw = 11, gzip.decompress(raw)
        elif raw[:3] == b"BZh":
            c, raw = 12, bz2.decompress(raw)
        elif raw[:4] == b"PK\x03\x04":
            with zipfile.ZipFile(io.BytesIO(raw)) as z:
                names = z.namelist()
                c, raw = 13, z.read(names[0])
        elif raw[:6] == b"\xfd7zXZ\x00":
            c, raw = 14, lzma.decompress(raw)
    except Exception:  # noqa
        return [-1]
    try:
        if raw[:1] == b"\x80":
            return _pre(c) + [1, int(pickle.loads(raw)["v"])]
        if raw[:1] == b"{":
            return _pre(c) + [2, int(json.loads(raw.decode())["v"])]
        if raw[:4] == b"\x89HDF" or raw[:3] == b"CDF":
            import netCDF4
            with netCDF4.Dataset("inmem.nc", memory=raw) as ds:
                ds.set_auto_maskandscale(False)
                if "v" in ds.variables:
                    return _pre(c) + [4, int(ds.variables["v"][0])]
                # data in groups only: the payload is in a group
                for g in sorted(ds.groups):
                    if "v" in ds.groups[g].variables:
                        return _pre(c) + [4, int(ds.groups[g].variables["v"][0])]
                return [-2]
        text = raw.decode()
        delim = ";" if ";" in text.splitlines()[0] else ","
        rows = list(csv.DictReader(io.StringIO(text), delimiter=delim))
        return _pre(c) + [3, int(rows[0]["v"])]
    except Exception:  # noqa
        return [-2]


def listing(root):
    out = {}
    for dp, _, fns in os.walk(root):
        for fn in fns:
            p = os.path.join(dp, fn)
            try:
                with open(p, "rb") as f:
                    raw = f.read()
            except OSError:          # a dangling symbolic link: a name without content
                out["R/" + os.path.relpath(p, root).replace(os.sep, "/")] = [-3]
                continue
            out["R/" + os.path.relpath(p, root).replace(os.sep, "/")] = sniff(raw)
    return out


def digests(root):
    """path -> SHA-1 of the bytes of the file: operations that only read must leave every file byte for byte as it was"""
    out = {}
    for dp, _, fns in os.walk(root):
        for fn in fns:
            p = os.path.join(dp, fn)
            try:
                with open(p, "rb") as f:
                    out["R/" + os.path.relpath(p, root).replace(os.sep, "/")] = hashlib.sha1(f.read()).hexdigest()
            except OSError:
                out["R/" + os.path.relpath(p, root).replace(os.sep, "/")] = "unreadable"
    return out


def links(root):
    """groups of paths of the tree that are one and the same file (same device and inode): hard links"""
    seen = {}
    for dp, _, fns in os.walk(root):
        for fn in fns:
            p = os.path.join(dp, fn)
            try:
                st = os.stat(p, follow_symlinks=False)
            except OSError:
                continue
            name = "R/" + os.path.relpath(p, root).replace(os.sep, "/")
            if os.path.islink(p):        # a symbolic link is no file of its own either
                seen.setdefault(("link", name), []).extend([name, "-> " + os.readlink(p)])
            elif st.st_nlink > 1:
                seen.setdefault((st.st_dev, st.st_ino), []).append(name)
    return sorted(sorted(g) for g in seen.values() if len(g) > 1)


def rel(root, p):
    return "R/" + os.path.relpath(str(p), root).replace(os.sep, "/")


ERR = {"NoFilesError": "ENoFiles", "UnfilledPlaceholderError": "EName", "UnknownPlaceholderError": "EName",
       "FileNotFoundError": "ENoFile", "SameFileError": "ESame"}


def classify(e):
    n = type(e).__name__
    if n == "ValueError" and "start must be smaller" in str(e):
        return "EPeriod"
    return ERR.get(n, "Other")


# ----------------------------------------------------------------------------- running one history

def sel_kwargs(op):
    kw = {}
    if op.get("start") is not None:
        kw["start"] = from_us(op["start"])
    if op.get("end") is not None:
        kw["end"] = from_us(op["end"])
    filt = {}
    for k, vs in (op.get("white") or {}).items():
        filt[k] = vs[0] if len(vs) == 1 else list(vs)
    for k, vs in (op.get("black") or {}).items():
        filt["!" + k] = vs[0] if len(vs) == 1 else list(vs)
    if filt:
        kw["filters"] = filt
    return kw


WIDTH = {"year": 4, "year2": 2, "month": 2, "day": 2, "doy": 3, "hour": 2, "minute": 2, "second": 2,
         "millisecond": 3}


def member_regex(path):
    """the harness' own reading of a template (digits for temporal fields, word characters for user
    placeholders); only used to PICK existing files for read / files= selections"""
    import re
    out, pos = "", 0
    for m in re.finditer(r"\{(\w+)\}", path):
        out += re.escape(path[pos:m.start()])
        n = m.group(1)
        base = n[4:] if n.startswith("end_") else n
        out += ("\\d{%d}" % WIDTH[base]) if base in WIDTH else "[A-Za-z0-9]+"
        pos = m.end()
    return re.compile("^R/" + out + re.escape(path[pos:]) + "$")


def existing(root, fs, cfg):
    rx = member_regex(cfg["path"])
    res = []
    for p in sorted(listing_paths(root)):
        if rx.match(p):
            try:
                res.append(fs.get_info(os.path.join(root, p[2:])))
            except Exception:  # noqa
                pass
    return res


def listing_paths(root):
    for dp, _, fns in os.walk(root):
        for fn in fns:
            yield "R/" + os.path.relpath(os.path.join(dp, fn), root).replace(os.sep, "/")


def candidates(infos, op, chosen):
    """the files a selection takes, by the harness' own reading (only used to PICK the payload a conversion fails for)"""
    if chosen is not None:
        return list(chosen)
    a = from_us(op["start"]) if op.get("start") is not None else datetime.min
    b = from_us(op["end"]) if op.get("end") is not None else datetime.max
    out = []
    for f in infos:
        if not (f.times[0] < b and a <= f.times[1]):
            continue
        if any(str(f.attr.get(k)) not in vs for k, vs in (op.get("white") or {}).items() if k in f.attr):
            continue
        if any(str(f.attr.get(k)).startswith(v) for k, vs in (op.get("black") or {}).items() if k in f.attr for v in vs):
            continue
        out.append(f)
    return out or list(infos)


def obj_state(fs):
    """the default dictionaries a FileSet object carries (JSON-able copy)"""
    def plain(d):
        return {str(k): (v if isinstance(v, (int, str, bool, type(None))) else repr(v)) for k, v in dict(d).items()}
    return {"read_args": plain(fs.read_args), "write_args": plain(fs.write_args)}


def call_offset(op, kind):
    """the keyword arguments of THIS call (only the toy handlers take one: offset)"""
    k = op.get("call_args")
    return int(k) if (k is not None and kind in ("pkl", "json")) else None


def run_case(case):
    root = tempfile.mkdtemp(prefix="verif_c11_")
    records = []
    try:
        pool = [(build_fileset(root, cfg), dict(cfg)) for cfg in case["filesets"]]
        pool = [(fs_, cfg_, obj_state(fs_)) for fs_, cfg_ in pool]
        gone = {}        # id(FileSet object) -> start times of the files that this object's delete() / move() removed
        for op in case["ops"]:
            fs, cfg, fs_init = pool[op["fs"] % len(pool)]
            r = dict(op)
            r["cfg"] = dict(cfg)
            kind = cfg["hkind"]
            out = {"status": "ok", "value": None}
            new_member = None
            try:
                name = op["op"]
                if op.get("use_files"):
                    ex = existing(root, fs, cfg)
                    chosen = [f for i, f in enumerate(ex) if (op["use_files"] >> (i % 16)) & 1] or ex[:1]
                    if op.get("empty_files") and name in ("move", "delete") and ex:
                        chosen = []
                    elif not chosen:
                        r["skipped"] = "no file to pick"
                        records.append({"op": r, "out": {"status": "skipped"}, "after": listing(root), "links": links(root)})
                        continue
                    r["files"] = [rel(root, f.path) for f in chosen]
                if name == "overwrite":
                    # history: an EXISTING file of this fileset is written again, under its own name (the handlers open
                    # the path for writing: the same inode is truncated and refilled, nothing is renamed)
                    ex = existing(root, fs, cfg)
                    if not ex:
                        records.append({"op": r, "out": {"status": "skipped"}, "after": listing(root),
                                        "links": links(root)})
                        continue
                    f = ex[op["pick"] % len(ex)]
                    r["path"] = rel(root, f.path)
                    data = mk(kind, op["v"])
                    if op.get("how") == "setitem":
                        # fileset[s:e] = data with the period (and placeholder values) the file is found under
                        r["s"], r["e"] = to_us(f.times[0]), to_us(f.times[1])
                        r["fill"] = {str(k_): str(v_) for k_, v_ in f.attr.items()} or None
                        if f.attr:
                            fs[f.times[0]:f.times[1], dict(f.attr)] = data
                        else:
                            fs[f.times[0]:f.times[1]] = data
                    else:
                        fs.write(data, f.path if op["pick"] % 2 else f)
                elif name == "write":
                    s, e = from_us(op["s"]), from_us(op["e"])
                    data = mk(kind, op["v"])
                    key = slice(s, e) if op["slice"] else s
                    k = call_offset(op, kind)
                    if k is not None:
                        # write(data, file, **write_args): arguments of this call only
                        fn = fs.get_filename((s, e) if op["slice"] else (s, s),
                                             fill=dict(op["fill"]) if op.get("fill") is not None else None)
                        r["path"], r["call"] = rel(root, fn), k
                        fs.write(data, fn, offset=k)
                    elif op.get("fill") is not None:
                        fs[key, dict(op["fill"])] = data
                    else:
                        fs[key] = data
                    # written_is_found: the file must be found again, under the period the property prescribes
                    try:
                        fn = fs.get_filename((s, e) if op["slice"] else (s, s),
                                             fill=dict(op["fill"]) if op.get("fill") is not None else None)
                        out["written"] = rel(root, fn)
                        hits = list(fs.find(s, s + US, no_files_error=False))
                        out["found"] = [[rel(root, f.path), to_us(f.times[0]), to_us(f.times[1]),
                                         sorted([k_, str(v_)] for k_, v_ in f.attr.items())]
                                        for f in hits if rel(root, f.path) == out["written"]]
                    except Exception as ex:  # noqa
                        out["found_error"] = f"{type(ex).__name__}: {str(ex)[:200]}"
                elif name == "get" and op["pick"] % 3 == 0 and gone.get(id(fs)):
                    # history: the object is asked by timestamp for a file that its own delete() / move() removed
                    # earlier; whatever it answers (C16 says what), it must not hand out the removed file
                    t = gone[id(fs)][(op["pick"] // 3) % len(gone[id(fs)])]
                    r["t"], r["ghost"] = to_us(t), True
                    data = fs[t]
                    v, faithful = val(kind, data)
                    out["value"], out["faithful"] = v, faithful
                elif name in ("read", "get"):
                    ex = existing(root, fs, cfg)
                    if not ex:
                        records.append({"op": r, "out": {"status": "skipped"}, "after": listing(root)})
                        continue
                    f = ex[op["pick"] % len(ex)]
                    if op.get("pre_args") and kind in ("pkl", "json"):
                        # history: an earlier call on the same object with read arguments of its OWN (result not used);
                        # the arguments of one call must not become the defaults of the next
                        try:
                            fs.read(f, offset=int(op["pre_args"]))
                            if op["pre_args"] % 2:
                                fs.collect(files=[f], read_args={"offset": int(op["pre_args"]) + 1})
                        except Exception:  # noqa
                            pass
                    if name == "read":
                        r["path"] = rel(root, f.path)
                        r["bare"] = bool(op["pick"] % 2)     # read("path"): post_reader gets FileInfo(path), no times
                        k = call_offset(op, kind)
                        if k is not None:
                            r["call"] = k       # read(file, **read_args): arguments of this call only
                            data = fs.read(f.path, offset=k) if op["pick"] % 2 else fs.read(f, offset=k)
                        else:
                            data = fs.read(f.path) if op["pick"] % 2 else fs.read(f)
                    else:
                        r["t"] = to_us(f.times[0])
                        data = fs[f.times[0]]
                    v, faithful = val(kind, data)
                    out["value"], out["faithful"] = v, faithful
                elif name == "collect":
                    kw = sel_kwargs(op)
                    k = call_offset(op, kind)
                    ckw = {}
                    if k is not None:
                        r["call"] = k           # collect(..., read_args={...}): arguments of this call only
                        ckw["read_args"] = {"offset": k}
                    if op.get("icollect"):
                        # the generator form: (FileInfo, content) pairs, chunk by chunk
                        pairs = list(fs.icollect(files=chosen, return_info=True, **ckw) if op.get("use_files")
                                     else fs.icollect(return_info=True, **kw, **ckw))
                        infos, datas = [i for i, _ in pairs], [d_ for _, d_ in pairs]
                    elif op.get("use_files"):
                        infos, datas = fs.collect(files=chosen, return_info=True, **ckw)
                    elif op.get("slice") and "filters" not in kw and k is None:
                        datas = fs[kw.get("start"):kw.get("end")]
                        infos = None
                    else:
                        infos, datas = fs.collect(return_info=True, **kw, **ckw)
                    vals = [val(kind, d) for d in datas]
                    out["faithful"] = next((f for _, f in vals if f is not True), True)
                    if infos is None:
                        out["value"] = [[None, v] for v, _ in vals]
                    else:
                        out["value"] = [[rel(root, i.path), v] for i, (v, _) in zip(infos, vals)]
                elif name == "find":
                    kw = sel_kwargs(op)
                    res = list(fs.find(**kw))
                    out["value"] = [[rel(root, f.path), to_us(f.times[0]), to_us(f.times[1]),
                                     sorted([k, str(v)] for k, v in f.attr.items())] for f in res]
                elif name == "move":
                    kw = sel_kwargs(op)
                    if op.get("use_files"):
                        kw = {"files": chosen}
                    tg = op["target"]
                    if tg["kind"] == "fs":
                        dest, dcfg = pool[tg["fs"] % len(pool)][:2]
                        r["target_cfg"] = dict(dcfg)
                    else:
                        dest = os.path.join(root, tg["path"])
                        dcfg = dict(cfg)
                        dcfg["path"] = tg["path"]
                        dcfg["name"] = cfg["name"] + "m"
                        dcfg["derived"] = True
                        r["target_cfg"] = dict(dcfg)
                    conv = op.get("convert")
                    seen_before = existing(root, fs, cfg)
                    # history: a move whose conversion FAILS for one payload -- the user's convert function raises for
                    # it, or the handler of the target cannot store it.  The payload is that of one of the files the
                    # selection takes (picked here, among the files that exist now); resolved into r["fail"].
                    bad_conv = bad_store = None
                    inj = op.get("fail")
                    if inj and conv is not None and kind in ("pkl", "json") and dcfg["hkind"] in ("pkl", "json"):
                        cand = candidates(seen_before, op, chosen if op.get("use_files") else None)
                        if cand:
                            try:
                                v0 = val(kind, fs.read(cand[inj["pick"] % len(cand)]))[0]
                            except Exception:  # noqa
                                v0 = None
                            if v0 is not None:
                                k = 0 if conv == "true" else int(conv)
                                if inj["how"] == "convert":
                                    bad_conv = v0
                                    if conv == "true":
                                        conv = 0      # a function that converts nothing but raises for that record
                                else:
                                    bad_store = v0 + k
                                r["fail"] = {"how": inj["how"], "pick": inj["pick"], "convert": bad_conv, "store": bad_store}
                                r["convert"] = conv
                    if "fail" in r and "convert" not in r.get("fail", {}):
                        del r["fail"]            # nothing to inject (no file, not a conversion between user handlers)
                    if conv is None:
                        cv = None if op.get("conv_none") else False
                    elif conv == "true":
                        cv = True
                    else:
                        cv = Convert(kind, dcfg["hkind"], int(conv), bad=bad_conv)
                    if bad_store is not None:
                        # the same target, through a handler that cannot store that payload
                        pcfg = dict(dcfg)
                        pcfg["name"] = dcfg["name"] + "p"
                        dest = build_fileset(root, pcfg, picky=bad_store)
                    try:
                        ret = fs.move(dest, convert=cv, copy=op["copy"], **kw)
                    finally:
                        still = set(listing_paths(root))
                        gone.setdefault(id(fs), []).extend(
                            f.times[0] for f in seen_before if rel(root, f.path) not in still)
                    if tg["kind"] == "path" and bad_store is None:
                        new_member = (ret, dcfg, dict(fs_init))
                elif name == "delete":
                    kw = sel_kwargs(op)
                    if op.get("use_files"):
                        kw = {"files": chosen}
                    _stdout = sys.stdout
                    sys.stdout = io.StringIO()
                    try:
                        seen_before = existing(root, fs, cfg)
                        fs.delete(dry_run=op["dry"], **kw)
                    finally:
                        sys.stdout = _stdout
                    still = set(listing_paths(root))
                    gone.setdefault(id(fs), []).extend(f.times[0] for f in seen_before if rel(root, f.path) not in still)
                else:
                    raise ValueError(name)
            except Exception as e:  # noqa
                out = {"status": "err", "err": classify(e), "exc": f"{type(e).__name__}: {str(e)[:200]}",
                       "tb": traceback.format_exc()[-600:]}
            if new_member is not None:
                pool.append(new_member)
            # the state of the object after the call: its default dictionaries must be what they were
            try:
                out["obj"], out["obj_init"] = obj_state(fs), fs_init
            except Exception as ex:  # noqa
                out["obj"], out["obj_init"] = f"{type(ex).__name__}: {ex}", fs_init
            records.append({"op": r, "out": out, "after": listing(root), "links": links(root)})
            if case.get("digest"):
                records[-1]["sha"] = digests(root)
        return {"id": case["id"], "records": records}
    finally:
        shutil.rmtree(root, ignore_errors=True)


def main():
    cases = json.load(open(sys.argv[1]))
    res = []
    for c in cases:
        try:
            res.append(run_case(c))
        except Exception as e:  # noqa
            res.append({"id": c["id"], "crash": f"{type(e).__name__}: {e}", "tb": traceback.format_exc()[-1500:]})
    with open(sys.argv[2], "w") as f:
        json.dump(res, f)


if __name__ == "__main__":
    main()
