"""C12 child process: run typhon.files.utils.compress / decompress of the tree under test on the cases
of a JSON file, with one fault injected per operation, and print what the property makes observable.

usage: c12_run.py CASES.json   ->  JSON list of observations on stdout

Nothing in the source is changed: faults are injected from outside by
  * natural means   (a tmpdir / target directory that does not exist, a block that writes nothing,
                     a missing, truncated, corrupted or foreign archive),
  * module-level names of typhon.files.utils wrapped for the duration of ONE operation:
      utils.open, utils.tempfile (proxy), utils._known_compressions[fmt] (the compressor class),
      shutil.copyfileobj (also used inside zipfile.ZipFile.write),
  * raising in the caller's block.
Every injection records whether it fired; an injection that did not fire (the code no longer goes
through that name) is reported as such, and the case is then judged as a fault-free run.
"""
import bz2
import builtins
import gzip
import io
import json
import lzma
import os
import random
import shutil
import sys
import tempfile
import types
import zipfile

U = None          # typhon.files.utils of the tree under test
REAL_COPY = shutil.copyfileobj
REAL_TEMPFILE = tempfile


class Injected(Exception):
    """The exception raised by injected faults (an ordinary Exception subclass)."""


class InjectedOS(OSError):
    pass


class InjectedBase(BaseException):
    """A BaseException that is not an Exception (like KeyboardInterrupt / SystemExit)."""


EXC = {"Exception": Injected, "OSError": InjectedOS, "KeyboardInterrupt": KeyboardInterrupt,
       "BaseException": InjectedBase}


def block_bytes(spec):
    kind, size, seed = spec["kind"], spec["size"], spec["seed"]
    r = random.Random(seed)
    if kind == "rand":
        return r.randbytes(size)
    if kind == "ascii":
        return bytes(r.choice(b"abcdefghij klmnop\n") for _ in range(size))
    if kind == "zeros":
        return bytes(size)
    if kind == "allbytes":
        return (bytes(range(256)) * (size // 256 + 1))[:size]
    if kind == "gzipped":
        return gzip.compress(r.randbytes(size), mtime=0)
    if kind == "xzipped":
        return lzma.compress(r.randbytes(size))
    raise ValueError(kind)


def concat(tokens, blocks):
    return b"".join(blocks[str(t)] for t in tokens)


def std_write(fmt, path, member, data):
    """An archive made by the standard library alone."""
    if fmt == "gz":
        with gzip.open(path, "wb") as f:
            f.write(data)
    elif fmt == "bz2":
        with bz2.open(path, "wb") as f:
            f.write(data)
    elif fmt == "xz":
        with lzma.open(path, "wb") as f:
            f.write(data)
    elif fmt == "zip":
        with zipfile.ZipFile(path, "w", zipfile.ZIP_DEFLATED) as z:
            z.writestr(member, data)
    else:
        raise ValueError(fmt)


def std_read(fmt, path):
    """(payload, member) as the standard library reads the file as an archive of `fmt`, or None."""
    try:
        if fmt == "gz":
            with gzip.open(path, "rb") as f:
                return f.read(), None
        if fmt == "bz2":
            with bz2.open(path, "rb") as f:
                return f.read(), None
        if fmt == "xz":
            with lzma.open(path, "rb", format=lzma.FORMAT_XZ) as f:
                return f.read(), None
        if fmt == "zip":
            with zipfile.ZipFile(path, "r") as z:
                if z.testzip() is not None:
                    return None
                names = z.namelist()
                if len(names) != 1:
                    return None
                return z.read(names[0]), names[0]
    except Exception:
        return None
    return None


def read_or_none(path):
    try:
        with builtins.open(path, "rb") as f:
            return f.read()
    except OSError:
        return None


def listing(*dirs):
    n = 0
    for d in dirs:
        if os.path.isdir(d):
            n += len(os.listdir(d))
    return n


# ----------------------------------------------------------------------------- injections

class Patches:
    """Wrap module-level names for one operation; undo everything afterwards."""

    def __init__(self):
        self.undo = []
        self.fired = False

    def set(self, obj, name, value, is_item=False):
        if is_item:
            old = obj[name]
            obj[name] = value
            self.undo.append(lambda: obj.__setitem__(name, old))
        else:
            had = name in vars(obj)
            old = getattr(obj, name, None)
            setattr(obj, name, value)
            if had:
                self.undo.append(lambda: setattr(obj, name, old))
            else:
                self.undo.append(lambda: delattr(obj, name))

    def restore(self):
        for u in reversed(self.undo):
            u()
        self.undo = []

    def fire(self, exc):
        self.fired = True
        raise exc("injected fault")

    # -- utils.open: raise on the first call whose mode matches
    def open_raises(self, mode, exc):
        def fake_open(file, m="r", *a, **k):
            if m == mode and not self.fired:
                self.fire(exc)
            return builtins.open(file, m, *a, **k)
        self.set(U, "open", fake_open)

    # -- utils.open returning a file whose close() raises (after really closing)
    def open_close_raises(self, mode, exc):
        p = self

        def fake_open(file, m="r", *a, **k):
            f = builtins.open(file, m, *a, **k)
            if m != mode:
                return f

            class W:
                name = f.name

                def write(self, b):
                    return f.write(b)

                def close(self):
                    f.close()
                    if not p.fired:
                        p.fire(exc)

                def __enter__(self):
                    return self

                def __exit__(self, *a):
                    self.close()
            return W()
        self.set(U, "open", fake_open)

    # -- utils.tempfile proxy
    def tempfile_proxy(self, **over):
        ns = types.SimpleNamespace()

        class Proxy:
            def __getattr__(self_, name):
                if name in over:
                    return over[name]
                return getattr(REAL_TEMPFILE, name)
        self.set(U, "tempfile", Proxy())

    def mkdtemp_raises(self, exc):
        def TD(*a, **k):
            self.fire(exc)
        self.tempfile_proxy(TemporaryDirectory=TD)

    def mktemp_raises(self, exc):
        def NTF(*a, **k):
            self.fire(exc)
        self.tempfile_proxy(NamedTemporaryFile=NTF)

    def mktemp_close_raises(self, exc):
        p = self

        def NTF(*a, **k):
            f = REAL_TEMPFILE.NamedTemporaryFile(*a, **k)

            class W:
                name = f.name

                def write(self, b):
                    return f.write(b)

                def close(self):
                    f.close()
                    if not p.fired:
                        p.fire(exc)
            return W()
        self.tempfile_proxy(NamedTemporaryFile=NTF)

    # -- the compressor table
    def compressor_ctor_raises(self, fmt, exc):
        key = fmt if fmt in U._known_compressions else None
        if key is None:
            return

        def ctor(*a, **k):
            self.fire(exc)
        self.set(U._known_compressions, key, ctor, is_item=True)

    def compressor_close_raises(self, fmt, exc):
        if fmt not in U._known_compressions:
            return
        base = U._known_compressions[fmt]
        p = self

        class Sub(base):
            def close(self):
                # never completes the archive (also not when called again by __del__)
                if getattr(self, "_c12_dead", False):
                    return
                self._c12_dead = True
                p.fire(exc)

            def __del__(self):
                pass
        self.set(U._known_compressions, fmt, Sub, is_item=True)

    def zip_write_raises(self, fmt, exc):
        if fmt not in U._known_compressions:
            return
        base = U._known_compressions[fmt]
        p = self

        class Sub(base):
            def write(self, *a, **k):
                p.fire(exc)
        self.set(U._known_compressions, fmt, Sub, is_item=True)

    # -- shutil.copyfileobj: copy nbytes, then raise
    def copy_raises(self, nbytes, exc):
        def fake_copy(src, dst, length=0):
            if self.fired:
                return REAL_COPY(src, dst, length) if length else REAL_COPY(src, dst)
            left = nbytes
            while left > 0:
                buf = src.read(min(left, 1 << 16))
                if not buf:
                    break
                dst.write(buf)
                left -= len(buf)
            self.fire(exc)
        self.set(shutil, "copyfileobj", fake_copy)


# ----------------------------------------------------------------------------- one case

def tokens_of(data, cands):
    if data is None:
        return None
    return cands.get(data, [-9])


def run_case(case):
    blocks = {k: block_bytes(v) for k, v in case["blocks"].items()}
    b_tokens = case["b"]
    b = concat(b_tokens, blocks)
    cands = {}
    for j in range(len(b_tokens) + 1):
        cands[concat(b_tokens[:j], blocks)] = b_tokens[:j]
    prior = case["prior"]
    p_tokens = prior.get("tokens")
    if p_tokens is not None:
        pb = concat(p_tokens, blocks)
        if pb in cands and cands[pb] != p_tokens:
            return {"id": case["id"], "error": "ambiguous contents"}
        cands[pb] = p_tokens
    sb = tempfile.mkdtemp(prefix="verif_c12_")
    out = {"id": case["id"]}
    old_tempdir = tempfile.tempdir
    try:
        work = os.path.join(sb, "work")
        t_exp = os.path.join(sb, "tmp_explicit")
        t_def = os.path.join(sb, "tmp_default")
        for d in (work, t_exp, t_def):
            os.mkdir(d)
        tempfile.tempdir = t_def
        name = os.path.join(work, case["name"])
        absent_dir = case["comp"] and case["cf"]["kind"] == "open_out" and case["cf"].get("variant") == "natural"
        if not absent_dir:          # natural open_out fault: the directory of the target does not exist
            os.makedirs(os.path.dirname(name), exist_ok=True)
        tmpdir_arg = {"explicit": t_exp, "default": None}[case["tmpdir"]]
        missing = os.path.join(sb, "no_such_dir")

        # ---- the file put at `name` beforehand
        kind = prior["kind"]
        out["prior_class"] = kind
        if kind == "raw":
            with builtins.open(name, "wb") as f:
                f.write(concat(p_tokens, blocks))
        elif kind in ("archive", "truncated", "flipped", "wrongformat"):
            payload = concat(p_tokens, blocks)
            fmt_w = prior["fmt"]
            std_write(fmt_w, name, prior["member"], payload)
            data = read_or_none(name)
            if kind == "truncated":
                with builtins.open(name, "wb") as f:
                    f.write(data[:max(1, len(data) * 2 // 3)])
            elif kind == "flipped":
                pos = len(data) - 6 if fmt_w in ("gz",) else len(data) // 2
                if fmt_w == "zip":
                    pos = 30 + len(prior["member"]) + max(0, (len(data) - 30 - 2 * len(prior["member"]) - 68) // 2)
                data = bytearray(data)
                data[pos] ^= 0x5A
                with builtins.open(name, "wb") as f:
                    f.write(bytes(data))
        elif kind == "garbage":
            with builtins.open(name, "wb") as f:
                f.write(random.Random(case["id"]).randbytes(prior.get("size", 100)))
        elif kind == "empty":
            builtins.open(name, "wb").close()
        if kind not in ("none", "raw"):
            # independent oracle: what the standard library makes of the file
            r = std_read(prior["read_fmt"], name) if prior.get("read_fmt") in ("gz", "bz2", "zip", "xz") else None
            if r is None:
                out["prior_class"] = "corrupt"
            elif r[0] in cands:
                out["prior_class"] = "archive"
                out["prior_tokens"] = cands[r[0]]
                out["prior_member"] = r[1]
            else:
                out["prior_class"] = "undamaged"
        prior_data = read_or_none(name)

        # ---- compress
        if case["comp"]:
            cf = case["cf"]
            exc = EXC[cf.get("exc", "Exception")]
            fmt_eff = case["fmt_eff"]
            P = Patches()
            k = cf["kind"]
            var = cf.get("variant", "")
            tdir = tmpdir_arg
            cname = name
            if k == "mkdtemp":
                if var == "natural":
                    tdir = missing
                    P.fired = True
                else:
                    P.mkdtemp_raises(exc)
            elif k == "open_in" and var == "patched":
                if fmt_eff == "zip":
                    P.zip_write_raises(fmt_eff, exc)
                else:
                    P.open_raises("rb", exc)
            elif k == "open_out":
                if var == "patched":
                    if fmt_eff == "gz":
                        P.open_raises("wb", exc)
                    else:
                        P.compressor_ctor_raises(fmt_eff, exc)
            elif k == "wrap":
                P.compressor_ctor_raises(fmt_eff, exc)
            elif k == "copy":
                P.copy_raises(len(concat(b_tokens[:cf["j"]], blocks)), exc)
            elif k == "close":
                P.compressor_close_raises(fmt_eff, exc)
            obs = {"raised": False, "exc": None, "yielded": 0, "during": 0}
            try:
                try:
                    with U.compress(cname, fmt=case["fmtarg"], tmpdir=tdir) as f:
                        obs["during"] = listing(t_exp, t_def)
                        if f == cname:
                            obs["yielded"] = 1
                        elif os.path.dirname(os.path.dirname(f)) == (tdir or t_def):
                            obs["yielded"] = 2
                        else:
                            obs["yielded"] = 9
                        if k == "body":
                            j = cf["j"]
                            if j is not None:
                                with builtins.open(f, "wb") as h:
                                    h.write(concat(b_tokens[:j], blocks))
                            P.fired = True
                            raise exc("injected fault in the block")
                        if k == "open_in" and var == "natural":
                            P.fired = True           # the block writes nothing
                        else:
                            if k == "open_out" and var == "natural":
                                P.fired = True       # the directory of the target does not exist

                            with builtins.open(f, "wb") as h:
                                h.write(b)
                finally:
                    P.restore()
            except BaseException as e:  # noqa
                obs["raised"] = True
                obs["exc"] = type(e).__name__
                e = None
            obs["fired"] = P.fired
            obs["left"] = listing(t_exp, t_def)
            after = read_or_none(name)
            obs["t_exists"] = after is not None
            obs["t_same"] = prior_data is not None and after == prior_data
            obs["decoded"] = None
            obs["member"] = None
            if after is not None and fmt_eff in ("gz", "bz2", "zip", "xz"):
                r = std_read(fmt_eff, name)
                if r is not None:
                    obs["decoded"] = tokens_of(r[0], cands)
                    obs["member"] = r[1]
            out["comp"] = obs

        # ---- decompress
        if case["dec"]:
            df = case["df"]
            exc = EXC[df.get("exc", "Exception")]
            fmt_name = case["fmt_name"]
            P = Patches()
            k = df["kind"]
            var = df.get("variant", "")
            tdir = tmpdir_arg
            target = None
            if case["target"] is not None:
                target = os.path.join(work, case["target"])
            if k == "mktemp":
                if var == "natural":
                    P.fired = True
                    if target is None:
                        tdir = missing
                    else:
                        target = os.path.join(missing, "copy")
                elif target is None:
                    P.mktemp_raises(exc)
                else:
                    P.open_raises("wb", exc)
            elif k == "open" and var == "patched":
                P.compressor_ctor_raises(fmt_name, exc)
            elif k == "copy":
                P.copy_raises(len(concat(df.get("prefix", []), blocks)), exc)
            elif k == "close":
                if target is None:
                    P.mktemp_close_raises(exc)
                else:
                    P.open_close_raises("wb", exc)
            stored = read_or_none(name)
            obs = {"raised": False, "exc": None, "yielded": 0, "during": 0, "read": None}
            ypath = None
            try:
                try:
                    with U.decompress(name, tmpdir=tdir, target=target) as g:
                        ypath = g
                        obs["during"] = listing(t_exp, t_def)
                        if g == name:
                            obs["yielded"] = 1
                        elif target is not None and g == target:
                            obs["yielded"] = 3
                        elif os.path.dirname(g) == (tdir or t_def):
                            obs["yielded"] = 2
                        else:
                            obs["yielded"] = 9
                        if k == "body" and not df["after_read"]:
                            P.fired = True
                            raise exc("injected fault in the block")
                        with builtins.open(g, "rb") as h:
                            obs["read"] = tokens_of(h.read(), cands)
                        if k == "body":
                            P.fired = True
                            raise exc("injected fault in the block")
                finally:
                    P.restore()
            except BaseException as e:  # noqa
                obs["raised"] = True
                obs["exc"] = type(e).__name__
                e = None
            obs["fired"] = P.fired
            obs["left"] = listing(t_exp, t_def)
            gone = True
            if ypath == name:
                gone = True                      # passed through: there is no copy
            elif ypath is not None and os.path.exists(ypath):
                gone = False
            elif target is not None and os.path.exists(target):
                gone = False
            obs["copy_gone"] = gone
            obs["archive_same"] = read_or_none(name) == stored
            out["dec"] = obs
    except BaseException as e:  # noqa  -- the harness itself failed
        import traceback
        out["error"] = "harness: " + traceback.format_exc()[-800:]
    finally:
        tempfile.tempdir = old_tempdir
        shutil.copyfileobj = REAL_COPY
        shutil.rmtree(sb, ignore_errors=True)
    return out


# ----------------------------------------------------------------------------- histories of several blocks

def run_hist(case):
    """Several compress / decompress blocks open at the same time.

    case["blocks"]: [{"kind": "dec"|"comp", "name", "tmpdir": "explicit"|"default", "fmtarg", "b"}]
    case["events"]: [["E", i] | ["U", i] | ["L", i, exc]] -- enter block i (cm.__enter__), use it (decompress: read the
        yielded path completely; compress: write the content to the yielded path), leave it (cm.__exit__, with an
        exception of the body if exc).  Events on a block that is not open (and entering an open one) do nothing.
    case["files"]: files put into the sandbox beforehand: archives / raw files / garbage below work/, bystanders in
        the two temporary directories.
    Observed per event: [temporary entries alive (top level of both temporary directories, bystanders not counted),
        code...] with code = [0] skipped | [1, raised, yielded kind] | [2, 0] the yielded path does not exist |
        [2, 1, tokens...] | [3] written | [4, raised an exception of its own].
    """
    blocks = {k: block_bytes(v) for k, v in case["tokblocks"].items()}
    cands = {}

    def reg(tokens):
        data = concat(tokens, blocks)
        if data in cands and cands[data] != list(tokens):
            raise ValueError("ambiguous contents")
        cands[data] = list(tokens)
        return data

    sb = tempfile.mkdtemp(prefix="verif_c12_")
    out = {"id": case["id"]}
    old_tempdir = tempfile.tempdir
    open_cms = {}
    try:
        work = os.path.join(sb, "work")
        t_exp = os.path.join(sb, "tmp_explicit")
        t_def = os.path.join(sb, "tmp_default")
        for d in (work, t_exp, t_def):
            os.mkdir(d)
        tempfile.tempdir = t_def
        roots = {"work": work, "explicit": t_exp, "default": t_def}
        for bl in case["blocks"]:
            if bl["kind"] == "comp":
                reg(bl["b"])
                os.makedirs(os.path.dirname(os.path.join(work, bl["name"])), exist_ok=True)
        nby = 0
        watched = []
        for fl in case["files"]:
            path = os.path.join(roots[fl["where"]], fl["path"])
            os.makedirs(os.path.dirname(path), exist_ok=True)
            if fl["where"] != "work":
                nby += 1
            if fl["kind"] == "archive":
                std_write(fl["fmt"], path, fl["member"], reg(fl["tokens"]))
                r = std_read(fl["fmt"], path)
                if r is None or r[0] != concat(fl["tokens"], blocks):
                    raise ValueError("the standard library does not read back its own archive")
            elif fl["kind"] == "raw":
                with builtins.open(path, "wb") as f:
                    f.write(reg(fl["tokens"]))
            elif fl["kind"] == "garbage":
                with builtins.open(path, "wb") as f:
                    f.write(random.Random(case["id"]).randbytes(100))
                if fl.get("read_fmt") in ("gz", "bz2", "zip", "xz") and std_read(fl["read_fmt"], path) is not None:
                    raise ValueError("garbage is an archive")
            else:
                raise ValueError(fl["kind"])
            if fl.get("watch"):
                watched.append((path, read_or_none(path)))

        def count():
            return listing(t_exp, t_def) - nby

        codes = []
        for ev in case["events"]:
            op, i = ev[0], ev[1]
            bl = case["blocks"][i] if 0 <= i < len(case["blocks"]) else None
            if op == "E":
                if i in open_cms or bl is None:
                    code = [0]
                else:
                    name = os.path.join(work, bl["name"])
                    tdir = {"explicit": t_exp, "default": None}[bl["tmpdir"]]
                    try:
                        if bl["kind"] == "dec":
                            cm = U.decompress(name, tmpdir=tdir)
                        else:
                            cm = U.compress(name, fmt=bl.get("fmtarg"), tmpdir=tdir)
                        y = cm.__enter__()
                    except BaseException as e:  # noqa
                        code = [1, 1, 0]
                        e = None
                    else:
                        if y == name:
                            kind = 1
                        elif bl["kind"] == "dec" and os.path.dirname(y) == (tdir or t_def):
                            kind = 2
                        elif bl["kind"] == "comp" and os.path.dirname(os.path.dirname(y)) == (tdir or t_def):
                            kind = 2
                        else:
                            kind = 9
                        open_cms[i] = (cm, y)
                        code = [1, 0, kind]
            elif op == "U":
                if i not in open_cms:
                    code = [0]
                else:
                    cm, y = open_cms[i]
                    if bl["kind"] == "dec":
                        try:
                            with builtins.open(y, "rb") as h:
                                data = h.read()
                        except OSError:
                            code = [2, 0]
                        else:
                            code = [2, 1] + tokens_of(data, cands)
                    else:
                        try:
                            with builtins.open(y, "wb") as h:
                                h.write(concat(bl["b"], blocks))
                            code = [3]
                        except OSError:
                            code = [3, 1]
            elif op == "L":
                if i not in open_cms:
                    code = [0]
                else:
                    cm, y = open_cms.pop(i)
                    if ev[2]:
                        try:
                            raise Injected("injected fault in the block")
                        except Injected as e:
                            try:
                                swallowed = cm.__exit__(type(e), e, e.__traceback__)
                                code = [4, 2] if swallowed else [4, 0]
                            except BaseException as e2:  # noqa
                                code = [4, 0] if e2 is e else [4, 1]
                                e2 = None
                    else:
                        try:
                            cm.__exit__(None, None, None)
                            code = [4, 0]
                        except BaseException as e2:  # noqa
                            code = [4, 1]
                            e2 = None
            else:
                raise ValueError(op)
            codes.append([count()] + code)
        out["codes"] = codes
        out["watch"] = [[int(os.path.exists(p)), int(read_or_none(p) == before)] for p, before in watched]
        targets = []
        for bl in case["blocks"]:
            if bl["kind"] != "comp":
                continue
            path = os.path.join(work, bl["name"])
            dec = None
            if os.path.exists(path) and bl["fmt_eff"] in ("gz", "bz2", "zip", "xz"):
                r = std_read(bl["fmt_eff"], path)
                if r is not None:
                    dec = tokens_of(r[0], cands)
            targets.append(dec)
        out["targets"] = targets
        out["left_open"] = sorted(open_cms)
    except BaseException as e:  # noqa  -- the harness itself failed
        import traceback
        out["error"] = "harness: " + traceback.format_exc()[-800:]
    finally:
        for cm, _y in list(open_cms.values()):
            try:
                cm.__exit__(None, None, None)
            except BaseException:  # noqa
                pass
        tempfile.tempdir = old_tempdir
        shutil.rmtree(sb, ignore_errors=True)
    return out


def main():
    global U
    sys.stderr = io.StringIO()      # "Exception ignored in __del__" noise of abandoned writers
    import typhon.files.utils as utils
    U = utils
    cases = json.loads(builtins.open(sys.argv[1]).read())
    table = sorted(str(k) for k in U._known_compressions)
    res = [run_hist(c) if c.get("hist") else run_case(c) for c in cases]
    sys.stdout.write(json.dumps({"table": table, "file": os.path.abspath(utils.__file__), "results": res}))


if __name__ == "__main__":
    main()
